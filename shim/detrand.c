/* Deterministic getrandom(): every byte the process asks the OS for comes from a
 * splitmix64 stream that the simulator re-seeds at the start of each run
 * (detrand_reseed).  Rust's std RandomState (HashMap/HashSet iteration order),
 * the getrandom crate (rand::thread_rng, uuid v4) all end up here, so one
 * VERIF seed is one exactly repeatable execution.  Loaded with LD_PRELOAD into
 * simulator worker processes only. */
#define _GNU_SOURCE
#include <stddef.h>
#include <stdint.h>
#include <stdlib.h>
#include <sys/types.h>
#include <stdarg.h>
#include <dlfcn.h>
#include <sys/syscall.h>

static volatile uint64_t g_state = 0x9E3779B97F4A7C15ULL;
static volatile uint64_t g_calls = 0;

static uint64_t next64(void) {
    uint64_t z = __atomic_add_fetch(&g_state, 0x9E3779B97F4A7C15ULL, __ATOMIC_SEQ_CST);
    z = (z ^ (z >> 30)) * 0xBF58476D1CE4E5B9ULL;
    z = (z ^ (z >> 27)) * 0x94D049BB133111EBULL;
    return z ^ (z >> 31);
}

void detrand_reseed(uint64_t seed) {
    g_state = seed * 0x2545F4914F6CDD1DULL + 0x9E3779B97F4A7C15ULL;
    g_calls = 0;
}

uint64_t detrand_calls(void) { return g_calls; }

ssize_t getrandom(void *buf, size_t buflen, unsigned int flags) {
    (void)flags;
    unsigned char *p = (unsigned char *)buf;
    size_t i = 0;
    __atomic_add_fetch(&g_calls, 1, __ATOMIC_SEQ_CST);
    while (i < buflen) {
        uint64_t v = next64();
        for (int k = 0; k < 8 && i < buflen; k++, i++) { p[i] = (unsigned char)(v & 0xff); v >>= 8; }
    }
    return (ssize_t)buflen;
}

int getentropy(void *buf, size_t buflen) {
    if (buflen > 256) return -1;
    getrandom(buf, buflen, 0);
    return 0;
}

/* The getrandom crate 0.2 (behind rand 0.8: thread_rng, StdRng::from_entropy — e.g. the
 * layer assignment of hnsw_rs) does not call getrandom() but syscall(SYS_getrandom, ..),
 * so libc's generic syscall() entry is interposed as well: SYS_getrandom is served from
 * the same stream, everything else is forwarded untouched. */
long syscall(long number, ...) {
    static long (*real)(long, ...) = 0;
    va_list ap;
    long a0, a1, a2, a3, a4, a5;
    va_start(ap, number);
    a0 = va_arg(ap, long); a1 = va_arg(ap, long); a2 = va_arg(ap, long);
    a3 = va_arg(ap, long); a4 = va_arg(ap, long); a5 = va_arg(ap, long);
    va_end(ap);
    if (number == SYS_getrandom) return (long)getrandom((void *)a0, (size_t)a1, (unsigned int)a2);
    if (!real) real = (long (*)(long, ...))dlsym(RTLD_NEXT, "syscall");
    return real(number, a0, a1, a2, a3, a4, a5);
}

__attribute__((constructor)) static void detrand_init(void) {
    const char *s = getenv("VERIF_HASH_SEED");
    if (s) detrand_reseed(strtoull(s, NULL, 10));
}
