#!/bin/bash
# Builds everything the checks need, offline, from files on disk only.
set -e
cd "$(dirname "$0")"
export CARGO_NET_OFFLINE=true
mkdir -p target evidence replays
gcc -O2 -shared -fPIC -o target/libdetrand.so shim/detrand.c
( cd sim && cargo build --offline )
if [ -x miri/setup.sh ]; then miri/setup.sh; fi
