#!/bin/bash
# eval_seeded_ws.sh <seeded-id> [ws] [tier]: evaluate a seeded change in an isolated copy (worktree of /repo HEAD +
# copy of /verif/sim) so /repo stays free; same binary, same checks. Result -> /verif/seeded/<id>/result.json
set -u
ID="${1:?id}"; WS="${2:-/tmp/ag-eval}"; TIER="${3:-quick}"; D=/verif/seeded/$ID
PROPS=$(python3 -c "import json;m=json.load(open('$D/meta.json'));print(' '.join([m['property']]+m.get('also_check',[])))")
cd $WS/repo && git checkout -q -- . && git checkout -q --detach $(git -C /repo rev-parse HEAD) && git apply "$D/patch.diff" || { echo "patch does not apply"; exit 2; }
rsync -a --delete --exclude target /verif/sim/src/ $WS/sim/src/
sed "s#/repo#$WS/repo#g" /verif/sim/Cargo.toml > $WS/sim/Cargo.toml; cp /verif/sim/Cargo.lock $WS/sim/Cargo.lock; cp /verif/target/libdetrand.so $WS/vd/target/
cp /verif/known_findings.json $WS/vd/; rm -rf $WS/vd/replays; mkdir -p $WS/vd/replays; cp -r /verif/replays/known $WS/vd/replays/
BERR=$( cd $WS/sim && CARGO_NET_OFFLINE=true cargo build --offline 2>&1 | grep -E "^error" -A8 | head -20 )
if [ -n "$BERR" ]; then echo "$BERR"; echo "== $ID: BUILD FAILED"; cd $WS/repo && git checkout -q -- .; exit 2; fi
RES="{"
for P in $PROPS; do
  case "$P" in
    C27|C34) OUT=$(cd /verif/miri && sed "s#/repo/crates#$WS/repo/crates#g" Cargo.toml > /tmp/miri-eval-Cargo.toml; echo "miri eval needs /repo; skipped"); RC=99 ;;
    *) OUT=$(VERIF_DIR=$WS/vd $WS/target/debug/simrun $P --tier $TIER --no-evidence 2>&1); RC=$? ;;
  esac
  SIGS=$(echo "$OUT" | grep -o "signature=[^ ]*" | sort -u | head -8 | tr '\n' ' ')
  echo "== $ID vs $P ($TIER): exit=$RC $SIGS"
  RES="$RES\"$P\": {\"tier\": \"$TIER\", \"exit\": $RC, \"signatures\": \"$SIGS\", \"where\": \"isolated worktree of /repo HEAD + copy of /verif/sim\"},"
done
RES="${RES%,}}"
echo "$RES" | python3 -c "import json,sys; json.dump(json.load(sys.stdin), open('$D/result.json','w'), indent=1)"
cd $WS/repo && git checkout -q -- .
