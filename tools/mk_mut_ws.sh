#!/bin/bash
# mk_mut_ws.sh <Cxx> : scratch workspace /tmp/mut-<Cxx> for a seeded-mutation agent (gets the property text only)
set -e
P="${1:?property id}"; W=/tmp/mut-$P
git -C /repo worktree remove --force "$W/repo" 2>/dev/null || true
rm -rf "$W"; mkdir -p "$W/out/m1" "$W/out/m2"
git -C /repo worktree add --detach "$W/repo" HEAD >/dev/null 2>&1
python3 - "$P" "$W" <<'PY'
import json,sys
pid,w=sys.argv[1],sys.argv[2]
prop=[json.loads(l) for l in open('/verif/properties.jsonl') if json.loads(l)['id']==pid][0]
text=f"**{prop['id']} — {prop['title']}**\n\n{prop['statement']}\n\n(Quantified over: {prop['quantifier']['text']})"
brief=open('/verif/tools/MUTATION_BRIEF.md').read().replace('PROPERTY_TEXT',text).replace('WORKDIR',w)
import glob,os
prev=[]
for d in sorted(glob.glob('/verif/seeded/%s-*'%pid)):
    try: prev.append('* '+json.load(open(d+'/meta.json')).get('summary',''))
    except Exception: pass
if prev and os.environ.get('ROUND2'):
    brief=brief.replace('## How to work','## Changes other engineers already proposed for this property (choose DIFFERENT places and mechanisms)\n\n'+'\n'.join(prev)+'\n\n## How to work')
open(w+'/BRIEF.md','w').write(brief)
PY
echo "$W"
