#!/bin/bash
# final_run.sh : clean quick pass of every registered check from /verif against /repo, evidence validated.
cd /verif
[ -n "$(git -C /repo status --porcelain --untracked-files=no)" ] && { echo "/repo not clean"; exit 2; }
rm -f evidence/*.json replays/*.json
./tools/run_all.sh quick | tee /tmp/final_run.log
python3-vt - <<'PY'
import json,jsonschema,glob,sys
m=json.load(open('/verif/MANIFEST.json')); jsonschema.validate(m, json.load(open('/root/.vp/MANIFEST.schema.json')))
sch=json.load(open('/root/.vp/EVIDENCE.schema.json')); bad=0
for c in m['checks']:
    try:
        e=json.load(open(c['evidence_file'])); jsonschema.validate(e,sch)
        assert e['property_id']==c['property_id'] and e['level']==c['level_claimed']['category'], (e['level'], c['level_claimed']['category'])
    except Exception as ex:
        bad+=1; print('EVIDENCE PROBLEM', c['property_id'], repr(ex)[:200])
print('evidence files ok' if not bad else f'{bad} evidence problems')
PY
grep -c "exit=0" /tmp/final_run.log; grep -v "exit=0" /tmp/final_run.log | grep "^C" | head
