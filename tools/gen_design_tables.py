#!/usr/bin/env python3
"""Regenerates the machine-written tables of DESIGN.md (between the BEGIN/END GENERATED markers)
from known_findings.json, seeded/*/{meta,result}.json and MANIFEST.json."""
import json, os, re, glob

V = "/verif"

def fixed_table(kf):
    rows = ["| property | commit | repaired defect |", "|---|---|---|"]
    for f in kf["fixed"]:
        m = re.match(r"fixed: property=(\S+) (\S+) (.*)", f, re.S)
        if not m:
            continue
        what = m.group(3).split(" — ")[0].replace("|", "\\|")
        rows.append(f"| {m.group(1)} | {m.group(2)} | {what[:230]} |")
    return "\n".join(rows)

def findings_table(kf):
    by = {}
    for f in kf["findings"]:
        by.setdefault(f["property"], []).append(f)
    rows = ["| property | listed signatures | what (first of each group) |", "|---|---|---|"]
    for p in sorted(by):
        fs = by[p]
        what = fs[0]["what"].replace("|", "\\|")[:300]
        sigs = ", ".join(f"`{x['signature']}`" for x in fs[:4]) + (f" … (+{len(fs)-4})" if len(fs) > 4 else "")
        rows.append(f"| {p} | {len(fs)}: {sigs} | {what} |")
    return "\n".join(rows)

def seeded_table():
    rows = ["| seeded change | breaks | what it changes / needs | caught by (quick tier) |", "|---|---|---|---|"]
    caught = missed = 0
    for d in sorted(glob.glob(f"{V}/seeded/*")):
        sid = os.path.basename(d)
        try:
            meta = json.load(open(f"{d}/meta.json"))
        except Exception:
            continue
        res = {}
        if os.path.exists(f"{d}/result.json"):
            res = json.load(open(f"{d}/result.json"))
        hits = []
        for p, r in res.items():
            if r.get("exit") == 1:
                sig = r.get("signatures", "").split()
                sig = [s.replace("signature=", "") for s in sig][:2]
                hits.append(f"{p} ({', '.join('`'+s+'`' for s in sig)})")
        if hits:
            caught += 1
        else:
            missed += 1
        summ = (meta.get("summary", "") + " Needs: " + meta.get("needs", "")).replace("|", "\\|").replace("\n", " ")
        rows.append(f"| {sid} | {meta.get('property')} | {summ[:330]} | {'; '.join(hits) if hits else '**not caught** — ' + meta.get('miss_note', 'see notes below')} |")
    rows.append(f"\nTotals: {caught} caught, {missed} not caught, of {caught+missed} kept seeded changes.")
    return "\n".join(rows)

def main():
    kf = json.load(open(f"{V}/known_findings.json"))
    gen = []
    gen.append("### 13.3 Genuine defects repaired (`fix:` commits in /repo; also listed in known_findings.json)\n")
    gen.append(fixed_table(kf))
    gen.append("\n### 13.4 Known findings (genuine defects recorded, not repaired)\n")
    gen.append(findings_table(kf))
    gen.append("\n### 13.5 Seeded changes and which check catches them\n")
    gen.append("Each change was written by a fresh sub-agent that saw only the property text and a scratch worktree; "
               "each compiles, passes the crate's unit tests and the related integration tests with the change, and comes with a "
               "demonstration that fails with it and passes without it (`/verif/seeded/<id>/`). `result.json` there records the check run.\n")
    gen.append(seeded_table())
    text = open(f"{V}/DESIGN.md").read()
    b, e = "<!-- BEGIN GENERATED -->", "<!-- END GENERATED -->"
    block = b + "\n" + "\n".join(gen) + "\n" + e
    if b in text:
        text = re.sub(re.escape(b) + r".*?" + re.escape(e), lambda m: block, text, flags=re.S)
    else:
        text += "\n" + block + "\n"
    open(f"{V}/DESIGN.md", "w").write(text)
    print("DESIGN.md tables regenerated")

if __name__ == "__main__":
    main()
