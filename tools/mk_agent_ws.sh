#!/bin/bash
# mk_agent_ws.sh <name> : isolated scratch workspace /tmp/ag-<name> for building a scenario
#   repo/    git worktree of /repo HEAD (detached) — may be edited freely to try fixes
#   sim/     copy of /verif/sim, path deps -> ../repo, target-dir -> ../target
#   target/  copy of /verif/target (compiled dependencies)
#   vd/      VERIF_DIR for runs (evidence/, replays/, known_findings.json, target/libdetrand.so)
set -e
N="${1:?name}"; W=/tmp/ag-$N
rm -rf "$W"; git -C /repo worktree prune; mkdir -p "$W"
git -C /repo worktree add --detach "$W/repo" HEAD >/dev/null 2>&1
cp -a /verif/sim "$W/sim"
cp -a /verif/target "$W/target"
sed -i "s#/repo#$W/repo#g" "$W/sim/Cargo.toml"
sed -i "s#/verif/target#$W/target#g" "$W/sim/.cargo/config.toml"
mkdir -p "$W/vd/evidence" "$W/vd/replays" "$W/vd/target" "$W/out"
cp /verif/known_findings.json "$W/vd/"
cp /verif/target/libdetrand.so "$W/vd/target/"
cat > "$W/run" <<EOR
#!/bin/bash
# ./run <Cxx> [simrun args]  — build the simulator against $W/repo and run it with VERIF_DIR=$W/vd
cd $W/sim && CARGO_NET_OFFLINE=true cargo build --offline 2>&1 | grep -E "^(error|warning: unused)" -A12 | grep -v "^warning" | head -60
[ \${PIPESTATUS[0]} -ne 0 ] && exit 2
VERIF_DIR=$W/vd exec $W/target/debug/simrun "\$@"
EOR
chmod +x "$W/run"
echo "$W"
