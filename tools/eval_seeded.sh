#!/bin/bash
# eval_seeded.sh <seeded-id> [tier] : apply /verif/seeded/<id>/patch.diff to /repo, run the check(s) of the
# property it breaks (meta.json "property", plus any in "also_check"), record the outcome in
# /verif/seeded/<id>/result.json, and undo the patch straight afterwards.
set -u
ID="${1:?seeded id}"; TIER="${2:-quick}"; D=/verif/seeded/$ID
[ -f "$D/patch.diff" ] || { echo "no $D/patch.diff"; exit 2; }
if [ -n "$(git -C /repo status --porcelain --untracked-files=no)" ]; then echo "/repo not clean"; exit 2; fi
PROPS=$(python3 -c "import json;m=json.load(open('$D/meta.json'));print(' '.join([m['property']]+m.get('also_check',[])))")
git -C /repo apply "$D/patch.diff" || { echo "patch does not apply"; exit 2; }
trap 'git -C /repo checkout -- . ; git -C /repo status --porcelain --untracked-files=no' EXIT
RES="{"
for P in $PROPS; do
  OUT=$(cd /verif && ./check $P $TIER --no-evidence 2>&1); RC=$?
  SIGS=$(echo "$OUT" | grep -o "signature=[^ ]*" | sort -u | head -8 | tr '\n' ' ')
  echo "== $ID vs $P ($TIER): exit=$RC $SIGS"
  RES="$RES\"$P\": {\"tier\": \"$TIER\", \"exit\": $RC, \"signatures\": \"$SIGS\"},"
done
RES="${RES%,}}"
echo "$RES" | python3 -c "import json,sys; json.dump(json.load(sys.stdin), open('$D/result.json','w'), indent=1)"
rm -f /verif/replays/*-s*r*.json 2>/dev/null
