#!/bin/bash
# run_all.sh [tier] [props...] : run every registered check once, print a one-line summary each.
TIER="${1:-quick}"; shift
PROPS="$@"; [ -z "$PROPS" ] && PROPS=$(python3 -c "import json;print(' '.join(c['property_id'] for c in json.load(open('/verif/MANIFEST.json'))['checks']))")
cd /verif
for P in $PROPS; do
  S=$(date +%s); OUT=$(./check $P $TIER 2>&1); RC=$?; E=$(( $(date +%s) - S ))
  KN=$(echo "$OUT" | grep -c "^KNOWN-FINDING"); VI=$(echo "$OUT" | grep -c "^VIOLATION"); HE=$(echo "$OUT" | grep -c "harness error")
  NR=$(python3 -c "
import json
try:
    e=json.load(open('/verif/evidence/$P.json')); w=e['coverage'].get('known_finding_witnesses',[]); print(sum(1 for x in w if not x.get('reproduces')), e['coverage'].get('evaluations'), e['coverage'].get('distinct_nontrivial'))
except Exception as ex: print('?',ex)")
  echo "$P $TIER exit=$RC wall=${E}s known=$KN violations=$VI harness_errors=$HE witnesses_not_reproducing/evals/distinct=$NR"
  [ $RC -ne 0 ] && echo "$OUT" | grep -E "VIOLATION|harness error|signature=" | head -6
done
