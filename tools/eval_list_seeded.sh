#!/bin/bash
# eval_list_seeded.sh <tag> id1 id2 ... : evaluate the given seeded ids across the three eval workspaces in parallel
TAG=$1; shift; cd /verif; i=0; : > /tmp/plan_$TAG.txt
for id in "$@"; do ws=/tmp/ag-eval; [ $((i % 3)) -eq 1 ] && ws=/tmp/ag-eval2; [ $((i % 3)) -eq 2 ] && ws=/tmp/ag-eval3; echo "$id $ws" >> /tmp/plan_$TAG.txt; i=$((i+1)); done
for ws in /tmp/ag-eval /tmp/ag-eval2 /tmp/ag-eval3; do
  ( grep " $ws\$" /tmp/plan_$TAG.txt | cut -d' ' -f1 | while read id; do tools/eval_seeded_ws.sh $id $ws 2>&1 | tail -1 | cut -c1-220; done ) > /tmp/eval_${TAG}_$(basename $ws).log 2>&1 &
done
wait; echo ALLDONE > /tmp/eval_${TAG}_done
