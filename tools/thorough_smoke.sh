#!/bin/bash
# thorough_smoke.sh [secs] : run every simrun check's thorough tier under a time cap (no evidence written),
# to see that the deeper tier neither alarms nor errors on the unchanged tree.
SECS="${1:-120}"; cd /verif
for P in $(python3 -c "import json;print(' '.join(c['property_id'] for c in json.load(open('/verif/MANIFEST.json'))['checks'] if c['property_id'] not in ('C27','C34')))"); do
  S=$(date +%s); OUT=$(./check $P thorough --max-seconds $SECS --no-evidence 2>&1); RC=$?
  echo "$P thorough(capped ${SECS}s) exit=$RC wall=$(( $(date +%s)-S ))s $(echo "$OUT" | grep "^$P thorough" | cut -c1-150)"
  [ $RC -ne 0 ] && echo "$OUT" | grep -E "VIOLATION|harness error|signature=" | head -5
done
