#!/usr/bin/env python3
"""Regenerates /verif/MANIFEST.json from the table below (one place to edit)."""
import json, os, subprocess

GUARD = "samyama_ai_samyama_graph_verif"

# property -> (level category, technique, level text, level note, design_ref)
CLAIMED = {
 "C06": ("exploration",
         "deterministic simulation: seeded API histories with injected maintenance events (compaction / bulk-load finish), refinement against a reference graph model after every step, ddmin-shrunk replay",
         "Sampled (not enumerated) histories of <=40 store operations with compaction, threshold compaction and finish_bulk_load injected at PRNG-chosen points; every public read view is compared with a plain model after every step. Right level: the failures need a conjunction (freeze, delete, id reuse) that fixed unit tests do not line up; sampling many short diverse histories reaches them in milliseconds.",
         "Trusted: the reference model and the id bookkeeping (ids taken from the store's return values); stub relationships only between live nodes; type-index views compared only when no stub batch is pending.",
         "DESIGN.md §6 C06"),
}

NOT_APPLICABLE = {
 "C01": "result = f(graph, query) for a stateless sequential evaluator: deciding it needs an independent openCypher evaluator (differential/generative testing); there is no schedule, fault, clock or durable state for a simulator to own",
 "C10": "algebraic laws of Ord/Eq/Hash over property values: a pure function of three values, no interleaving, fault or durable state",
 "C25": "parse_query(&str) is a pure function of one string; panics and numeric overflow are found by fuzzing the input, not by a scheduler or a fault",
 "C26": "graph algorithms versus their definitions on a given graph: pure functions of the input graph; nothing the property states depends on schedule, time, I/O or faults",
 "C35": "parameter substitution versus inlined literal: pure function of (query text, parameter map)",
 "C36": "serialize(&[Triple]) -> String and parse(&str): no stream, no state, no fault surface — pure input/output round trip",
}

NOT_YET = "in scope for deterministic simulation (see DESIGN.md §6) but its scenario is not registered yet; not claimed until it is deterministic and sensitive"

def main():
    props = [json.loads(l)["id"] for l in open("/verif/properties.jsonl")]
    hooks = subprocess.run(["git","-C","/repo","log","--format=%H %s","--grep=^verif hook"],capture_output=True,text=True).stdout.strip().splitlines()
    checks = []
    for pid in props:
        if pid in CLAIMED:
            cat, tech, text, note, ref = CLAIMED[pid]
            checks.append({
                "property_id": pid,
                "quick_cmd": f"./check {pid} quick",
                "thorough_cmd": f"./check {pid} thorough",
                "evidence_file": f"/verif/evidence/{pid}.json",
                "replay_cmd_template": f"./check {pid} quick --replay {{path}}",
                "engine": "simrun" if pid not in ("C27","C34") else "miri-sched",
                "level_claimed": {"category": cat, "text": text, "design_ref": ref},
                "level_note": note,
                "technique": tech,
            })
    na = []
    for pid in props:
        if pid in CLAIMED: continue
        na.append({"property_id": pid, "reason": NOT_APPLICABLE.get(pid, NOT_YET)})
    m = {
        "version": 1,
        "setup_cmd": "./setup.sh",
        "hooks": {
            "guard": f"--cfg {GUARD} (rustc cfg flag, passed via RUSTFLAGS in /verif/sim/.cargo/config.toml; never a default feature)",
            "enable": f"cd /verif/sim && cargo build --offline   # .cargo/config.toml sets rustflags = [\"--cfg\", \"{GUARD}\"] and target-dir=/verif/target; samyama is a path dependency on /repo",
            "baseline_off_cmd": "cd /repo && cargo nextest run --workspace --no-fail-fast --test-threads 8 --offline || cargo test --workspace --no-fail-fast --offline",
            "source_commits": [h.split()[0] for h in hooks][::-1],
            "add_only": False,
        },
        "engines": [
            {"name": "simrun", "path": "/verif/sim", "serves_properties": [p for p in props if p in CLAIMED and p not in ("C27","C34")],
             "kind_free_text": "own deterministic simulator: seeded named PRNG streams, generate-then-execute cases (= replay files), process-per-worker coordinator, simulated FS / streams / executor, ddmin shrinking, known-findings matching"},
        ],
        "checks": checks,
        "not_applicable": na,
        "notes": "All checks: ./check <id> quick|thorough (rebuilds /verif/sim against /repo's working tree first). Exit 0 held / listed findings only, 1 VIOLATION, 2 harness error. Known findings: /verif/known_findings.json. Hook commits H2, H3, H5 rewrite 1-3 existing lines each into cfg pairs (add_only=false); with the guard off the aliases resolve to today's types.",
    }
    json.dump(m, open("/verif/MANIFEST.json","w"), indent=1)
    print("claimed", len(checks), "not_applicable", len(na))

if __name__ == "__main__":
    main()
