#!/bin/bash
# eval_all_seeded.sh : re-evaluate every seeded change against the current /verif/sim and /repo HEAD,
# three isolated workspaces in parallel (C27/C34 go through /repo itself, serially, at the end).
cd /verif
IDS=$(ls seeded | grep -v "^C27\|^C34")
i=0
for id in $IDS; do
  ws=/tmp/ag-eval; [ $((i % 3)) -eq 1 ] && ws=/tmp/ag-eval2; [ $((i % 3)) -eq 2 ] && ws=/tmp/ag-eval3
  echo "$id $ws"; i=$((i+1))
done > /tmp/seeded_plan.txt
for ws in /tmp/ag-eval /tmp/ag-eval2 /tmp/ag-eval3; do
  ( grep " $ws\$" /tmp/seeded_plan.txt | cut -d' ' -f1 | while read id; do tools/eval_seeded_ws.sh $id $ws 2>&1 | tail -1 | cut -c1-200; done ) > /tmp/seeded_eval_$(basename $ws).log 2>&1 &
done
wait
for id in $(ls seeded | grep "^C27\|^C34"); do tools/eval_seeded.sh $id 2>&1 | grep "^==" | cut -c1-200; done > /tmp/seeded_eval_miri.log 2>&1
echo ALLDONE >> /tmp/seeded_eval_miri.log
