//! simrun — deterministic simulation with fault injection for samyama-graph.
//! See /verif/DESIGN.md.
mod kit;
mod scen;

fn main() {
    let argv: Vec<String> = std::env::args().collect();
    let args = match kit::runner::parse_args(&argv) {
        Ok(a) => a,
        Err(e) => {
            eprintln!("harness error: {e}");
            std::process::exit(2);
        }
    };
    let reg = scen::registry();
    let Some(sc) = reg.iter().find(|s| s.id() == args.prop) else {
        eprintln!("harness error: no scenario for {}", args.prop);
        std::process::exit(2);
    };
    // Every mode runs under the getrandom shim (replay and --one included), so that hash
    // seeds and thread_rng are a function of the case: re-exec once with LD_PRELOAD set.
    if !kit::runner::shim_loaded() && std::env::var("VERIF_REEXEC").is_err() {
        let shim = format!("{}/target/libdetrand.so", kit::runner::verif_dir());
        if std::path::Path::new(&shim).exists() {
            use std::os::unix::process::CommandExt;
            let err = std::process::Command::new(std::env::current_exe().expect("exe"))
                .args(&argv[1..])
                .env("LD_PRELOAD", shim)
                .env("VERIF_HASH_SEED", "1")
                .env("RAYON_NUM_THREADS", "1")
                .env("VERIF_REEXEC", "1")
                .exec();
            eprintln!("harness error: re-exec under the shim failed: {err}");
            std::process::exit(2);
        }
    }
    let code = kit::runner::main_for(sc.as_ref(), &args);
    std::process::exit(code);
}
