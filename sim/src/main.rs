//! simrun — deterministic simulation with fault injection for samyama-graph.
//! See /verif/DESIGN.md.
mod kit;
mod scen;

fn main() {
    let argv: Vec<String> = std::env::args().collect();
    let args = match kit::runner::parse_args(&argv) {
        Ok(a) => a,
        Err(e) => {
            eprintln!("harness error: {e}");
            std::process::exit(2);
        }
    };
    let reg = scen::registry();
    let Some(sc) = reg.iter().find(|s| s.id() == args.prop) else {
        eprintln!("harness error: no scenario for {}", args.prop);
        std::process::exit(2);
    };
    let code = kit::runner::main_for(sc.as_ref(), &args);
    std::process::exit(code);
}
