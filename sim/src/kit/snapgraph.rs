//! Shared by C12 / C13 (snapshot export/import): build a `GraphStore` from a JSON event
//! history (Cypher writes, full API, stub API, maintenance, version bumps, hierarchy
//! declarations), canonicalise an exported snapshot so its bytes do not depend on the
//! wall clock or on `HashMap` order, and classify the differences between an original and
//! an imported store into signatures `(<what kind of thing>, <what changed>)`.

use super::model::{gen_boundary_value, jf, pv_canon, pv_from_json, u};
use super::rng::Rng;
use samyama::graph::{EdgeId, EdgeType, GraphStore, IsolationLevel, Label, NodeId, PropertyMap, PropertyValue};
use samyama::index::hierarchy::{HierarchyIndexManager, HierarchySpec, RollupOp};
use samyama::query::QueryEngine;
use serde_json::{json, Value};
use std::collections::{BTreeMap, BTreeSet};
use std::io::{Read, Write};

/// first three are usable in generated Cypher text, the others only through the API
pub const LABELS: [&str; 5] = ["A", "B", "C", "Lab D", "Ж"];
pub const TYPES: [&str; 3] = ["T", "U", "IS_A"];
pub const KEYS: [&str; 4] = ["p", "q", "t", "name"];
pub const HNAMES: [&str; 2] = ["h1", "h2"];
pub const ID_KEY: &str = "_id";

/// Odd-but-legal names.  `GraphStore`'s API takes any string as a label, a relationship
/// type, a property key or a hierarchy index name; Cypher text cannot spell these, so they
/// are reachable only through the store API (the builder falls back to it).  Each list
/// holds: the empty string, whitespace-only, a plain name with leading / trailing
/// whitespace or in the other case (a reader that trims or folds would merge it with its
/// plain neighbour), quotes, backslash, the JSON-significant characters (`{ } [ ] , :`, a
/// whole record discriminator, a line break — the format is JSON *lines*), a JSON literal,
/// non-BMP and combining unicode, and (keys) the names of the format's own fields.
/// An event refers to a name by index into `plain ++ odd` (`label_at` ...), so indices
/// below the length of the plain list mean what they always meant.
pub const ODD_LABELS: [&str; 14] = ["", " ", "A ", " B", "a", "\t\n", "q\"uo'te", "back\\slash", "{\"t\":\"e\"}", "[x,y]:z", "null", "日本𝄞", "e\u{301}", "line\nbreak"];
pub const ODD_TYPES: [&str; 11] = ["", " ", "T ", " U", "t", "ty\"pe'", "b\\s", "{\"t\":\"n\"}", "[a,b]:c", "тип𝄞", "x\ny"];
pub const ODD_KEYS: [&str; 14] = ["", " ", "p ", " q", "P", "k\"q'", "b\\s", "{\"t\":\"h\"}", "[a.b,c]:d", "ключ𝄞", "x\ny", "__type", "props", "labels"];
pub const ODD_HNAMES: [&str; 5] = ["", " h1", "h\"q'", "{\"t\":\"n\"}", "索引𝄞"];

fn at(plain: &[&'static str], odd: &[&'static str], i: u64) -> &'static str {
    let i = (i as usize) % (plain.len() + odd.len());
    if i < plain.len() {
        plain[i]
    } else {
        odd[i - plain.len()]
    }
}
pub fn label_at(i: u64) -> &'static str {
    at(&LABELS, &ODD_LABELS, i)
}
pub fn type_at(i: u64) -> &'static str {
    at(&TYPES, &ODD_TYPES, i)
}
pub fn key_at(i: u64) -> &'static str {
    at(&KEYS, &ODD_KEYS, i)
}
pub fn hname_at(i: u64) -> &'static str {
    at(&HNAMES, &ODD_HNAMES, i)
}
fn plain_ident(s: &str) -> bool {
    !s.is_empty() && s.chars().all(|c| c.is_ascii_alphanumeric() || c == '_')
}

// ---------------------------------------------------------------------------------
// generation

#[derive(Clone, Debug)]
pub struct GenCfg {
    pub max_ops: usize,
    /// boundary values (whitespace strings, NaN, ...) or only values expected to survive
    pub boundary: bool,
    pub unlabelled: bool,
    pub commits: bool,
    pub cypher: bool,
    pub deletes: bool,
    pub hier: bool,
    /// allow the property `t` to hold "n" / "e" / "h" (the record-type tokens of the format)
    pub type_tokens: bool,
}

fn safe_scalar(r: &mut Rng) -> Value {
    let strings = ["a", "a b", "tab\there", "line\nbreak", "ünï", "日本", "𝄞", "'q'", "\"dq\"", "\\bs", "null", "0", "k1", "x"];
    match r.below(8) {
        0 => {
            let x = [0i64, 1, -1, i64::MAX, i64::MIN, 1 << 53, (1 << 53) + 1][r.usize_below(7)];
            json!({ "i": x })
        }
        1 => json!({"i": r.range(-5, 5)}),
        2 | 3 => json!({"s": strings[r.usize_below(strings.len())]}),
        4 => jf([0.0, -0.0, 1.0, 1.5, f64::MAX, f64::MIN_POSITIVE, 1e300, -1e-300, 0.1][r.usize_below(9)]),
        5 => json!({"b": r.chance(1, 2)}),
        6 => {
            let x = [0i64, 1, -1, 1_700_000_000_000, i64::MAX][r.usize_below(5)];
            json!({ "t": x })
        }
        _ => json!({"d": [r.range(-2, 14), r.range(-40, 40), r.range(-100000, 100000), r.range(0, 999_999_999)]}),
    }
}

/// Values expected to round-trip (no leading/trailing whitespace, no non-finite floats).
pub fn gen_safe_value(r: &mut Rng, depth: u32) -> Value {
    if depth > 0 {
        return safe_scalar(r);
    }
    match r.below(12) {
        0..=7 => safe_scalar(r),
        8 => json!({"v": (0..r.below(4)).map(|_| ([0.0f32, 1.0, -1.5, f32::MAX][r.usize_below(4)]).to_bits()).collect::<Vec<_>>()}),
        9 | 10 => json!({"a": (0..r.below(4)).map(|_| gen_safe_value(r, 1)).collect::<Vec<_>>()}),
        _ => {
            let mut m = serde_json::Map::new();
            for _ in 0..r.below(3) {
                m.insert(["", "k", "k k", "ключ"][r.usize_below(4)].to_string(), gen_safe_value(r, 1));
            }
            json!({ "m": m })
        }
    }
}

fn gen_props(r: &mut Rng, cfg: &GenCfg, max: u64) -> Value {
    let mut m = serde_json::Map::new();
    for _ in 0..r.below(max + 1) {
        let k = KEYS[r.usize_below(KEYS.len())];
        let v = if k == "t" && cfg.type_tokens && r.chance(1, 2) {
            let tok = ["n", "e", "h"][r.usize_below(3)];
            json!({ "s": tok })
        } else if cfg.boundary {
            gen_boundary_value(r, 0)
        } else {
            gen_safe_value(r, 0)
        };
        m.insert(k.to_string(), v);
    }
    Value::Object(m)
}

fn gen_via(r: &mut Rng, cfg: &GenCfg) -> &'static str {
    match r.below(if cfg.cypher { 4 } else { 3 }) {
        0 | 1 => "api",
        2 => "stub",
        _ => "cypher",
    }
}

pub fn gen_node(r: &mut Rng, cfg: &GenCfg) -> Value {
    let nl = match r.below(8) {
        0 if cfg.unlabelled => 0,
        0..=5 => 1,
        6 => 2,
        _ => 3,
    };
    let mut labels: Vec<u64> = Vec::new();
    while labels.len() < nl {
        // bias to the plain labels so the Cypher route is usable
        let l = if r.chance(3, 4) { r.below(3) } else { r.below(LABELS.len() as u64) };
        if !labels.contains(&l) {
            labels.push(l);
        }
    }
    json!({"op":"node","via":gen_via(r, cfg),"labels":labels,"props":gen_props(r, cfg, 3)})
}

pub fn gen_edge(r: &mut Rng, cfg: &GenCfg) -> Value {
    let via = gen_via(r, cfg);
    let props = if via == "stub" { json!({}) } else { gen_props(r, cfg, 2) };
    json!({"op":"edge","via":via,"s":r.below(64),"t":r.below(64),"type":r.below(TYPES.len() as u64),"props":props})
}

pub fn gen_history(r: &mut Rng, cfg: &GenCfg) -> Vec<Value> {
    let n = r.short_len(2, cfg.max_ops);
    let mut out = Vec::new();
    for _ in 0..r.range(1, 3) {
        out.push(gen_node(r, cfg));
    }
    let w: [u32; 10] = [
        18,
        24,
        12,
        3,
        if cfg.deletes { 2 } else { 0 },
        if cfg.deletes { 3 } else { 0 },
        4,
        2,
        if cfg.commits { 5 } else { 0 },
        if cfg.hier { 3 } else { 0 },
    ];
    for _ in 0..n {
        let ev = match r.weighted(&w) {
            0 => gen_node(r, cfg),
            1 => gen_edge(r, cfg),
            2 => {
                let k = r.below(KEYS.len() as u64);
                let via = ["api", "api", "col", if cfg.cypher { "cypher" } else { "api" }][r.usize_below(4)];
                let v = if cfg.boundary { gen_boundary_value(r, 0) } else { gen_safe_value(r, 0) };
                json!({"op":"set","via":via,"n":r.below(64),"key":k,"val":v})
            }
            3 => json!({"op":"add_label","n":r.below(64),"label":r.below(LABELS.len() as u64)}),
            4 => json!({"op":"del_node","n":r.below(64)}),
            5 => json!({"op":"del_edge","e":r.below(64)}),
            6 => json!({"op":"compact"}),
            7 => json!({"op":"finish_bulk_load"}),
            8 => json!({"op":"commit"}),
            _ => {
                let nt = 1 + r.below(2);
                let mut types: Vec<u64> = Vec::new();
                while (types.len() as u64) < nt {
                    let t = r.below(TYPES.len() as u64);
                    if !types.contains(&t) {
                        types.push(t);
                    }
                }
                let measure = if r.chance(1, 2) {
                    let label = if r.chance(1, 3) { json!(r.below(3)) } else { Value::Null };
                    let mut ops: Vec<&str> = Vec::new();
                    for o in ["sum", "count", "min", "max"] {
                        if r.chance(1, 2) {
                            ops.push(o);
                        }
                    }
                    if ops.is_empty() {
                        ops.push("max");
                    }
                    json!({"label":label,"prop":r.below(KEYS.len() as u64),"ops":ops})
                } else {
                    Value::Null
                };
                json!({"op":"hier","name":r.below(2),"types":types,"reverse":r.chance(1, 3),"measure":measure})
            }
        };
        out.push(ev);
    }
    out
}

/// Events of a "large graph" size class: a few more nodes (optionally a bulk of them), one
/// bulk creation of more than `64 * words` relationships (so relationship ids cross that
/// many 64-id boundaries) and a bulk deletion among the relationships that exist when it
/// runs (ids are not reused unless something is created afterwards, so the id space of the
/// survivors has gaps and can be sparser than one id per live relationship).
/// Returns (events to put right after the first node, the bulk deletion to put at or after
/// them).  Everything an event does is a function of the event's own numbers.
pub fn gen_bulk(r: &mut Rng, words: u64) -> (Vec<Value>, Value) {
    let mut out = Vec::new();
    if r.chance(1, 2) {
        out.push(json!({"op":"bulk_nodes","count":r.range(3, 8)}));
    } else {
        // node ids cross a 64-id boundary as well
        out.push(json!({"op":"bulk_nodes","count":r.range(60, 140)}));
    }
    let extra = r.below(13);
    let via = ["api", "stub", "mix", "mix"][r.usize_below(4)];
    out.push(json!({"op":"bulk_edges","count":64 * words + extra,"via":via,"seed":r.below(1 << 24)}));
    // deletions: mostly a few (around the number of ids past the boundary), sometimes many
    let dels = if r.chance(1, 5) { r.range(20, 70) as u64 } else { 1 + r.below(16) };
    let stride = [1u64, 1, 2, 7][r.usize_below(4)];
    let del = json!({"op":"bulk_del_edges","from":r.below(256),"count":dels,"stride":stride});
    (out, del)
}

fn odd_index(r: &mut Rng, plain: usize, odd: usize) -> u64 {
    // the empty string is the classic boundary name: one pick in four
    if r.chance(1, 4) {
        plain as u64
    } else {
        (plain + r.usize_below(odd)) as u64
    }
}

/// Overlay of odd-but-legal names (`ODD_*`) on a generated history: about one name slot in
/// `density` (drawn per run: 2 / 3 / 5) — a label of a node creation or label addition, a
/// relationship type, a property key of a creation or a property write, the edge types /
/// measure label / measure property / name of a hierarchy declaration — is replaced by an
/// odd string, and now and then an odd label is added next to the labels a node creation
/// already has.  So odd names occur alone and next to ordinary ones, on every route that
/// can carry them (a Cypher-route event whose names Cypher cannot spell is executed
/// through the store API by the builder).  Bulk events keep their plain names.
pub fn gen_odd_names(r: &mut Rng, events: &mut [Value]) {
    let density = [2u64, 3, 5][r.usize_below(3)];
    let odd_key = |r: &mut Rng| ODD_KEYS[(odd_index(r, KEYS.len(), ODD_KEYS.len()) as usize) - KEYS.len()];
    let rename_props = |r: &mut Rng, ev: &mut Value| {
        let Some(p) = ev.get_mut("props").and_then(|x| x.as_object_mut()) else { return };
        let keys: Vec<String> = p.keys().cloned().collect();
        for k in keys {
            if r.chance(1, density) {
                let nk = odd_key(r);
                if !p.contains_key(nk) {
                    if let Some(v) = p.remove(&k) {
                        p.insert(nk.to_string(), v);
                    }
                }
            }
        }
    };
    for ev in events.iter_mut() {
        let kind = ev.get("op").and_then(|x| x.as_str()).unwrap_or("").to_string();
        match kind.as_str() {
            "node" => {
                let mut ls: Vec<u64> = ev["labels"].as_array().map(|a| a.iter().map(|x| x.as_u64().unwrap_or(0)).collect()).unwrap_or_default();
                for i in 0..ls.len() {
                    if r.chance(1, density) {
                        let l = odd_index(r, LABELS.len(), ODD_LABELS.len());
                        if !ls.contains(&l) {
                            ls[i] = l;
                        }
                    }
                }
                if !ls.is_empty() && ls.len() < 4 && r.chance(1, 2 * density) {
                    let l = odd_index(r, LABELS.len(), ODD_LABELS.len());
                    if !ls.contains(&l) {
                        ls.push(l);
                    }
                }
                ev["labels"] = json!(ls);
                rename_props(r, ev);
            }
            "edge" => {
                if r.chance(1, density) {
                    ev["type"] = json!(odd_index(r, TYPES.len(), ODD_TYPES.len()));
                }
                rename_props(r, ev);
            }
            "set" => {
                if r.chance(1, density) {
                    ev["key"] = json!(odd_index(r, KEYS.len(), ODD_KEYS.len()));
                }
            }
            "add_label" => {
                if r.chance(1, density) {
                    ev["label"] = json!(odd_index(r, LABELS.len(), ODD_LABELS.len()));
                }
            }
            "hier" => {
                let mut ts: Vec<u64> = ev["types"].as_array().map(|a| a.iter().map(|x| x.as_u64().unwrap_or(0)).collect()).unwrap_or_default();
                for i in 0..ts.len() {
                    if r.chance(1, density) {
                        let t = odd_index(r, TYPES.len(), ODD_TYPES.len());
                        if !ts.contains(&t) {
                            ts[i] = t;
                        }
                    }
                }
                ev["types"] = json!(ts);
                if r.chance(1, density) {
                    ev["name"] = json!(odd_index(r, HNAMES.len(), ODD_HNAMES.len()));
                }
                if ev["measure"].is_object() {
                    if !ev["measure"]["label"].is_null() && r.chance(1, density) {
                        ev["measure"]["label"] = json!(odd_index(r, LABELS.len(), ODD_LABELS.len()));
                    }
                    if r.chance(1, density) {
                        ev["measure"]["prop"] = json!(odd_index(r, KEYS.len(), ODD_KEYS.len()));
                    }
                }
            }
            _ => {}
        }
    }
}

/// Odd-but-legal keys *inside* a value: now and then (about one property value in 12) a
/// value of a creation or a property write is replaced by a map whose keys are the names
/// the format itself uses to tag non-JSON types (`__type`, `value`, `months`, ...).  Such a
/// map is an ordinary `PropertyValue::Map` (e.g. `{__type: 'DateTime', value: 5}`); the last two shapes are controls that no reader
/// should mistake for a tag.
pub fn gen_tag_lookalikes(r: &mut Rng, events: &mut [Value]) {
    fn lookalike(r: &mut Rng) -> Value {
        match r.below(6) {
            0 => json!({"m": {"__type": {"s": "DateTime"}, "value": {"i": r.range(-3, 3)}}}),
            1 => json!({"m": {"__type": {"s": "Vector"}, "value": {"a": [jf(1.5), jf(0.0)]}}}),
            2 => json!({"m": {"__type": {"s": "Duration"}, "months": {"i": 1}, "days": {"i": r.range(0, 3)}, "seconds": {"i": 0}, "nanos": {"i": 0}}}),
            3 => json!({"m": {"__type": {"s": "Duration"}}}),
            4 => json!({"m": {"__type": {"s": "Map"}, "value": {"i": 1}}}),
            _ => json!({"m": {"__type": {"i": 1}, "value": {"s": "DateTime"}}}),
        }
    }
    for ev in events.iter_mut() {
        let kind = ev.get("op").and_then(|x| x.as_str()).unwrap_or("").to_string();
        match kind.as_str() {
            "node" | "edge" => {
                if let Some(p) = ev.get_mut("props").and_then(|x| x.as_object_mut()) {
                    for (_, v) in p.iter_mut() {
                        if r.chance(1, 12) {
                            *v = lookalike(r);
                        }
                    }
                }
            }
            "set" => {
                if r.chance(1, 12) {
                    ev["val"] = lookalike(r);
                }
            }
            _ => {}
        }
    }
}

/// Simpler variants of one builder event, for the shrinker.
pub fn shrink_builder_event(ev: &Value) -> Vec<Value> {
    let mut out = Vec::new();
    let kind = ev.get("op").and_then(|x| x.as_str()).unwrap_or("");
    match kind {
        "node" | "edge" => {
            if ev["via"] != json!("api") {
                let mut e = ev.clone();
                e["via"] = json!("api");
                out.push(e);
            }
            if let Some(p) = ev["props"].as_object() {
                for k in p.keys() {
                    let mut e = ev.clone();
                    e["props"].as_object_mut().unwrap().remove(k);
                    out.push(e);
                }
            }
            if kind == "edge" && u(ev, "type") != 0 {
                let mut e = ev.clone();
                e["type"] = json!(0);
                out.push(e);
            }
            if kind == "node" {
                if let Some(ls) = ev["labels"].as_array() {
                    if ls.len() > 1 {
                        let mut e = ev.clone();
                        e["labels"] = json!([ls[0].clone()]);
                        out.push(e);
                        // each label on its own, and each label dropped
                        for i in 1..ls.len() {
                            let mut e = ev.clone();
                            e["labels"] = json!([ls[i].clone()]);
                            out.push(e);
                        }
                        if ls.len() > 2 {
                            for i in 0..ls.len() {
                                let mut rest = ls.clone();
                                rest.remove(i);
                                let mut e = ev.clone();
                                e["labels"] = json!(rest);
                                out.push(e);
                            }
                        }
                    }
                    if ls.len() != 1 || ls[0] != json!(0) {
                        let mut e = ev.clone();
                        e["labels"] = json!([0]);
                        out.push(e);
                    }
                }
            }
        }
        "set" => {
            if ev["via"] != json!("api") {
                let mut e = ev.clone();
                e["via"] = json!("api");
                out.push(e);
            }
            if ev["val"] != json!({"i":1}) {
                let mut e = ev.clone();
                e["val"] = json!({"i":1});
                out.push(e);
            }
            if u(ev, "key") != 0 {
                let mut e = ev.clone();
                e["key"] = json!(0);
                out.push(e);
            }
        }
        "add_label" => {
            if u(ev, "label") != 0 {
                let mut e = ev.clone();
                e["label"] = json!(0);
                out.push(e);
            }
        }
        "finish_bulk_load" => out.push(json!({"op":"compact"})),
        "bulk_nodes" | "bulk_edges" | "bulk_del_edges" => {
            let c = u(ev, "count");
            for smaller in [c / 2, c.saturating_sub(8), c.saturating_sub(1)] {
                if smaller < c && smaller > 0 {
                    let mut e = ev.clone();
                    e["count"] = json!(smaller);
                    out.push(e);
                }
            }
            if kind == "bulk_edges" && ev["via"] != json!("api") {
                let mut e = ev.clone();
                e["via"] = json!("api");
                out.push(e);
            }
            if kind == "bulk_del_edges" {
                if u(ev, "stride") > 1 {
                    let mut e = ev.clone();
                    e["stride"] = json!(1);
                    out.push(e);
                }
                if u(ev, "from") > 0 {
                    let mut e = ev.clone();
                    e["from"] = json!(0);
                    out.push(e);
                }
            }
        }
        "hier" => {
            if !ev["measure"].is_null() {
                let mut e = ev.clone();
                e["measure"] = Value::Null;
                out.push(e);
            }
            if ev["reverse"] == json!(true) {
                let mut e = ev.clone();
                e["reverse"] = json!(false);
                out.push(e);
            }
            if u(ev, "name") >= HNAMES.len() as u64 {
                let mut e = ev.clone();
                e["name"] = json!(0);
                out.push(e);
            }
        }
        _ => {}
    }
    out
}

// ---------------------------------------------------------------------------------
// building

/// Cypher literal for a trace-encoded value, when the plain grammar can express it.
fn cy_lit(v: &Value) -> Option<String> {
    let o = v.as_object()?;
    if let Some(x) = o.get("i") {
        let i = x.as_i64()?;
        if i.unsigned_abs() < (1u64 << 62) {
            return Some(format!("{i}"));
        }
        return None;
    }
    if let Some(x) = o.get("s") {
        let s = x.as_str()?;
        let mut out = String::from("'");
        for c in s.chars() {
            if c == '\\' || c == '\'' {
                out.push('\\');
            }
            out.push(c);
        }
        out.push('\'');
        return Some(out);
    }
    if o.contains_key("f") {
        if let PropertyValue::Float(f) = pv_from_json(v) {
            if f.is_finite() && f.abs() < 1e15 && (f == 0.0 || f.abs() > 1e-6) {
                let s = format!("{f:?}");
                if s.contains('.') && !s.contains('e') {
                    return Some(s);
                }
            }
        }
        return None;
    }
    if let Some(x) = o.get("b") {
        return Some(format!("{}", x.as_bool()?));
    }
    if let Some(x) = o.get("a") {
        let parts: Option<Vec<String>> = x.as_array()?.iter().map(cy_lit).collect();
        return Some(format!("[{}]", parts?.join(", ")));
    }
    None
}

fn cy_props(props: &[(String, Value)]) -> Option<String> {
    let mut parts = Vec::new();
    for (k, v) in props {
        if !plain_ident(k) {
            return None;
        }
        parts.push(format!("{k}: {}", cy_lit(v)?));
    }
    Some(parts.join(", "))
}

pub struct Builder {
    pub g: GraphStore,
    engine: Option<QueryEngine>,
    /// live nodes in creation order: (node id, value of the `_id` property or -1)
    pub live: Vec<(u64, i64)>,
    next_key: i64,
    /// add a unique integer `_id` property to every node (needed for the Cypher route and
    /// for the difference classifier)
    pub auto_id: bool,
    /// a compaction or a version bump happened: deletions are skipped from here on (a
    /// deleted relationship of the frozen tier stays visible — C06's finding — and
    /// `delete_node` pops only the newest version of a multi-version node — C07's area)
    pub sealed: bool,
    pub counts: BTreeMap<&'static str, u64>,
}

impl Builder {
    pub fn new(auto_id: bool) -> Self {
        Builder { g: GraphStore::new(), engine: None, live: Vec::new(), next_key: 1, auto_id, sealed: false, counts: BTreeMap::new() }
    }
    fn count(&mut self, k: &'static str) {
        *self.counts.entry(k).or_insert(0) += 1;
    }
    pub fn n(&self, k: &str) -> u64 {
        self.counts.get(k).cloned().unwrap_or(0)
    }
    fn pick_node(&self, i: u64) -> Option<(u64, i64)> {
        if self.live.is_empty() {
            None
        } else {
            Some(self.live[(i as usize) % self.live.len()])
        }
    }
    fn live_ids(&self) -> BTreeSet<u64> {
        self.live.iter().map(|x| x.0).collect()
    }
    fn adopt_new_nodes(&mut self, key: i64) -> usize {
        let known = self.live_ids();
        let max_id = self.g.all_nodes().iter().map(|n| n.id.as_u64()).max().unwrap_or(0);
        let mut n = 0;
        for id in 1..=max_id {
            if !known.contains(&id) && self.g.get_node(NodeId::new(id)).is_some() {
                self.live.push((id, key));
                n += 1;
            }
        }
        n
    }

    /// Apply one event; returns false if it had nothing to act on.
    pub fn apply(&mut self, ev: &Value) -> bool {
        let kind = ev.get("op").and_then(|x| x.as_str()).unwrap_or("");
        let via = ev.get("via").and_then(|x| x.as_str()).unwrap_or("api");
        match kind {
            "node" => {
                let labels: Vec<&str> =
                    ev["labels"].as_array().map(|a| a.iter().map(|x| label_at(x.as_u64().unwrap_or(0))).collect()).unwrap_or_default();
                let mut props: Vec<(String, Value)> = ev["props"].as_object().map(|o| o.iter().map(|(k, v)| (k.clone(), v.clone())).collect()).unwrap_or_default();
                let key = if self.auto_id {
                    let k = self.next_key;
                    self.next_key += 1;
                    props.retain(|(k, _)| k != ID_KEY);
                    props.push((ID_KEY.to_string(), json!({ "i": k })));
                    k
                } else {
                    -1
                };
                let mut done = false;
                if via == "cypher" && self.auto_id && labels.iter().all(|l| LABELS[..3].contains(l)) {
                    if let Some(p) = cy_props(&props) {
                        let q = format!("CREATE (n{} {{{}}})", labels.iter().map(|l| format!(":{l}")).collect::<String>(), p);
                        match self.engine.get_or_insert_with(QueryEngine::new).execute_mut(&q, &mut self.g, "default") {
                            Ok(_) => {
                                self.count("cypher_ok");
                                done = true;
                            }
                            Err(_) => self.count("cypher_rejected"),
                        }
                        // whatever the statement did, adopt what now exists
                        if self.adopt_new_nodes(key) > 0 {
                            done = true;
                        }
                    }
                }
                if !done && via == "stub" && !labels.is_empty() {
                    let id = self.g.create_node_stub(labels[0]);
                    for l in labels.iter().skip(1) {
                        let _ = self.g.add_label_to_node("default", id, *l);
                    }
                    for (k, v) in &props {
                        self.g.set_column_property(id, k, pv_from_json(v));
                    }
                    self.live.push((id.as_u64(), key));
                    self.count("stub_node");
                    done = true;
                }
                if !done {
                    let mut pm = PropertyMap::new();
                    for (k, v) in &props {
                        pm.insert(k.clone(), pv_from_json(v));
                    }
                    let id = self.g.create_node_with_properties("default", labels.iter().map(|l| Label::new(*l)).collect(), pm);
                    self.live.push((id.as_u64(), key));
                    self.count("api_node");
                }
                if labels.is_empty() {
                    self.count("unlabelled_node");
                }
                true
            }
            "edge" => {
                let (Some(s), Some(t)) = (self.pick_node(u(ev, "s")), self.pick_node(u(ev, "t"))) else { return false };
                let ty = type_at(u(ev, "type"));
                let props: Vec<(String, Value)> = ev["props"].as_object().map(|o| o.iter().map(|(k, v)| (k.clone(), v.clone())).collect()).unwrap_or_default();
                let mut done = false;
                if via == "cypher" && self.auto_id && s.1 > 0 && t.1 > 0 && TYPES.contains(&ty) {
                    if let Some(p) = cy_props(&props) {
                        let before = self.g.edge_count();
                        let q = format!(
                            "MATCH (a {{{ID_KEY}: {}}}), (b {{{ID_KEY}: {}}}) CREATE (a)-[:{ty}{}]->(b)",
                            s.1,
                            t.1,
                            if p.is_empty() { String::new() } else { format!(" {{{p}}}") }
                        );
                        match self.engine.get_or_insert_with(QueryEngine::new).execute_mut(&q, &mut self.g, "default") {
                            Ok(_) => self.count("cypher_ok"),
                            Err(_) => self.count("cypher_rejected"),
                        }
                        if self.g.edge_count() > before {
                            done = true;
                        }
                    }
                }
                if !done && via == "stub" {
                    if self.g.create_edge_stub(NodeId::new(s.0), NodeId::new(t.0), ty).is_ok() {
                        self.count("stub_edge");
                        done = true;
                    }
                }
                if !done {
                    let mut pm = PropertyMap::new();
                    for (k, v) in &props {
                        pm.insert(k.clone(), pv_from_json(v));
                    }
                    let r = if pm.is_empty() {
                        self.g.create_edge(NodeId::new(s.0), NodeId::new(t.0), ty)
                    } else {
                        self.g.create_edge_with_properties(NodeId::new(s.0), NodeId::new(t.0), ty, pm)
                    };
                    if r.is_ok() {
                        self.count("api_edge");
                        done = true;
                    }
                }
                if done {
                    self.count("edge");
                }
                done
            }
            "set" => {
                let Some(n) = self.pick_node(u(ev, "n")) else { return false };
                let k = key_at(u(ev, "key"));
                let pv = pv_from_json(&ev["val"]);
                let nid = NodeId::new(n.0);
                let versions_before = self.g.all_nodes().iter().filter(|x| x.id == nid).count();
                let mut done = false;
                if via == "cypher" && n.1 > 0 && plain_ident(k) {
                    if let Some(l) = cy_lit(&ev["val"]) {
                        let q = format!("MATCH (n {{{ID_KEY}: {}}}) SET n.{k} = {l}", n.1);
                        match self.engine.get_or_insert_with(QueryEngine::new).execute_mut(&q, &mut self.g, "default") {
                            Ok(_) => {
                                self.count("cypher_ok");
                                done = true;
                            }
                            Err(_) => self.count("cypher_rejected"),
                        }
                    }
                }
                if !done && via == "col" {
                    let row_has = self.g.get_node(nid).map(|x| x.properties.contains_key(k)).unwrap_or(false);
                    if !row_has {
                        self.g.set_column_property(nid, k, pv.clone());
                        done = true;
                    }
                }
                if !done {
                    let _ = self.g.set_node_property("default", nid, k, pv);
                }
                let versions_after = self.g.all_nodes().iter().filter(|x| x.id == nid).count();
                if versions_after > versions_before {
                    self.count("new_node_version");
                }
                true
            }
            "add_label" => {
                let Some(n) = self.pick_node(u(ev, "n")) else { return false };
                let l = label_at(u(ev, "label"));
                let _ = self.g.add_label_to_node("default", NodeId::new(n.0), l);
                true
            }
            "del_node" => {
                if self.sealed {
                    return false;
                }
                let Some(n) = self.pick_node(u(ev, "n")) else { return false };
                if self.g.delete_node("default", NodeId::new(n.0)).is_ok() {
                    self.live.retain(|x| x.0 != n.0);
                    self.count("deleted");
                }
                true
            }
            "del_edge" => {
                if self.sealed {
                    return false;
                }
                let ids: Vec<u64> = self.g.all_edges().iter().map(|e| e.id.as_u64()).collect();
                if ids.is_empty() {
                    return false;
                }
                let e = ids[(u(ev, "e") as usize) % ids.len()];
                if self.g.delete_edge(EdgeId::new(e)).is_ok() {
                    self.count("deleted");
                }
                true
            }
            "bulk_nodes" => {
                // `count` labelled nodes through the full API (labels rotate over A/B/C)
                let count = u(ev, "count").min(400);
                for i in 0..count {
                    let mut pm = PropertyMap::new();
                    let key = if self.auto_id {
                        let k = self.next_key;
                        self.next_key += 1;
                        pm.insert(ID_KEY.to_string(), PropertyValue::Integer(k));
                        k
                    } else {
                        -1
                    };
                    let id = self.g.create_node_with_properties("default", vec![Label::new(LABELS[(i % 3) as usize])], pm);
                    self.live.push((id.as_u64(), key));
                }
                if count > 0 {
                    self.count("bulk_nodes");
                }
                count > 0
            }
            "bulk_edges" => {
                // `count` relationships between live nodes chosen by rank from the event's
                // own numbers; route per relationship: full API without / with one property,
                // or the stub API ("mix" rotates over the three)
                if self.live.is_empty() {
                    return false;
                }
                let count = u(ev, "count").min(400);
                let seed = u(ev, "seed");
                let mut made = 0;
                for i in 0..count {
                    let s = self.pick_node((seed & 0xff).wrapping_add(i.wrapping_mul(7))).unwrap();
                    let t = self.pick_node(((seed >> 8) & 0xff).wrapping_add(i.wrapping_mul(3)).wrapping_add(i / 5)).unwrap();
                    let ty = TYPES[(((seed >> 16) + i) as usize) % TYPES.len()];
                    let route = match via {
                        "stub" => 2,
                        "mix" => i % 3,
                        _ => i % 2,
                    };
                    let (sn, tn) = (NodeId::new(s.0), NodeId::new(t.0));
                    let ok = match route {
                        2 => {
                            let r = self.g.create_edge_stub(sn, tn, ty).is_ok();
                            if r {
                                self.count("stub_edge");
                            }
                            r
                        }
                        1 => {
                            let mut pm = PropertyMap::new();
                            pm.insert("p".to_string(), PropertyValue::Integer(i as i64));
                            self.g.create_edge_with_properties(sn, tn, ty, pm).is_ok()
                        }
                        _ => self.g.create_edge(sn, tn, ty).is_ok(),
                    };
                    if ok {
                        made += 1;
                        self.count("edge");
                    }
                }
                if made > 0 {
                    self.count("bulk_edges");
                }
                made > 0
            }
            "bulk_del_edges" => {
                // delete `count` of the relationships that exist now, by rank in id order:
                // from, from+stride, ... (modulo what exists)
                if self.sealed {
                    return false;
                }
                let ids: Vec<u64> = self.g.all_edges().iter().map(|e| e.id.as_u64()).collect();
                if ids.is_empty() {
                    return false;
                }
                let (from, stride) = (u(ev, "from") as usize, (u(ev, "stride") as usize).max(1));
                let count = (u(ev, "count") as usize).min(ids.len());
                let mut victims: BTreeSet<u64> = BTreeSet::new();
                for j in 0..count {
                    victims.insert(ids[(from + j * stride) % ids.len()]);
                }
                let mut n = 0;
                for e in victims {
                    if self.g.delete_edge(EdgeId::new(e)).is_ok() {
                        self.count("deleted");
                        n += 1;
                    }
                }
                if n > 0 {
                    self.count("bulk_deleted");
                }
                true
            }
            "compact" => {
                self.g.compact_adjacency();
                self.sealed = true;
                self.count("compact");
                true
            }
            "finish_bulk_load" => {
                self.g.finish_bulk_load();
                self.sealed = true;
                self.count("compact");
                true
            }
            "commit" => {
                let t = self.g.begin_transaction(IsolationLevel::SnapshotIsolation);
                let _ = self.g.commit_transaction(t);
                self.sealed = true;
                self.count("commit");
                true
            }
            "hier" => {
                let name = hname_at(u(ev, "name"));
                let types: Vec<EdgeType> = ev["types"].as_array().map(|a| a.iter().map(|x| EdgeType::new(type_at(x.as_u64().unwrap_or(0)))).collect()).unwrap_or_default();
                if types.is_empty() {
                    return false;
                }
                let mut spec = HierarchySpec::new(name, types);
                spec.reverse = ev["reverse"].as_bool().unwrap_or(false);
                if let Some(m) = ev["measure"].as_object() {
                    let label = m.get("label").and_then(|x| x.as_u64()).map(|i| Label::new(label_at(i)));
                    let prop = key_at(m.get("prop").and_then(|x| x.as_u64()).unwrap_or(0));
                    let ops: Vec<RollupOp> = m.get("ops").and_then(|x| x.as_array()).map(|a| a.iter().filter_map(|o| o.as_str().and_then(RollupOp::parse)).collect()).unwrap_or_default();
                    spec = spec.with_measure(label, prop, if ops.is_empty() { vec![RollupOp::Sum] } else { ops });
                }
                let mgr = std::sync::Arc::clone(&self.g.hierarchy_index);
                if mgr.create(&self.g, spec).is_ok() {
                    self.count("hier_declared");
                }
                true
            }
            _ => false,
        }
    }
}

// ---------------------------------------------------------------------------------
// snapshot bytes

pub fn gunzip(bytes: &[u8]) -> Result<Vec<u8>, String> {
    let mut out = Vec::new();
    flate2::read::GzDecoder::new(bytes).read_to_end(&mut out).map_err(|e| e.to_string())?;
    Ok(out)
}

pub fn gzip(bytes: &[u8], level: u32) -> Vec<u8> {
    let mut gz = flate2::write::GzEncoder::new(Vec::new(), flate2::Compression::new(level));
    gz.write_all(bytes).expect("gzip to Vec");
    gz.finish().expect("gzip finish")
}

fn write_sorted(v: &Value, out: &mut String) {
    match v {
        Value::Object(m) => {
            let mut keys: Vec<&String> = m.keys().collect();
            keys.sort();
            out.push('{');
            for (i, k) in keys.iter().enumerate() {
                if i > 0 {
                    out.push(',');
                }
                out.push_str(&serde_json::to_string(k).unwrap());
                out.push(':');
                write_sorted(&m[*k], out);
            }
            out.push('}');
        }
        Value::Array(a) => {
            out.push('[');
            for (i, x) in a.iter().enumerate() {
                if i > 0 {
                    out.push(',');
                }
                write_sorted(x, out);
            }
            out.push(']');
        }
        other => out.push_str(&serde_json::to_string(other).unwrap()),
    }
}

/// One record with its top-level fields in the order the exporter's structs declare them
/// (so `"t"` stays first and a cut line is still recognisable as a node/edge record, as in
/// a real file) and everything nested — the `props` maps — with sorted keys.
fn write_record(v: &Value, out: &mut String) {
    const ORDER: [&str; 22] = [
        "t", "format", "version", "tenant", "node_count", "edge_count", "id", "name", "src", "tgt", "type", "labels", "edge_types", "reverse", "measure_label", "measure_property", "ops", "props",
        "created_at", "samyama_version", "", "",
    ];
    let Some(m) = v.as_object() else {
        write_sorted(v, out);
        return;
    };
    let mut keys: Vec<&String> = m.keys().collect();
    keys.sort_by_key(|k| (ORDER.iter().position(|o| o == &k.as_str()).unwrap_or(ORDER.len()), (*k).clone()));
    out.push('{');
    for (i, k) in keys.iter().enumerate() {
        if i > 0 {
            out.push(',');
        }
        out.push_str(&serde_json::to_string(k).unwrap());
        out.push(':');
        write_sorted(&m[*k], out);
    }
    out.push('}');
}

/// The same snapshot with bytes that are a function of the graph only: header timestamp
/// fixed, `props` keys sorted (the exporter writes `HashMap`s), label arrays sorted (the
/// exporter iterates a `HashSet`), recompressed at a fixed level.  Every line keeps its
/// `"t":"x"` discriminator first and spelled exactly as the exporter spells it.  Returns the text
/// as well.
pub fn canonical_snapshot(raw_gz: &[u8]) -> Result<(Vec<u8>, String), String> {
    let text = String::from_utf8(gunzip(raw_gz)?).map_err(|e| e.to_string())?;
    let mut out = String::new();
    for (i, line) in text.lines().enumerate() {
        if line.is_empty() {
            continue;
        }
        let mut v: Value = serde_json::from_str(line).map_err(|e| format!("line {i}: {e}"))?;
        if i == 0 {
            if let Some(o) = v.as_object_mut() {
                o.insert("created_at".into(), json!("2026-01-01T00:00:00+00:00"));
            }
        } else if v.get("t") == Some(&json!("n")) {
            if let Some(ls) = v.get_mut("labels").and_then(|x| x.as_array_mut()) {
                ls.sort_by(|a, b| a.as_str().unwrap_or("").cmp(b.as_str().unwrap_or("")));
            }
        }
        write_record(&v, &mut out);
        out.push('\n');
    }
    Ok((gzip(out.as_bytes(), 6), out))
}

// ---------------------------------------------------------------------------------
// hierarchy declarations

pub fn spec_canon(s: &HierarchySpec) -> BTreeMap<&'static str, String> {
    let mut m = BTreeMap::new();
    let mut ts: Vec<String> = s.edge_types.iter().map(|t| t.as_str().to_string()).collect();
    ts.sort();
    m.insert("edge_types", format!("{ts:?}"));
    m.insert("reverse", format!("{}", s.reverse));
    m.insert("measure_property", format!("{:?}", s.measure.as_ref().map(|x| x.property.clone())));
    m.insert("measure_label", format!("{:?}", s.measure.as_ref().and_then(|x| x.label.as_ref().map(|l| l.as_str().to_string()))));
    let mut ops: Vec<&str> = s.ops.iter().map(|o| o.name()).collect();
    ops.sort();
    ops.dedup();
    m.insert("ops", format!("{ops:?}"));
    m
}

pub fn hier_specs(g: &GraphStore) -> BTreeMap<String, HierarchySpec> {
    let mut out = BTreeMap::new();
    for info in g.hierarchy_index.list() {
        if let Some(e) = g.hierarchy_index.get(&info.name) {
            out.insert(info.name.clone(), e.read().unwrap().spec.clone());
        }
    }
    out
}

/// Would declaring `spec` on `g` right now fail (cycle in the covering relation)?  The
/// importer documents that it then skips the declaration rather than refusing the import.
pub fn spec_unbuildable(g: &GraphStore, spec: &HierarchySpec) -> bool {
    HierarchyIndexManager::new().create(g, spec.clone()).is_err()
}

/// Differences between the declarations of two stores as (signature tail, detail).
pub fn diff_hierarchies(orig: &GraphStore, imp: &GraphStore) -> Vec<(String, String)> {
    let a = hier_specs(orig);
    let b = hier_specs(imp);
    let mut out = Vec::new();
    for (name, sa) in &a {
        match b.get(name) {
            None => {
                // documented: a declaration whose covering relation has a cycle is skipped
                // with a warning.  Judged on the imported store: that is the graph the
                // importer built the index over (stub relationships of the original are
                // not in its type index before finish_bulk_load, so the original may
                // have accepted the declaration without looking at them).
                if spec_unbuildable(imp, sa) {
                    continue;
                }
                out.push(("hierarchy/declaration_lost".to_string(), format!("hierarchy index {name} {:?} is not declared after import", spec_canon(sa))));
            }
            Some(sb) => {
                let (ca, cb) = (spec_canon(sa), spec_canon(sb));
                for (field, va) in &ca {
                    if cb.get(field) != Some(va) {
                        out.push((format!("hierarchy/{field}_changed"), format!("hierarchy index {name}: {field} was {va}, after import {}", cb.get(field).cloned().unwrap_or_default())));
                    }
                }
            }
        }
    }
    for name in b.keys() {
        if !a.contains_key(name) {
            out.push(("hierarchy/declaration_appeared".to_string(), format!("hierarchy index {name} declared only after import")));
        }
    }
    out
}

// ---------------------------------------------------------------------------------
// difference classifier

fn kind(v: &PropertyValue) -> &'static str {
    match v {
        PropertyValue::String(_) => "string",
        PropertyValue::Integer(_) => "integer",
        PropertyValue::Float(_) => "float",
        PropertyValue::Boolean(_) => "boolean",
        PropertyValue::DateTime(_) => "datetime",
        PropertyValue::Array(_) => "array",
        PropertyValue::Map(_) => "map",
        PropertyValue::Vector(_) => "vector",
        PropertyValue::Duration { .. } => "duration",
        PropertyValue::Null => "null",
    }
}

/// What changed between an original value and its imported counterpart (they differ).
fn value_change(a: &PropertyValue, b: &PropertyValue, nested: bool) -> String {
    let pre = if nested { "nested_" } else { "" };
    match (a, b) {
        (PropertyValue::String(x), PropertyValue::String(y)) => {
            if x.trim() == y {
                format!("{pre}string_trimmed")
            } else {
                format!("{pre}string_changed")
            }
        }
        (PropertyValue::Float(x), _) if !x.is_finite() => format!("{pre}float_nonfinite_became_{}", kind(b)),
        (PropertyValue::Array(xs), PropertyValue::Array(ys)) => {
            if xs.len() != ys.len() {
                return format!("{pre}array_length_changed");
            }
            for (x, y) in xs.iter().zip(ys.iter()) {
                if pv_canon(x) != pv_canon(y) {
                    return value_change(x, y, true);
                }
            }
            format!("{pre}array_changed")
        }
        (PropertyValue::Map(xm), PropertyValue::Map(ym)) => {
            let kx: BTreeSet<&String> = xm.keys().collect();
            let ky: BTreeSet<&String> = ym.keys().collect();
            if kx != ky {
                return format!("{pre}map_keys_changed");
            }
            for k in kx {
                if pv_canon(&xm[k]) != pv_canon(&ym[k]) {
                    return value_change(&xm[k], &ym[k], true);
                }
            }
            format!("{pre}map_changed")
        }
        _ if kind(a) != kind(b) => format!("{pre}{}_became_{}", kind(a), kind(b)),
        _ => format!("{pre}{}_changed", kind(a)),
    }
}

fn value_lost(a: &PropertyValue) -> String {
    match a {
        PropertyValue::Float(x) if !x.is_finite() => "float_nonfinite_lost".to_string(),
        PropertyValue::String(s) if s.is_empty() => "string_empty_lost".to_string(),
        PropertyValue::String(s) if s.trim().is_empty() => "string_whitespace_only_lost".to_string(),
        _ => format!("{}_lost", kind(a)),
    }
}

type Props = BTreeMap<String, PropertyValue>;

fn permute(xs: &mut Vec<usize>, k: usize, f: &mut dyn FnMut(&[usize])) {
    if k == xs.len() {
        f(xs);
        return;
    }
    for i in k..xs.len() {
        xs.swap(k, i);
        permute(xs, k + 1, f);
        xs.swap(k, i);
    }
}

fn nonnull(m: impl IntoIterator<Item = (String, PropertyValue)>) -> Props {
    m.into_iter().filter(|(_, v)| !v.is_null()).collect()
}

fn props_diff(a: &Props, b: &Props, area: &str, who: &str, out: &mut Vec<(String, String)>) {
    let keys: BTreeSet<&String> = a.keys().chain(b.keys()).collect();
    for k in keys {
        match (a.get(k), b.get(k)) {
            (Some(x), Some(y)) => {
                if pv_canon(x) != pv_canon(y) {
                    out.push((format!("{area}/{}", value_change(x, y, false)), format!("{who} property {k:?}: {} became {}", pv_canon(x), pv_canon(y))));
                }
            }
            (Some(x), None) => out.push((format!("{area}/{}", value_lost(x)), format!("{who} property {k:?}: {} is missing after import", pv_canon(x)))),
            (None, Some(y)) => out.push((format!("{area}/property_appeared"), format!("{who} property {k:?}: absent originally, {} after import", pv_canon(y)))),
            (None, None) => {}
        }
    }
}

fn props_canon(p: &Props) -> String {
    p.iter().map(|(k, v)| format!("{k:?}={}", pv_canon(v))).collect::<Vec<_>>().join(",")
}

struct CNode {
    id: u64,
    labels: BTreeSet<String>,
    props: Props,
}

fn cnodes(g: &GraphStore) -> Vec<CNode> {
    let max_id = g.all_nodes().iter().map(|n| n.id.as_u64()).max().unwrap_or(0);
    let mut out = Vec::new();
    for id in 1..=max_id {
        if let Some(n) = g.get_node(NodeId::new(id)) {
            out.push(CNode { id, labels: n.labels.iter().map(|l| l.as_str().to_string()).collect(), props: nonnull(g.node_properties_full(NodeId::new(id))) });
        }
    }
    out
}

fn node_diff(o: &CNode, i: &CNode, who: &str) -> Vec<(String, String)> {
    let mut out = Vec::new();
    if o.labels != i.labels {
        let only_empty: BTreeSet<String> = [String::new()].into_iter().collect();
        if o.labels.is_empty() && i.labels == only_empty {
            out.push(("label/unlabelled_node_gets_empty_label".to_string(), format!("{who}: no labels originally, labels {:?} after import", i.labels)));
        } else {
            // which way the set changed, and which kind of label went missing
            let lost: Vec<&String> = o.labels.difference(&i.labels).collect();
            let gained: Vec<&String> = i.labels.difference(&o.labels).collect();
            let class = if gained.is_empty() {
                if lost.iter().all(|l| l.is_empty()) {
                    "empty_string_label_lost"
                } else if lost.iter().all(|l| l.trim().is_empty()) {
                    "whitespace_only_label_lost"
                } else {
                    "label_lost"
                }
            } else if lost.is_empty() {
                "label_appeared"
            } else if lost.len() == gained.len() && lost.iter().all(|l| gained.iter().any(|g| g.as_str() == l.trim())) {
                "label_trimmed"
            } else {
                "label_set_changed"
            };
            out.push((format!("label/{class}"), format!("{who}: labels {:?} became {:?}", o.labels, i.labels)));
        }
    }
    props_diff(&o.props, &i.props, "value", who, &mut out);
    out
}

/// Does some node or relationship of `g` hold a map property with a `__type` key (a map
/// that looks like one of the format's tagged values)?
pub fn has_tag_lookalike(g: &GraphStore) -> bool {
    let is = |v: &PropertyValue| matches!(v, PropertyValue::Map(m) if m.contains_key("__type"));
    cnodes(g).iter().any(|n| n.props.values().any(|v| is(v))) || g.all_edges().iter().any(|e| e.properties.iter().any(|(_, v)| is(v)))
}

/// Node ids of `g` that have more than one stored version.
pub fn multi_version_ids(g: &GraphStore) -> BTreeSet<u64> {
    // A node has several stored versions when reads at different versions return chain
    // entries stamped differently (all_nodes() returns each node once since the C07 fix,
    // so the chain is probed through get_node_at_version instead).
    let mut out = BTreeSet::new();
    for n in g.all_nodes() {
        let mut stamps: BTreeSet<u64> = BTreeSet::new();
        for v in 1..=g.current_version {
            if let Some(x) = g.get_node_at_version(n.id, v) {
                stamps.insert(x.version);
            }
        }
        if stamps.len() > 1 {
            out.insert(n.id.as_u64());
        }
    }
    out
}

/// Classify every difference between the original and the imported store, matching nodes
/// on the unique `_id` property.  Returns (signature tail, detail) pairs; empty = no
/// difference found by this route.
pub fn classify(orig: &GraphStore, imp: &GraphStore) -> Vec<(String, String)> {
    let mut out: Vec<(String, String)> = Vec::new();
    let on = cnodes(orig);
    let inn = cnodes(imp);
    let mv = multi_version_ids(orig);
    let key_of = |n: &CNode| -> String { n.props.get(ID_KEY).map(pv_canon).unwrap_or_else(|| "<none>".to_string()) };
    let mut og: BTreeMap<String, Vec<&CNode>> = BTreeMap::new();
    for n in &on {
        og.entry(key_of(n)).or_default().push(n);
    }
    let mut ig: BTreeMap<String, Vec<&CNode>> = BTreeMap::new();
    for n in &inn {
        ig.entry(key_of(n)).or_default().push(n);
    }
    // imported node id -> key (for relationships)
    let ikey: BTreeMap<u64, String> = inn.iter().map(|n| (n.id, key_of(n))).collect();
    let okey: BTreeMap<u64, String> = on.iter().map(|n| (n.id, key_of(n))).collect();
    let keys: BTreeSet<&String> = og.keys().chain(ig.keys()).collect();
    for k in keys {
        let os = og.get(k).cloned().unwrap_or_default();
        let is = ig.get(k).cloned().unwrap_or_default();
        if k != "<none>" && os.len() == 1 {
            let o = os[0];
            let who = format!("node {ID_KEY}={k}");
            if is.is_empty() {
                out.push(("node/lost".to_string(), format!("{who} {:?} {} does not exist after import", o.labels, props_canon(&o.props))));
                continue;
            }
            let mut best: Option<Vec<(String, String)>> = None;
            for i in &is {
                let d = node_diff(o, i, &who);
                // ties go to the later node (of several exported versions the newest comes last)
                if best.as_ref().map(|b| d.len() <= b.len()).unwrap_or(true) {
                    best = Some(d);
                }
            }
            out.extend(best.unwrap_or_default());
            if is.len() > 1 {
                if mv.contains(&o.id) {
                    out.push(("versions/every_version_exported".to_string(), format!("{who} has several stored versions; the import created {} nodes for it", is.len())));
                } else {
                    out.push(("node/duplicated".to_string(), format!("{who} exists {} times after import", is.len())));
                }
            }
        } else {
            let mut a: Vec<String> = os.iter().map(|n| format!("{:?}{}", n.labels, props_canon(&n.props))).collect();
            let mut b: Vec<String> = is.iter().map(|n| format!("{:?}{}", n.labels, props_canon(&n.props))).collect();
            a.sort();
            b.sort();
            if a != b {
                if os.is_empty() {
                    out.push(("node/appeared".to_string(), format!("nodes with {ID_KEY}={k} exist only after import: {b:?}")));
                } else {
                    out.push(("node/unkeyed_multiset_differs".to_string(), format!("nodes with {ID_KEY}={k}: {a:?} became {b:?}")));
                }
            }
        }
    }
    // relationships grouped by (source key, type, target key)
    let group = |g: &GraphStore, keys: &BTreeMap<u64, String>| -> BTreeMap<(String, String, String), Vec<Props>> {
        let mut m: BTreeMap<(String, String, String), Vec<Props>> = BTreeMap::new();
        for e in g.all_edges() {
            let sk = keys.get(&e.source.as_u64()).cloned().unwrap_or_else(|| "<dangling>".into());
            let tk = keys.get(&e.target.as_u64()).cloned().unwrap_or_else(|| "<dangling>".into());
            m.entry((sk, e.edge_type.as_str().to_string(), tk)).or_default().push(nonnull(e.properties.iter().map(|(k, v)| (k.clone(), v.clone()))));
        }
        for v in m.values_mut() {
            v.sort_by_key(props_canon);
        }
        m
    };
    let oe = group(orig, &okey);
    let ie = group(imp, &ikey);
    let ekeys: BTreeSet<&(String, String, String)> = oe.keys().chain(ie.keys()).collect();
    for k in ekeys {
        let a = oe.get(k).cloned().unwrap_or_default();
        let b = ie.get(k).cloned().unwrap_or_default();
        let who = format!("relationship ({})-[:{}]->({})", k.0, k.1, k.2);
        if a.len() != b.len() {
            let tail = if b.is_empty() {
                "edge/lost"
            } else if a.is_empty() {
                "edge/appeared"
            } else if b.len() > a.len() && {
                // every original relationship of the group is still there, plus extra copies
                let mut rest: Vec<String> = b.iter().map(props_canon).collect();
                a.iter().all(|p| rest.iter().position(|q| *q == props_canon(p)).map(|i| rest.swap_remove(i)).is_some())
            } {
                "edge/duplicated"
            } else {
                "edge/multiplicity_changed"
            };
            out.push((tail.to_string(), format!("{who}: {} originally, {} after import", a.len(), b.len())));
            continue;
        }
        // drop exact matches, pair the rest in sorted order
        let mut rest_b: Vec<Props> = b.clone();
        let mut rest_a: Vec<Props> = Vec::new();
        for p in a {
            if let Some(pos) = rest_b.iter().position(|q| props_canon(q) == props_canon(&p)) {
                rest_b.remove(pos);
            } else {
                rest_a.push(p);
            }
        }
        // pair the rest so that the total number of property differences is smallest
        // (parallel relationships have no identity of their own); brute force, tiny groups
        let n = rest_a.len();
        let mut best: Option<(usize, Vec<usize>)> = None;
        if n <= 6 {
            let mut perm: Vec<usize> = (0..n).collect();
            permute(&mut perm, 0, &mut |pm: &[usize]| {
                let mut cost = 0;
                for (i, j) in pm.iter().enumerate() {
                    let mut tmp = Vec::new();
                    props_diff(&rest_a[i], &rest_b[*j], "value", "", &mut tmp);
                    cost += tmp.len();
                }
                if best.as_ref().map(|b| cost < b.0).unwrap_or(true) {
                    best = Some((cost, pm.to_vec()));
                }
            });
        }
        let pairing: Vec<usize> = best.map(|b| b.1).unwrap_or_else(|| (0..n).collect());
        for (i, j) in pairing.iter().enumerate() {
            props_diff(&rest_a[i], &rest_b[*j], "value", &who, &mut out);
        }
    }
    out
}

// ---------------------------------------------------------------------------------
// allocator tuning

/// Every sub-execution creates and drops a few `GraphStore`s, each of which preallocates
/// a couple of hundred KB; with glibc's defaults those allocations are served by
/// mmap/munmap and the run spends half its time in the kernel.  Keep them on the heap.
/// Affects speed only.
pub fn tune_allocator() {
    static ONCE: std::sync::Once = std::sync::Once::new();
    ONCE.call_once(|| unsafe {
        libc::mallopt(libc::M_MMAP_THRESHOLD, 32 << 20);
        libc::mallopt(libc::M_TRIM_THRESHOLD, 256 << 20);
    });
}
