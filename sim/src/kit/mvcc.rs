//! Shared pieces of the MVCC scenarios (C07, C08, C09): one event grammar for
//! store-level MVCC histories, an applier that performs an event on the real
//! `GraphStore` and on a small reference model, and the versioned read vector.
//!
//! Events (all arguments are ranks taken modulo what exists at run time):
//!   create_node {labels:[i..], props:{k:val}}        create_edge {s,t,type,props:{..}}
//!   set_prop {n,key,val}   remove_prop {n,key}       add_label {n,label}  remove_label {n,label}
//!   set_eprop {e,key,val}  remove_eprop {e,key}      delete_node {n}      delete_edge {e}
//!   bump {via:"txn"|"field"}     -- advance current_version (begin+commit of an empty txn, or the pub field)
//!   begin {iso}  txn_write {t,kind:"n"|"e",x}  txn_read {t}  txn_commit {t}  txn_abort {t}
//!   gc {w}  gc_auto
//!
//! The model keeps, per entity, its current state and the kind of the last write that
//! touched it (used only to *classify* a violation), and freezes a snapshot S[v] of all
//! entities the moment `current_version` moves past v.
//!
//! Id reuse: by default (`Model::allow_reuse == false`, C08/C09) no entity is created once
//! an id of its kind is free, so an id names one entity.  With `allow_reuse` (C07, knob)
//! creation continues after deletions; the store pops its free list, and the model files the
//! entity under the returned id as a new incarnation (`incarnation` > 0) as long as the
//! previous holder is dead -- an id that belongs to a *live* entity is an `id_collision`.

use super::model::*;
use samyama::graph::{EdgeId, GraphStore, IsolationLevel, Label, NodeId, PropertyMap};
use serde_json::Value;
use std::collections::{BTreeMap, BTreeSet};

pub const LABELS: [&str; 2] = ["A", "B"];
pub const TYPES: [&str; 2] = ["T", "U"];
pub const KEYS: [&str; 2] = ["k", "m"];

#[derive(Clone, Debug, PartialEq, Eq, PartialOrd, Ord)]
pub struct NState {
    pub labels: BTreeSet<String>,
    pub props: BTreeMap<String, String>,
}

#[derive(Clone, Debug, PartialEq, Eq, PartialOrd, Ord)]
pub struct EState {
    pub src: u64,
    pub dst: u64,
    pub ty: String,
    pub props: BTreeMap<String, String>,
}

#[derive(Clone, Debug)]
pub struct MNode {
    pub alive: bool,
    pub st: NState,
    pub created_at: u64,
    pub last_write: &'static str,
    /// versions at which this node was written (creation included)
    pub write_versions: BTreeSet<u64>,
    /// 0 = the first entity that carried this id; k = the id had been used by k earlier,
    /// deleted entities (only with `Model::allow_reuse`)
    pub incarnation: u32,
}

#[derive(Clone, Debug)]
pub struct MEdge {
    pub alive: bool,
    pub st: EState,
    pub created_at: u64,
    pub created_with_props: bool,
    pub last_write: &'static str,
    pub write_versions: BTreeSet<u64>,
    /// see `MNode::incarnation`
    pub incarnation: u32,
    /// set/remove property calls that reached this relationship (>0: it has a version log)
    pub prop_writes: u32,
    /// `prop_writes` of the deleted relationship that carried this id before (incarnation > 0)
    pub pred_prop_writes: u32,
}

#[derive(Clone, Copy, Debug, PartialEq, Eq)]
pub enum MStatus {
    Active,
    Committed,
    Aborted,
    /// aborted by a failed (conflicting) commit
    ConflictAborted,
}

#[derive(Clone, Debug)]
pub struct MTxn {
    pub id: u64,
    pub si: bool,
    pub start: u64,
    pub status: MStatus,
    pub wn: BTreeSet<u64>,
    pub we: BTreeSet<u64>,
    pub commit_version: Option<u64>,
    /// write sets as they were at the successful commit
    pub committed_wn: BTreeSet<u64>,
    pub committed_we: BTreeSet<u64>,
}

#[derive(Clone, Debug, Default)]
pub struct Snap {
    pub nodes: BTreeMap<u64, NState>,
    pub edges: BTreeMap<u64, EState>,
}

#[derive(Clone, Debug)]
pub struct Model {
    pub current: u64,
    pub nodes: BTreeMap<u64, MNode>,
    pub edges: BTreeMap<u64, MEdge>,
    /// S[v] for every v < current
    pub snaps: BTreeMap<u64, Snap>,
    pub txns: Vec<MTxn>,
    pub last_commit_version: u64,
    /// Off (default; C08, C09): no entity is created once an id of its kind is free, so an id
    /// names one entity for the whole history.  On (C07, per-run knob): creation goes on after
    /// deletions, the store hands the freed id out again, and the entity created under it is
    /// a *new incarnation* (`incarnation` > 0) that replaces the dead one in `nodes`/`edges`;
    /// the frozen snapshots keep whichever incarnation was alive when they were taken.
    pub allow_reuse: bool,
    /// the history deleted a node / relationship at some point (reuse hides it from `any_dead_*`)
    pub ever_deleted_node: bool,
    pub ever_deleted_edge: bool,
}

impl Default for Model {
    fn default() -> Self {
        Model {
            current: 1,
            nodes: BTreeMap::new(),
            edges: BTreeMap::new(),
            snaps: BTreeMap::new(),
            txns: Vec::new(),
            last_commit_version: 0,
            allow_reuse: false,
            ever_deleted_node: false,
            ever_deleted_edge: false,
        }
    }
}

impl Model {
    pub fn live_nodes(&self) -> Vec<u64> {
        self.nodes.iter().filter(|(_, n)| n.alive).map(|(i, _)| *i).collect()
    }
    pub fn live_edges(&self) -> Vec<u64> {
        self.edges.iter().filter(|(_, e)| e.alive).map(|(i, _)| *i).collect()
    }
    pub fn any_dead_node(&self) -> bool {
        self.nodes.values().any(|n| !n.alive)
    }
    pub fn any_dead_edge(&self) -> bool {
        self.edges.values().any(|e| !e.alive)
    }
    pub fn max_node(&self) -> u64 {
        self.nodes.keys().next_back().cloned().unwrap_or(0)
    }
    pub fn max_edge(&self) -> u64 {
        self.edges.keys().next_back().cloned().unwrap_or(0)
    }
    pub fn active_txns(&self) -> Vec<usize> {
        self.txns.iter().enumerate().filter(|(_, t)| t.status == MStatus::Active).map(|(i, _)| i).collect()
    }
    fn snapshot_now(&self) -> Snap {
        Snap {
            nodes: self.nodes.iter().filter(|(_, n)| n.alive).map(|(i, n)| (*i, n.st.clone())).collect(),
            edges: self.edges.iter().filter(|(_, e)| e.alive).map(|(i, e)| (*i, e.st.clone())).collect(),
        }
    }
    /// `current_version` of the store is now `to`: freeze every version passed.
    pub fn advance_to(&mut self, to: u64) {
        while self.current < to {
            let s = self.snapshot_now();
            self.snaps.insert(self.current, s);
            self.current += 1;
        }
    }
    /// Abstract first-committer-wins rule, stated over *committed transactions*:
    /// transaction `ti` may commit iff it is active and no other transaction that
    /// committed after `ti` began wrote an entity `ti` wrote.
    pub fn fcw_conflict(&self, ti: usize) -> Option<(&'static str, u64)> {
        let t = &self.txns[ti];
        for (ci, c) in self.txns.iter().enumerate() {
            if ci == ti {
                continue;
            }
            let Some(cv) = c.commit_version else { continue };
            if cv <= t.start {
                continue;
            }
            if let Some(n) = c.committed_wn.intersection(&t.wn).next() {
                return Some(("node", *n));
            }
            if let Some(e) = c.committed_we.intersection(&t.we).next() {
                return Some(("edge", *e));
            }
        }
        None
    }
}

pub fn pick(list: &[u64], i: u64) -> Option<u64> {
    if list.is_empty() {
        None
    } else {
        Some(list[(i as usize) % list.len()])
    }
}

fn props_from(v: &Value) -> (PropertyMap, BTreeMap<String, String>) {
    let mut pm = PropertyMap::new();
    let mut bm = BTreeMap::new();
    if let Some(o) = v.as_object() {
        for (k, x) in o {
            let pv = pv_from_json(x);
            if pv.is_null() {
                continue;
            }
            bm.insert(k.clone(), pv_canon(&pv));
            pm.insert(k.clone(), pv);
        }
    }
    (pm, bm)
}

#[derive(Clone, Debug)]
pub struct Limits {
    pub max_nodes: usize,
    pub max_edges: usize,
    pub max_active_txns: usize,
    pub max_txns: usize,
}

impl Default for Limits {
    fn default() -> Self {
        Limits { max_nodes: 3, max_edges: 2, max_active_txns: 3, max_txns: 6 }
    }
}

/// What an event did.
#[derive(Clone, Debug)]
pub enum Applied {
    /// nothing to act on (or excluded construct): the event is a no-op
    Skipped,
    /// performed; `desc` is the canonical (rank-resolved) description
    Done { kind: String, desc: String },
    /// the real call returned something the API contract forbids (detail)
    Refused { kind: String, what: String, detail: String },
    /// result of a commit/abort attempt, for C09's oracle
    TxnFinish { kind: String, desc: String, ti: usize, was: MStatus, expected_ok: bool, conflict: Option<(&'static str, u64)>, real_ok: bool, real_version: Option<u64>, prev_current: u64, err: String },
}

impl Applied {
    pub fn kind(&self) -> &str {
        match self {
            Applied::Skipped => "skipped",
            Applied::Done { kind, .. } | Applied::Refused { kind, .. } | Applied::TxnFinish { kind, .. } => kind,
        }
    }
    pub fn desc(&self) -> String {
        match self {
            Applied::Skipped => String::new(),
            Applied::Done { desc, .. } | Applied::TxnFinish { desc, .. } => desc.clone(),
            Applied::Refused { kind, .. } => kind.clone(),
        }
    }
}

fn rank(list: &[u64], x: u64) -> usize {
    list.iter().position(|y| *y == x).unwrap_or(0)
}

/// Perform one event on the real store and on the model.  Deterministic in
/// (event, store state, model state), so a trace prefix replayed into a fresh
/// store/model pair yields an identical fork.
pub fn apply(ev: &Value, g: &mut GraphStore, m: &mut Model, lim: &Limits) -> Applied {
    let kind = op(ev).to_string();
    let done = |desc: String| Applied::Done { kind: kind.clone(), desc };
    let refused = |what: &str, detail: String| Applied::Refused { kind: kind.clone(), what: what.to_string(), detail };
    match kind.as_str() {
        "create_node" => {
            // without `allow_reuse`: no creation once an id is free (an id names one entity)
            if (!m.allow_reuse && m.any_dead_node()) || m.live_nodes().len() >= lim.max_nodes {
                return Applied::Skipped;
            }
            let labels: Vec<String> = ev["labels"]
                .as_array()
                .map(|a| a.iter().map(|x| LABELS[(x.as_u64().unwrap_or(0) % 2) as usize].to_string()).collect::<BTreeSet<_>>().into_iter().collect())
                .unwrap_or_default();
            let (pm, bm) = props_from(&ev["props"]);
            let with_props = !pm.is_empty();
            let id = if with_props {
                g.create_node_with_properties("default", labels.iter().map(|l| Label::new(l.as_str())).collect(), pm)
            } else {
                g.create_node_with_labels(labels.iter().map(|l| Label::new(l.as_str())))
            }
            .as_u64();
            // a freed id may come back (new incarnation); the id of a live entity never
            let incarnation = match m.nodes.get(&id) {
                None => 0,
                Some(prev) if m.allow_reuse && !prev.alive => prev.incarnation + 1,
                Some(prev) if prev.alive => return refused("id_collision", format!("create_node returned id {id} which belongs to a live node")),
                Some(_) => return refused("id_collision", format!("create_node returned id {id} which already exists in the history")),
            };
            let nl = labels.len();
            m.nodes.insert(
                id,
                MNode {
                    alive: true,
                    st: NState { labels: labels.into_iter().collect(), props: bm },
                    created_at: m.current,
                    last_write: "create_node",
                    write_versions: [m.current].into_iter().collect(),
                    incarnation,
                },
            );
            done(format!("l{nl}p{}{}", with_props as u8, if incarnation > 0 { "r" } else { "" }))
        }
        "create_edge" => {
            if (!m.allow_reuse && m.any_dead_edge()) || m.live_edges().len() >= lim.max_edges {
                return Applied::Skipped;
            }
            let live = m.live_nodes();
            let (Some(sn), Some(tn)) = (pick(&live, u(ev, "s")), pick(&live, u(ev, "t"))) else { return Applied::Skipped };
            let ty = TYPES[(u(ev, "type") % 2) as usize];
            let (pm, bm) = props_from(&ev["props"]);
            let with_props = !pm.is_empty();
            let r = if with_props {
                g.create_edge_with_properties(NodeId::new(sn), NodeId::new(tn), ty, pm)
            } else {
                g.create_edge(NodeId::new(sn), NodeId::new(tn), ty)
            };
            match r {
                Ok(eid) => {
                    let e = eid.as_u64();
                    let pred_prop_writes = m.edges.get(&e).map(|p| p.prop_writes).unwrap_or(0);
                    let incarnation = match m.edges.get(&e) {
                        None => 0,
                        Some(prev) if m.allow_reuse && !prev.alive => prev.incarnation + 1,
                        Some(prev) if prev.alive => return refused("id_collision", format!("create_edge returned id {e} which belongs to a live relationship")),
                        Some(_) => return refused("id_collision", format!("create_edge returned id {e} which already exists in the history")),
                    };
                    m.edges.insert(
                        e,
                        MEdge {
                            alive: true,
                            st: EState { src: sn, dst: tn, ty: ty.to_string(), props: bm },
                            created_at: m.current,
                            created_with_props: with_props,
                            last_write: "create_edge",
                            write_versions: [m.current].into_iter().collect(),
                            incarnation,
                            prop_writes: 0,
                            pred_prop_writes,
                        },
                    );
                    done(format!("{}>{}p{}{}", rank(&live, sn), rank(&live, tn), with_props as u8, if incarnation > 0 { "r" } else { "" }))
                }
                Err(err) => refused("refused_between_live_nodes", format!("{sn}->{tn}: {err}")),
            }
        }
        "set_prop" | "remove_prop" | "add_label" | "remove_label" => {
            let live = m.live_nodes();
            let Some(n) = pick(&live, u(ev, "n")) else { return Applied::Skipped };
            let nid = NodeId::new(n);
            let cur = m.current;
            let mn = m.nodes.get_mut(&n).unwrap();
            let desc;
            match kind.as_str() {
                "set_prop" => {
                    let k = KEYS[(u(ev, "key") % 2) as usize];
                    let pv = pv_from_json(&ev["val"]);
                    if pv.is_null() {
                        return Applied::Skipped;
                    }
                    let canon = pv_canon(&pv);
                    if let Err(err) = g.set_node_property("default", nid, k, pv) {
                        return refused("refused_live_node", format!("{err}"));
                    }
                    mn.st.props.insert(k.to_string(), canon);
                    mn.last_write = "set_prop";
                    desc = format!("{}:{k}", rank(&live, n));
                }
                "remove_prop" => {
                    let k = KEYS[(u(ev, "key") % 2) as usize];
                    g.remove_node_property(nid, k);
                    mn.st.props.remove(k);
                    mn.last_write = "remove_prop";
                    desc = format!("{}:{k}", rank(&live, n));
                }
                "add_label" => {
                    let l = LABELS[(u(ev, "label") % 2) as usize];
                    if let Err(err) = g.add_label_to_node("default", nid, l) {
                        return refused("refused_live_node", format!("{err}"));
                    }
                    mn.st.labels.insert(l.to_string());
                    mn.last_write = "add_label";
                    desc = format!("{}:{l}", rank(&live, n));
                }
                _ => {
                    let l = LABELS[(u(ev, "label") % 2) as usize];
                    if let Err(err) = g.remove_label_from_node(nid, &Label::new(l)) {
                        return refused("refused_live_node", format!("{err}"));
                    }
                    mn.st.labels.remove(l);
                    mn.last_write = "remove_label";
                    desc = format!("{}:{l}", rank(&live, n));
                }
            }
            mn.write_versions.insert(cur);
            done(desc)
        }
        "set_eprop" | "remove_eprop" => {
            let live = m.live_edges();
            let Some(e) = pick(&live, u(ev, "e")) else { return Applied::Skipped };
            let k = KEYS[(u(ev, "key") % 2) as usize];
            let cur = m.current;
            let me = m.edges.get_mut(&e).unwrap();
            if kind == "set_eprop" {
                let pv = pv_from_json(&ev["val"]);
                if pv.is_null() {
                    return Applied::Skipped;
                }
                let canon = pv_canon(&pv);
                if let Err(err) = g.set_edge_property(EdgeId::new(e), k, pv) {
                    return refused("refused_live_edge", format!("{err}"));
                }
                me.st.props.insert(k.to_string(), canon);
                me.last_write = "set_eprop";
            } else {
                g.remove_edge_property(EdgeId::new(e), k);
                me.st.props.remove(k);
                me.last_write = "remove_eprop";
            }
            me.write_versions.insert(cur);
            me.prop_writes += 1;
            done(format!("{}:{k}", rank(&live, e)))
        }
        "delete_node" => {
            let live = m.live_nodes();
            let Some(n) = pick(&live, u(ev, "n")) else { return Applied::Skipped };
            if let Err(err) = g.delete_node("default", NodeId::new(n)) {
                return refused("refused_live_node", format!("node {n}: {err}"));
            }
            let cur = m.current;
            m.ever_deleted_node = true;
            for (_, e) in m.edges.iter_mut() {
                if e.alive && (e.st.src == n || e.st.dst == n) {
                    m.ever_deleted_edge = true;
                    e.alive = false;
                    e.last_write = "delete_node";
                    e.write_versions.insert(cur);
                }
            }
            let mn = m.nodes.get_mut(&n).unwrap();
            mn.alive = false;
            mn.last_write = "delete_node";
            mn.write_versions.insert(cur);
            done(format!("{}", rank(&live, n)))
        }
        "delete_edge" => {
            let live = m.live_edges();
            let Some(e) = pick(&live, u(ev, "e")) else { return Applied::Skipped };
            if let Err(err) = g.delete_edge(EdgeId::new(e)) {
                return refused("refused_live_edge", format!("edge {e}: {err}"));
            }
            let cur = m.current;
            m.ever_deleted_edge = true;
            let me = m.edges.get_mut(&e).unwrap();
            me.alive = false;
            me.last_write = "delete_edge";
            me.write_versions.insert(cur);
            done(format!("{}", rank(&live, e)))
        }
        "bump" => {
            let via = s(ev, "via");
            if via == "field" {
                g.current_version += 1;
            } else {
                let t = g.begin_transaction(IsolationLevel::SnapshotIsolation);
                if let Err(err) = g.commit_transaction(t) {
                    return refused("empty_txn_commit_refused", format!("{err}"));
                }
            }
            let to = g.current_version;
            if to <= m.current {
                return refused("version_did_not_advance", format!("current_version {} after a commit at {}", to, m.current));
            }
            m.advance_to(to);
            m.last_commit_version = to;
            done(if via == "field" { "field".into() } else { "txn".into() })
        }
        "begin" => {
            if m.active_txns().len() >= lim.max_active_txns || m.txns.len() >= lim.max_txns {
                return Applied::Skipped;
            }
            let si = u(ev, "iso") % 2 == 1;
            let id = g.begin_transaction(if si { IsolationLevel::SnapshotIsolation } else { IsolationLevel::ReadCommitted });
            if m.txns.iter().any(|t| t.id == id) {
                return refused("txn_id_collision", format!("begin_transaction returned id {id} again"));
            }
            m.txns.push(MTxn {
                id,
                si,
                start: m.current,
                status: MStatus::Active,
                wn: BTreeSet::new(),
                we: BTreeSet::new(),
                commit_version: None,
                committed_wn: BTreeSet::new(),
                committed_we: BTreeSet::new(),
            });
            done(if si { "SI".into() } else { "RC".into() })
        }
        "txn_write" => {
            if m.txns.is_empty() {
                return Applied::Skipped;
            }
            let ti = (u(ev, "t") as usize) % m.txns.len();
            let is_edge = s(ev, "kind") == "e";
            let tid = m.txns[ti].id;
            let active = m.txns[ti].status == MStatus::Active;
            if is_edge {
                let live = m.live_edges();
                let Some(e) = pick(&live, u(ev, "x")) else { return Applied::Skipped };
                g.txn_write_edge(tid, EdgeId::new(e));
                if active {
                    m.txns[ti].we.insert(e);
                }
                done(format!("t{ti}e{}", rank(&live, e)))
            } else {
                let live = m.live_nodes();
                let Some(n) = pick(&live, u(ev, "x")) else { return Applied::Skipped };
                g.txn_write_node(tid, NodeId::new(n));
                if active {
                    m.txns[ti].wn.insert(n);
                }
                done(format!("t{ti}n{}", rank(&live, n)))
            }
        }
        "txn_commit" | "txn_abort" => {
            if m.txns.is_empty() {
                return Applied::Skipped;
            }
            let ti = (u(ev, "t") as usize) % m.txns.len();
            let tid = m.txns[ti].id;
            let was = m.txns[ti].status;
            let prev_current = m.current;
            let is_commit = kind == "txn_commit";
            let conflict = if is_commit && was == MStatus::Active { m.fcw_conflict(ti) } else { None };
            let expected_ok = was == MStatus::Active && conflict.is_none();
            let (real_ok, real_version, err) = if is_commit {
                match g.commit_transaction(tid) {
                    Ok(v) => (true, Some(v), String::new()),
                    Err(e) => (false, None, format!("{e}")),
                }
            } else {
                match g.abort_transaction(tid) {
                    Ok(()) => (true, None, String::new()),
                    Err(e) => (false, None, format!("{e}")),
                }
            };
            // the model follows the real store (C09 compares `real_ok` with `expected_ok`)
            if was == MStatus::Active {
                if is_commit {
                    if real_ok {
                        let t = &mut m.txns[ti];
                        t.status = MStatus::Committed;
                        t.commit_version = real_version;
                        t.committed_wn = t.wn.clone();
                        t.committed_we = t.we.clone();
                    } else {
                        m.txns[ti].status = MStatus::ConflictAborted;
                    }
                } else if real_ok {
                    m.txns[ti].status = MStatus::Aborted;
                }
            }
            let to = g.current_version;
            if to > m.current {
                m.advance_to(to);
            }
            if let Some(v) = real_version {
                m.last_commit_version = m.last_commit_version.max(v);
            }
            Applied::TxnFinish {
                kind: kind.clone(),
                desc: format!("t{ti}"),
                ti,
                was,
                expected_ok,
                conflict,
                real_ok,
                real_version,
                prev_current,
                err,
            }
        }
        "gc" => {
            let w = u(ev, "w") % (m.current + 2);
            g.gc_versions(w);
            done(format!("w{w}/{}", m.current))
        }
        "gc_auto" => {
            g.gc_auto();
            done(String::new())
        }
        _ => Applied::Skipped,
    }
}

pub fn read_node(g: &GraphStore, id: u64, v: u64) -> Option<NState> {
    g.get_node_at_version(NodeId::new(id), v).map(|n| NState {
        labels: n.labels.iter().map(|l| l.as_str().to_string()).collect(),
        props: n.properties.iter().filter(|(_, v)| !v.is_null()).map(|(k, v)| (k.clone(), pv_canon(v))).collect(),
    })
}

pub fn read_edge(g: &GraphStore, id: u64, v: u64) -> Option<EState> {
    g.get_edge_at_version(EdgeId::new(id), v).map(|e| EState {
        src: e.source.as_u64(),
        dst: e.target.as_u64(),
        ty: e.edge_type.as_str().to_string(),
        props: e.properties.iter().filter(|(_, v)| !v.is_null()).map(|(k, v)| (k.clone(), pv_canon(v))).collect(),
    })
}

pub fn node_of(n: Option<&samyama::graph::Node>) -> Option<NState> {
    n.map(|n| NState {
        labels: n.labels.iter().map(|l| l.as_str().to_string()).collect(),
        props: n.properties.iter().filter(|(_, v)| !v.is_null()).map(|(k, v)| (k.clone(), pv_canon(v))).collect(),
    })
}

pub fn edge_of(e: Option<samyama::graph::Edge>) -> Option<EState> {
    e.map(|e| EState {
        src: e.source.as_u64(),
        dst: e.target.as_u64(),
        ty: e.edge_type.as_str().to_string(),
        props: e.properties.iter().filter(|(_, v)| !v.is_null()).map(|(k, v)| (k.clone(), pv_canon(v))).collect(),
    })
}

pub fn show_n(x: &Option<NState>) -> String {
    match x {
        None => "absent".into(),
        Some(n) => format!("{:?}{:?}", n.labels, n.props),
    }
}

pub fn show_e(x: &Option<EState>) -> String {
    match x {
        None => "absent".into(),
        Some(e) => format!("{}-[{}]->{}{:?}", e.src, e.ty, e.dst, e.props),
    }
}

/// Every (entity, version) read as a flat vector of strings keyed by ("n"|"e", id, version).
/// Ids range over everything the history ever created plus one never-used id.
pub fn read_vector(g: &GraphStore, m: &Model, upto: u64) -> BTreeMap<(char, u64, u64), String> {
    let mut out = BTreeMap::new();
    for id in 1..=m.max_node() + 1 {
        for v in 0..=upto {
            out.insert(('n', id, v), show_n(&read_node(g, id, v)));
        }
    }
    for id in 1..=m.max_edge() + 1 {
        for v in 0..=upto {
            out.insert(('e', id, v), show_e(&read_edge(g, id, v)));
        }
    }
    out
}

/// Development aid: when `MVCC_TALLY` names a file, append every violation signature to it
/// (one line each) so that the full signature distribution of a batch can be inspected.
pub fn tally(o: &super::core::Outcome) {
    if let Ok(p) = std::env::var("MVCC_TALLY") {
        use std::io::Write;
        if let Ok(mut f) = std::fs::OpenOptions::new().create(true).append(true).open(p) {
            let mut text = String::new();
            for v in &o.violations {
                text.push_str(&v.signature);
                text.push('\n');
            }
            let _ = f.write_all(text.as_bytes());
        }
    }
}
