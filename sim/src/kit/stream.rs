//! Simulated byte streams: sync `SimReader` / `SimWriter` (snapshot import/export) and the
//! async `SimStream` (one RESP connection).  All behaviour is driven by a pre-drawn decision
//! list, so a case replays exactly.

use std::collections::VecDeque;
use std::io::{self, Read, Write};
use std::pin::Pin;
use std::sync::{Arc, Mutex};
use std::task::{Context, Poll, Waker};
use tokio::io::{AsyncRead, AsyncWrite, ReadBuf};

/// Cyclic list of pre-drawn numbers.
#[derive(Clone, Debug, Default)]
pub struct Decisions {
    xs: Vec<u64>,
    i: usize,
}

impl Decisions {
    pub fn new(xs: Vec<u64>) -> Self {
        Decisions { xs, i: 0 }
    }
    pub fn next(&mut self, n: u64) -> u64 {
        if self.xs.is_empty() || n == 0 {
            return 0;
        }
        let v = self.xs[self.i % self.xs.len()];
        self.i += 1;
        v % n
    }
}

#[derive(Clone, Debug, Default)]
pub struct StreamFaults {
    /// deliver at most this many bytes per call (0 = whole buffer); actual length drawn in 1..=max
    pub max_chunk: usize,
    /// 1 in n calls returns ErrorKind::Interrupted first (0 = never)
    pub interrupt_1_in: u64,
    /// fail with ErrorKind::Other once this many bytes have passed
    pub error_at: Option<usize>,
    /// end of stream (reader) after this many bytes
    pub eof_at: Option<usize>,
}

#[derive(Default, Clone, Debug)]
pub struct StreamStats {
    pub calls: u64,
    pub short: u64,
    pub interrupted: u64,
    pub errors: u64,
    pub eof_early: u64,
}

pub struct SimReader {
    data: Vec<u8>,
    pos: usize,
    f: StreamFaults,
    d: Decisions,
    pub stats: StreamStats,
    just_interrupted: bool,
}

impl SimReader {
    pub fn new(data: Vec<u8>, f: StreamFaults, d: Decisions) -> Self {
        SimReader { data, pos: 0, f, d, stats: StreamStats::default(), just_interrupted: false }
    }
    pub fn consumed(&self) -> usize {
        self.pos
    }
}

impl Read for SimReader {
    fn read(&mut self, buf: &mut [u8]) -> io::Result<usize> {
        self.stats.calls += 1;
        if buf.is_empty() {
            return Ok(0);
        }
        if self.f.interrupt_1_in > 0 && !self.just_interrupted && self.d.next(self.f.interrupt_1_in) == 0 {
            self.just_interrupted = true;
            self.stats.interrupted += 1;
            return Err(io::Error::new(io::ErrorKind::Interrupted, "simulated EINTR"));
        }
        self.just_interrupted = false;
        let mut end = self.data.len();
        if let Some(e) = self.f.eof_at {
            if e < end {
                end = e;
            }
        }
        if let Some(e) = self.f.error_at {
            if self.pos >= e.min(end) && e <= end {
                self.stats.errors += 1;
                return Err(io::Error::new(io::ErrorKind::Other, "simulated read error"));
            }
            if e < end {
                end = e;
            }
        }
        let avail = end.saturating_sub(self.pos);
        if avail == 0 {
            if end < self.data.len() {
                self.stats.eof_early += 1;
            }
            return Ok(0);
        }
        let mut n = buf.len().min(avail);
        if self.f.max_chunk > 0 {
            let lim = 1 + self.d.next(self.f.max_chunk as u64) as usize;
            if lim < n {
                n = lim;
                self.stats.short += 1;
            }
        }
        buf[..n].copy_from_slice(&self.data[self.pos..self.pos + n]);
        self.pos += n;
        Ok(n)
    }
}

pub struct SimWriter {
    pub data: Vec<u8>,
    f: StreamFaults,
    d: Decisions,
    pub stats: StreamStats,
    just_interrupted: bool,
    pub flushes: u64,
}

impl SimWriter {
    pub fn new(f: StreamFaults, d: Decisions) -> Self {
        SimWriter { data: Vec::new(), f, d, stats: StreamStats::default(), just_interrupted: false, flushes: 0 }
    }
}

impl Write for SimWriter {
    fn write(&mut self, buf: &[u8]) -> io::Result<usize> {
        self.stats.calls += 1;
        if buf.is_empty() {
            return Ok(0);
        }
        if self.f.interrupt_1_in > 0 && !self.just_interrupted && self.d.next(self.f.interrupt_1_in) == 0 {
            self.just_interrupted = true;
            self.stats.interrupted += 1;
            return Err(io::Error::new(io::ErrorKind::Interrupted, "simulated EINTR"));
        }
        self.just_interrupted = false;
        let mut n = buf.len();
        if let Some(e) = self.f.error_at {
            if self.data.len() >= e {
                self.stats.errors += 1;
                return Err(io::Error::new(io::ErrorKind::Other, "simulated write error (disk full)"));
            }
            n = n.min(e - self.data.len());
        }
        if self.f.max_chunk > 0 {
            let lim = 1 + self.d.next(self.f.max_chunk as u64) as usize;
            if lim < n {
                n = lim;
                self.stats.short += 1;
            }
        }
        self.data.extend_from_slice(&buf[..n]);
        Ok(n)
    }
    fn flush(&mut self) -> io::Result<()> {
        self.flushes += 1;
        Ok(())
    }
}

// ---------------------------------------------------------------------------------
// Async duplex connection: the harness is the client, the code under test the server.

#[derive(Default)]
pub struct Pipe {
    /// chunks on their way to the server (one chunk = one TCP delivery)
    pub inbound: VecDeque<Vec<u8>>,
    pub client_closed: bool,
    /// everything the server wrote
    pub outbound: Vec<u8>,
    pub server_shutdown: bool,
    pub read_waker: Option<Waker>,
    pub d: Decisions,
    /// 1 in n polls returns Pending (and wakes itself) before doing any work
    pub pending_1_in: u64,
    /// server writes accept at most this many bytes per poll (0 = all)
    pub max_write: usize,
    pub stats: PipeStats,
    /// fail reads with an error once the client has "reset" the connection
    pub reset: bool,
}

#[derive(Default, Clone, Debug)]
pub struct PipeStats {
    pub reads: u64,
    pub read_pending: u64,
    pub spurious_pending: u64,
    pub writes: u64,
    pub short_writes: u64,
    pub bytes_in: u64,
    pub bytes_out: u64,
}

#[derive(Clone)]
pub struct SimStream {
    pub pipe: Arc<Mutex<Pipe>>,
}

impl SimStream {
    pub fn new(d: Decisions, pending_1_in: u64, max_write: usize) -> Self {
        SimStream { pipe: Arc::new(Mutex::new(Pipe { d, pending_1_in, max_write, ..Default::default() })) }
    }
    /// Client side: deliver one chunk to the server.
    pub fn deliver(&self, bytes: Vec<u8>) {
        let mut p = self.pipe.lock().unwrap();
        p.stats.bytes_in += bytes.len() as u64;
        p.inbound.push_back(bytes);
        if let Some(w) = p.read_waker.take() {
            w.wake();
        }
    }
    pub fn close_client(&self) {
        let mut p = self.pipe.lock().unwrap();
        p.client_closed = true;
        if let Some(w) = p.read_waker.take() {
            w.wake();
        }
    }
    pub fn reset_client(&self) {
        let mut p = self.pipe.lock().unwrap();
        p.reset = true;
        if let Some(w) = p.read_waker.take() {
            w.wake();
        }
    }
    pub fn take_output(&self) -> Vec<u8> {
        std::mem::take(&mut self.pipe.lock().unwrap().outbound)
    }
    pub fn output_len(&self) -> usize {
        self.pipe.lock().unwrap().outbound.len()
    }
    pub fn stats(&self) -> PipeStats {
        self.pipe.lock().unwrap().stats.clone()
    }
    pub fn inbound_empty(&self) -> bool {
        self.pipe.lock().unwrap().inbound.is_empty()
    }
}

impl AsyncRead for SimStream {
    fn poll_read(self: Pin<&mut Self>, cx: &mut Context<'_>, buf: &mut ReadBuf<'_>) -> Poll<io::Result<()>> {
        let mut p = self.pipe.lock().unwrap();
        p.stats.reads += 1;
        if p.reset {
            return Poll::Ready(Err(io::Error::new(io::ErrorKind::ConnectionReset, "simulated connection reset")));
        }
        let n1 = p.pending_1_in;
        if n1 > 0 && p.d.next(n1) == 0 {
            p.stats.spurious_pending += 1;
            cx.waker().wake_by_ref();
            return Poll::Pending;
        }
        if let Some(mut chunk) = p.inbound.pop_front() {
            let n = chunk.len().min(buf.remaining());
            buf.put_slice(&chunk[..n]);
            if n < chunk.len() {
                let rest = chunk.split_off(n);
                p.inbound.push_front(rest);
            }
            return Poll::Ready(Ok(()));
        }
        if p.client_closed {
            return Poll::Ready(Ok(())); // EOF
        }
        p.stats.read_pending += 1;
        p.read_waker = Some(cx.waker().clone());
        Poll::Pending
    }
}

impl AsyncWrite for SimStream {
    fn poll_write(self: Pin<&mut Self>, cx: &mut Context<'_>, buf: &[u8]) -> Poll<io::Result<usize>> {
        let mut p = self.pipe.lock().unwrap();
        p.stats.writes += 1;
        let n1 = p.pending_1_in;
        if n1 > 0 && p.d.next(n1) == 0 {
            p.stats.spurious_pending += 1;
            cx.waker().wake_by_ref();
            return Poll::Pending;
        }
        let mut n = buf.len();
        if p.max_write > 0 && n > 1 {
            let mw = p.max_write as u64;
            let lim = 1 + p.d.next(mw) as usize;
            if lim < n {
                n = lim;
                p.stats.short_writes += 1;
            }
        }
        p.outbound.extend_from_slice(&buf[..n]);
        p.stats.bytes_out += n as u64;
        Poll::Ready(Ok(n))
    }
    fn poll_flush(self: Pin<&mut Self>, _cx: &mut Context<'_>) -> Poll<io::Result<()>> {
        Poll::Ready(Ok(()))
    }
    fn poll_shutdown(self: Pin<&mut Self>, _cx: &mut Context<'_>) -> Poll<io::Result<()>> {
        self.pipe.lock().unwrap().server_shutdown = true;
        Poll::Ready(Ok(()))
    }
}
