//! The simulated server "process" shared by C19 and C23.
//!
//! `src/main.rs` is a binary, so its `start_server` cannot be called.  `Server::start`
//! MIRRORS its wiring (a change to main.rs is NOT seen by the checks):
//!
//!   main.rs:427        `GraphStore::with_async_indexing()` (always, also without persistence)
//!   main.rs:463-473    persistence on  => `PersistenceManager::new(data_path)` (an open error is
//!                      printed and the server goes on without persistence)
//!   main.rs:476-503    `list_persisted_tenants()` non-empty => per tenant `recover()` then
//!                      `insert_recovered_node` for every node, `insert_recovered_edge` for every
//!                      edge (an error is only a warning); `recovered = true`
//!   main.rs:529-540    `!recovered` and a data path => `restore_persisted_snapshots(path, &mut graph)`
//!   main.rs:546-554    `Arc<RwLock<GraphStore>>`; one `TenantManager` shared by RESP and HTTP
//!                      (`pm.tenants_arc()` or a fresh one)
//!   main.rs:611-613    persistence on => `pm.start_indexer(&store, rx)`; that function
//!                      (persistence/mod.rs:115-128) does `tokio::spawn(GraphStore::start_background_indexer(
//!                      rx, store.vector_index, store.property_index, pm.tenants))` — here the same
//!                      future is a task of `kit::exec::Tasks`, polled when the scenario says so
//!   main.rs:616-629    `HttpServer::new(store, port).with_data_path(data_path).with_tenant_manager(tenants)`
//!                      (no embed pipeline: EMBED_ENABLED is unset) — `.router()` is driven with
//!                      `tower::ServiceExt::oneshot` instead of `start()`
//!   main.rs:631        `RespServer::new_with_tenants(config, store, persistence, tenants)`, which builds
//!                      `CommandHandler::new_with_tenants(persistence, tenants)` (protocol/server.rs:97-116);
//!                      the handler is driven directly with `handle_command`
//!
//! Real: CommandHandler, the axum router with all its layers, QueryEngine, GraphStore,
//! PersistenceManager (WAL files + RocksDB in the given directory), the indexer future.
//! Not present: sockets, RESP framing (C20-22), demo data, the embed pipeline.

use super::exec::{block_on, Tasks};
use samyama::graph::GraphStore;
use samyama::http::server::HttpServer;
use samyama::persistence::{PersistenceManager, TenantManager};
use samyama::protocol::command::CommandHandler;
use samyama::protocol::resp::RespValue;
use serde_json::Value;
use std::sync::Arc;
use tokio::sync::RwLock;

pub struct Server {
    pub store: Arc<RwLock<GraphStore>>,
    pub persistence: Option<Arc<PersistenceManager>>,
    pub tenants: Arc<TenantManager>,
    pub handler: CommandHandler,
    pub router: axum::Router,
    /// The background indexer (task 0) when persistence is on.
    pub tasks: Tasks<'static>,
    /// Kept alive when persistence is off (main.rs keeps `rx` until the server stops).
    _rx: Option<tokio::sync::mpsc::UnboundedReceiver<samyama::graph::event::IndexEvent>>,
    pub recovered: bool,
    pub recovery_warnings: Vec<String>,
}

impl Server {
    /// The mirrored start-up path.  `data_path = None` is `--ephemeral`.
    pub fn start(data_path: Option<&str>) -> Result<Server, String> {
        let (mut graph, rx) = GraphStore::with_async_indexing();
        let persistence = match data_path {
            Some(p) => match PersistenceManager::new(p) {
                Ok(pm) => Some(Arc::new(pm)),
                Err(e) => return Err(format!("Failed to initialize persistence: {e}")),
            },
            None => None,
        };
        let mut recovered = false;
        let mut warnings = Vec::new();
        if let Some(pm) = &persistence {
            match pm.list_persisted_tenants() {
                Ok(tenants) if !tenants.is_empty() => {
                    for tenant in &tenants {
                        match pm.recover(tenant) {
                            Ok((nodes, edges)) => {
                                for node in nodes {
                                    graph.insert_recovered_node(node);
                                }
                                for edge in edges {
                                    if let Err(e) = graph.insert_recovered_edge(edge) {
                                        warnings.push(format!("edge recovery error: {e}"));
                                    }
                                }
                                recovered = true;
                            }
                            Err(e) => warnings.push(format!("Error recovering tenant '{tenant}': {e}")),
                        }
                    }
                }
                Ok(_) => {}
                Err(e) => warnings.push(format!("Error listing persisted tenants: {e}")),
            }
        }
        if !recovered {
            if let Some(path) = data_path {
                if let Err(e) = samyama::snapshot::persist::restore_persisted_snapshots(path, &mut graph) {
                    warnings.push(format!("[snapshot-persist] Restore error: {e}"));
                }
            }
        }
        let store = Arc::new(RwLock::new(graph));
        let tenants: Arc<TenantManager> = persistence.as_ref().map(|pm| pm.tenants_arc()).unwrap_or_else(|| Arc::new(TenantManager::new()));
        let mut tasks: Tasks<'static> = Tasks::new();
        let mut keep_rx = None;
        if persistence.is_some() {
            let (vi, pi) = {
                let g = block_on(store.read());
                (Arc::clone(&g.vector_index), Arc::clone(&g.property_index))
            };
            let tm = Arc::clone(&tenants);
            tasks.spawn("indexer", async move {
                GraphStore::start_background_indexer(rx, vi, pi, tm).await;
            });
        } else {
            keep_rx = Some(rx);
        }
        let router = HttpServer::new(Arc::clone(&store), 0)
            .with_data_path(data_path.map(|s| s.to_string()))
            .with_tenant_manager(Arc::clone(&tenants))
            .router();
        let handler = CommandHandler::new_with_tenants(persistence.as_ref().map(Arc::clone), Arc::clone(&tenants));
        Ok(Server { store, persistence, tenants, handler, router, tasks, _rx: keep_rx, recovered, recovery_warnings: warnings })
    }

    /// `GRAPH.QUERY default <q>` through the real command handler.
    pub fn resp_query(&self, q: &str) -> RespValue {
        let cmd = RespValue::Array(vec![
            RespValue::BulkString(Some(b"GRAPH.QUERY".to_vec())),
            RespValue::BulkString(Some(b"default".to_vec())),
            RespValue::BulkString(Some(q.as_bytes().to_vec())),
        ]);
        block_on(self.handler.handle_command(&cmd, &self.store))
    }

    /// `POST /api/query {"query": q}` through the shipped router.  Returns (status, body).
    pub fn http_query(&self, q: &str) -> (u16, Value) {
        use axum::body::Body;
        use http_body_util::BodyExt;
        use tower::ServiceExt;
        let req = axum::http::Request::builder()
            .method("POST")
            .uri("/api/query")
            .header("content-type", "application/json")
            .body(Body::from(serde_json::json!({ "query": q }).to_string()))
            .expect("request");
        let app = self.router.clone();
        block_on(async move {
            let resp = app.oneshot(req).await.expect("router is infallible");
            let status = resp.status().as_u16();
            let bytes = resp.into_body().collect().await.expect("body").to_bytes();
            let v: Value = serde_json::from_slice(&bytes).unwrap_or_else(|_| Value::String(String::from_utf8_lossy(&bytes).to_string()));
            (status, v)
        })
    }

    /// Let the background indexer drain its queue (no-op without persistence).  Returns polls.
    pub fn run_indexer(&mut self) -> u64 {
        // the receiver is woken by every send; one poll drains everything queued
        if self.tasks.tasks.is_empty() {
            return 0;
        }
        self.tasks.poll(0);
        1
    }

    pub fn with_store<T>(&self, f: impl FnOnce(&GraphStore) -> T) -> T {
        let g = block_on(self.store.read());
        f(&g)
    }

    /// Stop the process: every owner of the PersistenceManager goes away, which closes
    /// RocksDB and releases its LOCK file.  Returns false if something still holds it.
    pub fn shutdown(self) -> bool {
        let Server { store, persistence, tenants, handler, router, tasks, _rx, .. } = self;
        drop(handler);
        drop(router);
        drop(tasks);
        drop(_rx);
        drop(store);
        drop(tenants);
        match persistence {
            Some(pm) => Arc::try_unwrap(pm).is_ok(),
            None => true,
        }
    }
}
