//! Crash points of a dry run: given the op log of a fault-free execution (`SimFs::ops()`),
//! list every position at which the simulated process can be killed — before each
//! file-system call, and inside each `write` after `p` of its `n` bytes (torn write).

use super::simfs::{CrashPoint, OpRec};
use std::collections::BTreeSet;

/// `max_enum_write`: writes of at most this many bytes get every torn offset `1..n`; longer
/// ones get `1, 2, n/2, n-2, n-1` plus `1 + s % (n-1)` for every `s` in `samples` (pre-drawn
/// numbers from the case, so the list is a pure function of the case).
pub fn crash_points(ops: &[OpRec], max_enum_write: usize, samples: &[u64]) -> Vec<CrashPoint> {
    let mut out = Vec::new();
    for (i, op) in ops.iter().enumerate() {
        out.push(CrashPoint { op: i as u64, partial: None });
        if op.kind == "write" && op.len > 1 {
            for p in torn_offsets(op.len, max_enum_write, samples) {
                out.push(CrashPoint { op: i as u64, partial: Some(p) });
            }
        }
    }
    out
}

/// Offsets `p` with `0 < p < n` at which a write of `n` bytes is torn.
pub fn torn_offsets(n: usize, max_enum: usize, samples: &[u64]) -> Vec<usize> {
    if n <= 1 {
        return vec![];
    }
    if n <= max_enum {
        return (1..n).collect();
    }
    let mut set: BTreeSet<usize> = BTreeSet::new();
    for p in [1usize, 2, n / 2, n.saturating_sub(2), n - 1] {
        if p > 0 && p < n {
            set.insert(p);
        }
    }
    for s in samples {
        set.insert(1 + (*s % (n as u64 - 1)) as usize);
    }
    set.into_iter().collect()
}

/// Human-readable description of a crash point for violation details.
pub fn describe(ops: &[OpRec], cp: &CrashPoint) -> String {
    match ops.get(cp.op as usize) {
        Some(o) => match cp.partial {
            Some(p) => format!("torn {}({}) after {p}/{} bytes [op #{}]", o.kind, o.path, o.len, cp.op),
            None => format!("before {}({}) [op #{}]", o.kind, o.path, cp.op),
        },
        None => format!("after the last op [op #{}]", cp.op),
    }
}
