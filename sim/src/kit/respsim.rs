//! Server side of the RESP simulations (C20–C22): the REAL per-connection loop
//! (`protocol::server::verif_handle_connection`) over `SimStream`s, polled one task at a time
//! by `kit::exec::Tasks`, plus the twin (`CommandHandler::handle_command` on a second store)
//! that supplies the expected reply of every request.

use super::exec::Tasks;
use super::respwire::HVal;
use super::stream::{Decisions, PipeStats, SimStream};
use samyama::graph::GraphStore;
use samyama::protocol::command::CommandHandler;
use samyama::protocol::resp::RespValue;
use std::cell::RefCell;
use std::panic::{catch_unwind, AssertUnwindSafe};
use std::rc::Rc;
use std::sync::Arc;
use tokio::sync::RwLock;

pub fn to_resp(v: &HVal) -> Option<RespValue> {
    Some(match v {
        HVal::Simple(s) => RespValue::SimpleString(String::from_utf8(s.clone()).ok()?),
        HVal::Error(s) => RespValue::Error(String::from_utf8(s.clone()).ok()?),
        HVal::Int(i) => RespValue::Integer(*i),
        HVal::Bulk(b) => RespValue::BulkString(b.clone()),
        HVal::Array(xs) => RespValue::Array(xs.iter().map(to_resp).collect::<Option<Vec<_>>>()?),
        HVal::Null => RespValue::Null,
    })
}

pub fn from_resp(v: &RespValue) -> HVal {
    match v {
        RespValue::SimpleString(s) => HVal::Simple(s.clone().into_bytes()),
        RespValue::Error(s) => HVal::Error(s.clone().into_bytes()),
        RespValue::Integer(i) => HVal::Int(*i),
        RespValue::BulkString(b) => HVal::Bulk(b.clone()),
        RespValue::Array(xs) => HVal::Array(xs.iter().map(from_resp).collect()),
        RespValue::Null => HVal::Null,
    }
}

/// Twin: the command handler on its own store, fed already-parsed frames.
pub struct Twin {
    pub store: Arc<RwLock<GraphStore>>,
    pub handler: CommandHandler,
}

impl Twin {
    pub fn new() -> Self {
        Twin { store: Arc::new(RwLock::new(GraphStore::new())), handler: CommandHandler::new(None) }
    }
    /// Reply to one request; Err = the handler panicked (message).
    pub fn reply(&self, frame: &HVal) -> Result<HVal, String> {
        let Some(rv) = to_resp(frame) else { return Err("frame not representable as RespValue (non-UTF-8 simple string)".into()) };
        let r = catch_unwind(AssertUnwindSafe(|| super::exec::block_on(self.handler.handle_command(&rv, &self.store))));
        match r {
            Ok(v) => Ok(from_resp(&v)),
            Err(_) => Err(super::runner::last_panic()),
        }
    }
}

#[derive(Clone, Debug)]
pub struct StreamCfg {
    pub pending_1_in: u64,
    pub max_write: usize,
    pub decisions: Vec<u64>,
}

impl Default for StreamCfg {
    fn default() -> Self {
        StreamCfg { pending_1_in: 0, max_write: 0, decisions: vec![1] }
    }
}

pub struct ServerSim {
    tasks: Tasks<'static>,
    pub streams: Vec<SimStream>,
    results: Vec<Rc<RefCell<Option<Result<(), String>>>>>,
    /// connection whose task panicked, with the panic message
    pub panicked: Vec<Option<String>>,
    pub store: Arc<RwLock<GraphStore>>,
    pub polls: u64,
}

impl ServerSim {
    pub fn new(cfgs: &[StreamCfg]) -> Self {
        let store = Arc::new(RwLock::new(GraphStore::new()));
        let handler = Arc::new(CommandHandler::new(None));
        let mut tasks: Tasks<'static> = Tasks::new();
        let mut streams = Vec::new();
        let mut results = Vec::new();
        for (i, c) in cfgs.iter().enumerate() {
            let s = SimStream::new(Decisions::new(c.decisions.clone()), c.pending_1_in, c.max_write);
            let cell: Rc<RefCell<Option<Result<(), String>>>> = Rc::new(RefCell::new(None));
            let (s2, st, h, cell2) = (s.clone(), store.clone(), handler.clone(), cell.clone());
            tasks.spawn(&format!("conn{i}"), async move {
                let r = samyama::protocol::server::verif_handle_connection(Box::new(s2), st, h).await;
                *cell2.borrow_mut() = Some(r.map_err(|e| e.to_string()));
            });
            streams.push(s);
            results.push(cell);
        }
        let n = cfgs.len();
        ServerSim { tasks, streams, results, panicked: vec![None; n], store, polls: 0 }
    }
    pub fn n(&self) -> usize {
        self.streams.len()
    }
    pub fn finished(&self, c: usize) -> bool {
        self.tasks.is_done(c)
    }
    /// Ok(()) / Err(text) the connection loop returned, if it returned.
    pub fn result(&self, c: usize) -> Option<Result<(), String>> {
        self.results[c].borrow().clone()
    }
    pub fn runnable(&self) -> Vec<usize> {
        self.tasks.runnable().into_iter().filter(|c| self.panicked[*c].is_none()).collect()
    }
    /// Poll connection `c` once (panics are caught and recorded; the task is never polled again).
    pub fn poll(&mut self, c: usize) {
        if self.panicked[c].is_some() || self.tasks.is_done(c) {
            return;
        }
        self.polls += 1;
        let r = catch_unwind(AssertUnwindSafe(|| self.tasks.poll(c)));
        if r.is_err() {
            self.panicked[c] = Some(super::runner::last_panic());
        }
    }
    pub fn deliver(&self, c: usize, bytes: Vec<u8>) {
        self.streams[c].deliver(bytes);
    }
    pub fn close(&self, c: usize) {
        self.streams[c].close_client();
    }
    pub fn stats(&self, c: usize) -> PipeStats {
        self.streams[c].stats()
    }
    /// Poll runnable tasks (choice by `pick`) until none is runnable; returns polls done, or
    /// None when `max_polls` was exhausted first.
    pub fn run_until_stalled(&mut self, mut pick: impl FnMut(usize) -> usize, max_polls: u64) -> Option<u64> {
        let mut n = 0;
        loop {
            let r = self.runnable();
            if r.is_empty() {
                return Some(n);
            }
            if n >= max_polls {
                return None;
            }
            let k = pick(r.len()) % r.len();
            self.poll(r[k]);
            n += 1;
        }
    }
}
