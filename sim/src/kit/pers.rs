//! Shared pieces for the scenarios that run the real `PersistenceManager` /
//! `PersistentStorage` (RocksDB real, on tmpfs): per-run scratch directory, construction
//! of `Node`/`Edge` values without reading a clock, and the canonical (timestamp-free)
//! form of what storage returns, used by the `ModelKv` oracles of C16/C17/C18.

use super::model::{pv_canon, pv_from_json};
use samyama::graph::{Edge, EdgeId, EdgeType, Label, Node, NodeId, PropertyMap};
use serde_json::Value;
use std::collections::{BTreeMap, BTreeSet};
use std::path::{Path, PathBuf};
use std::sync::atomic::{AtomicU64, Ordering};

static COUNTER: AtomicU64 = AtomicU64::new(0);

/// A directory unique to this execution under `$VERIF_SCRATCH` (tmpfs; falls back to
/// `/dev/shm/verif.solo.<pid>` for `--one` / `--replay`), removed on drop.
pub struct RunDir {
    path: PathBuf,
    solo_root: Option<PathBuf>,
}

impl RunDir {
    pub fn new(tag: &str, run_index: u64) -> RunDir {
        let (root, solo_root) = match std::env::var("VERIF_SCRATCH") {
            Ok(s) if !s.is_empty() => (PathBuf::from(s), None),
            _ => {
                let p = PathBuf::from(format!("/dev/shm/verif.solo.{}", std::process::id()));
                (p.clone(), Some(p))
            }
        };
        let n = COUNTER.fetch_add(1, Ordering::Relaxed);
        let path = root.join(format!("{tag}-r{run_index}-{n}"));
        let _ = std::fs::remove_dir_all(&path);
        std::fs::create_dir_all(&path).expect("create scratch dir");
        RunDir { path, solo_root }
    }
    pub fn path(&self) -> &Path {
        &self.path
    }
    /// A fresh sub-directory (one per sub-execution).
    pub fn sub(&self, name: &str) -> PathBuf {
        let p = self.path.join(name);
        let _ = std::fs::remove_dir_all(&p);
        std::fs::create_dir_all(&p).expect("create scratch sub dir");
        p
    }
    pub fn remove_sub(&self, name: &str) {
        let _ = std::fs::remove_dir_all(self.path.join(name));
    }
}

impl Drop for RunDir {
    fn drop(&mut self) {
        let _ = std::fs::remove_dir_all(&self.path);
        if let Some(r) = &self.solo_root {
            let _ = std::fs::remove_dir(r); // only succeeds when empty
        }
    }
}

pub fn props_from(v: &Value) -> (PropertyMap, BTreeMap<String, String>) {
    let mut pm = PropertyMap::new();
    let mut bm = BTreeMap::new();
    if let Some(o) = v.as_object() {
        for (k, x) in o {
            let pv = pv_from_json(x);
            bm.insert(k.clone(), pv_canon(&pv));
            pm.insert(k.clone(), pv);
        }
    }
    (pm, bm)
}

/// Node value with fixed timestamps (no clock read).
pub fn mk_node(id: u64, labels: &[String], props: PropertyMap) -> Node {
    Node {
        id: NodeId::new(id),
        version: 1,
        labels: labels.iter().map(|l| Label::new(l.as_str())).collect(),
        properties: props,
        created_at: 1_000,
        updated_at: 1_000,
    }
}

pub fn mk_edge(id: u64, src: u64, dst: u64, ty: &str, props: PropertyMap) -> Edge {
    Edge {
        id: EdgeId::new(id),
        version: 1,
        source: NodeId::new(src),
        target: NodeId::new(dst),
        edge_type: EdgeType::new(ty),
        properties: props,
        created_at: 1_000,
    }
}

/// Canonical node content: labels + type-exact properties; timestamps and version ignored.
#[derive(Clone, Debug, PartialEq, Eq, PartialOrd, Ord)]
pub struct CNode {
    pub labels: BTreeSet<String>,
    pub props: BTreeMap<String, String>,
}

#[derive(Clone, Debug, PartialEq, Eq, PartialOrd, Ord)]
pub struct CEdge {
    pub src: u64,
    pub dst: u64,
    pub ty: String,
    pub props: BTreeMap<String, String>,
}

pub fn canon_props(m: &PropertyMap) -> BTreeMap<String, String> {
    m.iter().map(|(k, v)| (k.clone(), pv_canon(v))).collect()
}

pub fn canon_node(n: &Node) -> CNode {
    CNode { labels: n.labels.iter().map(|l| l.as_str().to_string()).collect(), props: canon_props(&n.properties) }
}

pub fn canon_edge(e: &Edge) -> CEdge {
    CEdge { src: e.source.as_u64(), dst: e.target.as_u64(), ty: e.edge_type.as_str().to_string(), props: canon_props(&e.properties) }
}

/// What a scan / recover returned, as id -> list of contents (a list, so duplicates show).
pub fn index_nodes(ns: &[Node]) -> BTreeMap<u64, Vec<CNode>> {
    let mut m: BTreeMap<u64, Vec<CNode>> = BTreeMap::new();
    for n in ns {
        m.entry(n.id.as_u64()).or_default().push(canon_node(n));
    }
    for v in m.values_mut() {
        v.sort();
    }
    m
}

pub fn index_edges(es: &[Edge]) -> BTreeMap<u64, Vec<CEdge>> {
    let mut m: BTreeMap<u64, Vec<CEdge>> = BTreeMap::new();
    for e in es {
        m.entry(e.id.as_u64()).or_default().push(canon_edge(e));
    }
    for v in m.values_mut() {
        v.sort();
    }
    m
}

pub fn pick(list: &[u64], i: u64) -> Option<u64> {
    if list.is_empty() {
        None
    } else {
        Some(list[(i as usize) % list.len()])
    }
}
