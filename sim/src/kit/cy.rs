//! Cypher-level helpers shared by the write-statement scenarios (C04, C05, C11):
//! literals for JSON-encoded property values, one guarded entry point for running a
//! statement through `QueryEngine`, and read-only views of the secondary structures
//! (label index, edge-type index, property indexes, unique-constraint indexes) through
//! the public accessors of `GraphStore` / `IndexManager`.

use super::model::{pv_canon, pv_from_json};
use samyama::graph::{EdgeType, GraphStore, Label, PropertyValue};
use samyama::query::executor::record::RecordBatch;
use samyama::query::QueryEngine;
use serde_json::Value;
use std::collections::BTreeMap;

/// Cypher literal of a JSON-encoded property value (`{"i":1}`, `{"s":"a"}`, `{"b":true}`,
/// `{"f":"<bits>"}`, `{"n":null}`).  Strings are restricted by the generators to
/// characters that need no escaping and contain no whitespace runs (the AST cache
/// normalises whitespace — C03's subject, not ours).
pub fn lit(v: &Value) -> String {
    lit_pv(&pv_from_json(v))
}

pub fn lit_pv(p: &PropertyValue) -> String {
    match p {
        PropertyValue::Integer(i) => format!("{i}"),
        PropertyValue::String(s) => format!("'{s}'"),
        PropertyValue::Boolean(b) => format!("{b}"),
        PropertyValue::Float(f) => {
            let s = format!("{f:?}");
            if s.contains('.') || s.contains('e') { s } else { format!("{s}.0") }
        }
        PropertyValue::Null => "null".to_string(),
        PropertyValue::Array(xs) => format!("[{}]", xs.iter().map(lit_pv).collect::<Vec<_>>().join(", ")),
        other => format!("'{}'", pv_canon(other)),
    }
}

/// Outcome of one statement.
pub enum Run {
    Ok(RecordBatch),
    /// The engine returned `Err` (refusal or runtime failure).
    Err(String),
    /// The engine panicked (message from the panic hook).
    Panic(String),
}

impl Run {
    pub fn is_ok(&self) -> bool {
        matches!(self, Run::Ok(_))
    }
    pub fn is_err(&self) -> bool {
        matches!(self, Run::Err(_))
    }
    pub fn err_text(&self) -> String {
        match self {
            Run::Ok(_) => String::new(),
            Run::Err(e) => e.clone(),
            Run::Panic(p) => format!("PANIC {p}"),
        }
    }
}

/// `QueryEngine::execute_mut(query, &mut store, "default")`, panics caught.
pub fn exec_mut(eng: &QueryEngine, g: &mut GraphStore, q: &str) -> Run {
    let r = std::panic::catch_unwind(std::panic::AssertUnwindSafe(|| eng.execute_mut(q, g, "default").map_err(|e| e.to_string())));
    match r {
        Ok(Ok(b)) => Run::Ok(b),
        Ok(Err(e)) => Run::Err(e),
        Err(_) => Run::Panic(super::runner::last_panic()),
    }
}

/// `QueryEngine::execute(query, &store)` (read path), panics caught.
pub fn exec_read(eng: &QueryEngine, g: &GraphStore, q: &str) -> Run {
    let r = std::panic::catch_unwind(std::panic::AssertUnwindSafe(|| eng.execute(q, g).map_err(|e| e.to_string())));
    match r {
        Ok(Ok(b)) => Run::Ok(b),
        Ok(Err(e)) => Run::Err(e),
        Err(_) => Run::Panic(super::runner::last_panic()),
    }
}

/// Error text with digits and quoted payloads removed: a stable class name for messages.
pub fn err_class(e: &str) -> String {
    let head = e.split(':').next().unwrap_or("").trim();
    head.chars().map(|c| if c.is_ascii_alphanumeric() { c.to_ascii_lowercase() } else { '_' }).collect::<String>()
}

/// Secondary structures as plain data (what `MATCH (n:L)`, index scans and constraint
/// checks read), for "identical to the pre-state" comparisons.
#[derive(Clone, Debug, Default, PartialEq, Eq)]
pub struct Views {
    /// label -> sorted node ids from `get_nodes_by_label` / `label_node_count` / `nodes_with_label`
    pub label_index: BTreeMap<String, (Vec<u64>, usize, Vec<u64>)>,
    /// type -> sorted edge ids from `get_edges_by_type` / `edge_type_count`
    pub type_index: BTreeMap<String, (Vec<u64>, usize)>,
    /// (label, property, canonical value) -> sorted node ids in the property index;
    /// "label.property=*" -> every id the index holds (unbounded range scan)
    pub prop_index: BTreeMap<String, Vec<u64>>,
    /// (label, property, canonical value) -> the constraint index reports a holder (which one
    /// is hash-order dependent when several are recorded, so only presence is kept)
    pub constraint_index: BTreeMap<String, bool>,
    pub indexes: Vec<String>,
    pub constraints: Vec<String>,
    pub node_count: usize,
    pub edge_count: usize,
}

pub fn views(g: &GraphStore, labels: &[&str], types: &[&str], keys: &[&str], domain: &[PropertyValue]) -> Views {
    let mut v = Views::default();
    for l in labels {
        let lab = Label::new(*l);
        let mut a: Vec<u64> = g.get_nodes_by_label(&lab).iter().map(|n| n.id.as_u64()).collect();
        a.sort_unstable();
        let mut b: Vec<u64> = g.nodes_with_label(&lab).map(|s| s.iter().map(|n| n.as_u64()).collect()).unwrap_or_default();
        b.sort_unstable();
        v.label_index.insert(l.to_string(), (a, g.label_node_count(&lab), b));
    }
    for t in types {
        let et = EdgeType::new(*t);
        let mut a: Vec<u64> = g.get_edges_by_type(&et).iter().map(|e| e.id.as_u64()).collect();
        a.sort_unstable();
        v.type_index.insert(t.to_string(), (a, g.edge_type_count(&et)));
    }
    let pi = &g.property_index;
    for l in labels {
        let lab = Label::new(*l);
        for k in keys {
            if let Some(ix) = pi.get_index(&lab, k) {
                let ix = ix.read().unwrap();
                let mut all: Vec<u64> = ix
                    .range((std::ops::Bound::<PropertyValue>::Unbounded, std::ops::Bound::<PropertyValue>::Unbounded))
                    .iter()
                    .map(|n| n.as_u64())
                    .collect();
                all.sort_unstable();
                v.prop_index.insert(format!("{l}.{k}=*"), all);
                for d in domain {
                    let mut ids: Vec<u64> = ix.get(d).iter().map(|n| n.as_u64()).collect();
                    ids.sort_unstable();
                    if !ids.is_empty() {
                        v.prop_index.insert(format!("{l}.{k}={}", pv_canon(d)), ids);
                    }
                }
            }
            if pi.has_unique_constraint(&lab, k) {
                for d in domain {
                    if pi.unique_constraint_holder(&lab, k, d).is_some() {
                        v.constraint_index.insert(format!("{l}.{k}={}", pv_canon(d)), true);
                    }
                }
            }
        }
    }
    v.indexes = pi.list_indexes().iter().map(|(l, p)| format!("{}.{}", l.as_str(), p)).collect();
    v.indexes.sort();
    v.constraints = pi.list_constraints().iter().map(|(l, p)| format!("{}.{}", l.as_str(), p)).collect();
    v.constraints.sort();
    v.node_count = g.node_count();
    v.edge_count = g.edge_count();
    v
}

impl Views {
    /// Names of the views that differ between two snapshots.
    pub fn diff(&self, other: &Views) -> Vec<(&'static str, String)> {
        let mut out = Vec::new();
        if self.label_index != other.label_index {
            out.push(("label_index", format!("{:?} vs {:?}", self.label_index, other.label_index)));
        }
        if self.type_index != other.type_index {
            out.push(("type_index", format!("{:?} vs {:?}", self.type_index, other.type_index)));
        }
        if self.prop_index != other.prop_index {
            out.push(("property_index", format!("{:?} vs {:?}", self.prop_index, other.prop_index)));
        }
        if self.constraint_index != other.constraint_index {
            out.push(("constraint_index", format!("{:?} vs {:?}", self.constraint_index, other.constraint_index)));
        }
        if self.indexes != other.indexes || self.constraints != other.constraints {
            out.push(("schema", format!("{:?}/{:?} vs {:?}/{:?}", self.indexes, self.constraints, other.indexes, other.constraints)));
        }
        if self.node_count != other.node_count || self.edge_count != other.edge_count {
            out.push(("counts", format!("{}/{} vs {}/{}", self.node_count, self.edge_count, other.node_count, other.edge_count)));
        }
        out
    }
}
