//! Independent, strict RESP reader / encoder used as the oracle of C20–C22.
//!
//! Nothing here calls the code under test.  "Strict" = the wire grammar of the RESP
//! specification and nothing else:
//!   simple string  `+<line>\r\n`      line contains neither CR nor LF
//!   simple error   `-<line>\r\n`      line contains neither CR nor LF
//!   integer        `:[+-]?digits\r\n` fits i64
//!   bulk string    `$<n>\r\n<n bytes>\r\n` (n >= 0, decimal digits only) | `$-1\r\n`
//!   array          `*<n>\r\n` followed by n values (n >= 0, decimal digits only)
//!   null           `_\r\n`
//! plus the *inline command* form the server documents (a line that does not start with a
//! type byte: blank-separated words, double-quoted words with `\n \r \t \" \\` escapes).
//! Values travel through JSON traces with bytes mapped 1:1 to U+0000..U+00FF (latin-1).

use serde_json::{json, Value};

#[derive(Clone, Debug, PartialEq, Eq)]
pub enum HVal {
    Simple(Vec<u8>),
    Error(Vec<u8>),
    Int(i64),
    Bulk(Option<Vec<u8>>),
    Array(Vec<HVal>),
    Null,
}

#[derive(Clone, Debug, PartialEq, Eq)]
pub enum Parsed {
    /// one complete frame and the number of bytes it occupies
    Frame(HVal, usize),
    /// a prefix of at least one well-formed frame: more bytes are needed
    NeedMore,
    /// not a prefix of any well-formed frame
    Bad(String),
}

pub const TYPE_BYTES: &[u8] = b"+-:$*_";
const MAX_DEPTH: usize = 256;

pub fn latin1(bytes: &[u8]) -> String {
    bytes.iter().map(|b| *b as char).collect()
}

pub fn unlatin1(s: &str) -> Vec<u8> {
    s.chars().map(|c| (c as u32).min(255) as u8).collect()
}

fn find_crlf(buf: &[u8], from: usize) -> Option<usize> {
    if buf.len() < 2 {
        return None;
    }
    (from..buf.len() - 1).find(|&i| buf[i] == b'\r' && buf[i + 1] == b'\n')
}

/// A header/simple line starting at `pos` (after the type byte): Ok(Some((line, next)))
/// when terminated, Ok(None) when more bytes are needed, Err when a bare CR/LF makes the
/// line malformed whatever follows.
fn strict_line(buf: &[u8], pos: usize) -> Result<Option<(&[u8], usize)>, String> {
    let mut i = pos;
    while i < buf.len() {
        match buf[i] {
            b'\n' => return Err(format!("bare LF in line at offset {i}")),
            b'\r' => {
                if i + 1 >= buf.len() {
                    return Ok(None);
                }
                if buf[i + 1] == b'\n' {
                    return Ok(Some((&buf[pos..i], i + 2)));
                }
                return Err(format!("bare CR in line at offset {i}"));
            }
            _ => i += 1,
        }
    }
    Ok(None)
}

fn parse_len(line: &[u8], what: &str) -> Result<i64, String> {
    if line == b"-1" {
        return Ok(-1);
    }
    if line.is_empty() || !line.iter().all(|c| c.is_ascii_digit()) {
        return Err(format!("{what} length {:?} is not a decimal number", latin1(line)));
    }
    let s = std::str::from_utf8(line).unwrap();
    s.parse::<i64>().map_err(|_| format!("{what} length {s} out of range"))
}

fn parse_at(buf: &[u8], pos: usize, depth: usize) -> Result<Option<(HVal, usize)>, String> {
    if depth > MAX_DEPTH {
        return Err("nesting deeper than the reference reader supports".into());
    }
    if pos >= buf.len() {
        return Ok(None);
    }
    let t = buf[pos];
    match t {
        b'+' | b'-' => {
            let Some((line, next)) = strict_line(buf, pos + 1)? else { return Ok(None) };
            let v = if t == b'+' { HVal::Simple(line.to_vec()) } else { HVal::Error(line.to_vec()) };
            Ok(Some((v, next)))
        }
        b':' => {
            let Some((line, next)) = strict_line(buf, pos + 1)? else { return Ok(None) };
            let digits = if !line.is_empty() && (line[0] == b'+' || line[0] == b'-') { &line[1..] } else { line };
            if digits.is_empty() || !digits.iter().all(|c| c.is_ascii_digit()) {
                return Err(format!("integer {:?} malformed", latin1(line)));
            }
            let s = std::str::from_utf8(line).unwrap();
            let s = s.strip_prefix('+').unwrap_or(s);
            let i = s.parse::<i64>().map_err(|_| format!("integer {s} out of range"))?;
            Ok(Some((HVal::Int(i), next)))
        }
        b'_' => {
            let Some((line, next)) = strict_line(buf, pos + 1)? else { return Ok(None) };
            if !line.is_empty() {
                return Err("null with payload".into());
            }
            Ok(Some((HVal::Null, next)))
        }
        b'$' => {
            let Some((line, next)) = strict_line(buf, pos + 1)? else { return Ok(None) };
            let n = parse_len(line, "bulk")?;
            if n == -1 {
                return Ok(Some((HVal::Bulk(None), next)));
            }
            let n = n as usize;
            let end = next.checked_add(n).ok_or("bulk length overflows")?;
            if buf.len() < end {
                return Ok(None);
            }
            // terminator: exactly CR LF
            if buf.len() > end && buf[end] != b'\r' {
                return Err(format!("bulk payload of {n} bytes not followed by CRLF"));
            }
            if buf.len() > end + 1 && buf[end + 1] != b'\n' {
                return Err(format!("bulk payload of {n} bytes not followed by CRLF"));
            }
            if buf.len() < end + 2 {
                return Ok(None);
            }
            Ok(Some((HVal::Bulk(Some(buf[next..end].to_vec())), end + 2)))
        }
        b'*' => {
            let Some((line, mut next)) = strict_line(buf, pos + 1)? else { return Ok(None) };
            let n = parse_len(line, "array")?;
            if n < 0 {
                return Err("null array (*-1) is not in the reference subset".into());
            }
            let mut items = Vec::new();
            for _ in 0..n {
                match parse_at(buf, next, depth + 1)? {
                    Some((v, nx)) => {
                        items.push(v);
                        next = nx;
                    }
                    None => return Ok(None),
                }
            }
            Ok(Some((HVal::Array(items), next)))
        }
        _ => Err(format!("byte 0x{t:02x} is not a RESP type byte")),
    }
}

/// Strictly parse one RESP frame (no inline form) at the start of `buf`.
pub fn parse_frame(buf: &[u8]) -> Parsed {
    match parse_at(buf, 0, 0) {
        Ok(Some((v, n))) => Parsed::Frame(v, n),
        Ok(None) => Parsed::NeedMore,
        Err(e) => Parsed::Bad(e),
    }
}

/// Strictly split a reply stream into frames.  Err((frames so far, offset, reason)) when the
/// remainder is not exactly a sequence of well-formed frames (`NeedMore` counts as an error:
/// the stream is complete).
pub fn parse_all(buf: &[u8]) -> Result<Vec<HVal>, (Vec<HVal>, usize, String)> {
    let mut out = Vec::new();
    let mut pos = 0;
    while pos < buf.len() {
        match parse_frame(&buf[pos..]) {
            Parsed::Frame(v, n) => {
                out.push(v);
                pos += n;
            }
            Parsed::NeedMore => return Err((out, pos, "truncated frame at end of stream".into())),
            Parsed::Bad(e) => return Err((out, pos, e)),
        }
    }
    Ok(out)
}

/// One request as a client writes it: a RESP frame or an inline command line.
/// Returns the frame *as the server must understand it* and the bytes consumed.
pub fn parse_request(buf: &[u8]) -> Parsed {
    if buf.is_empty() {
        return Parsed::NeedMore;
    }
    if TYPE_BYTES.contains(&buf[0]) {
        return parse_frame(buf);
    }
    // inline command: up to the first CRLF
    let Some(end) = find_crlf(buf, 0) else { return Parsed::NeedMore };
    match inline_words(&buf[..end]) {
        Ok(words) if words.is_empty() => Parsed::Bad("empty inline command".into()),
        Ok(words) => Parsed::Frame(HVal::Array(words.into_iter().map(|w| HVal::Bulk(Some(w))).collect()), end + 2),
        Err(e) => Parsed::Bad(e),
    }
}

/// Words of an inline command (the documented subset: blanks separate, double quotes group,
/// inside quotes `\n \r \t \" \\` are escapes).  Constructs outside the subset are errors so
/// that the generator cannot silently rely on unspecified behaviour.
pub fn inline_words(line: &[u8]) -> Result<Vec<Vec<u8>>, String> {
    let mut words = Vec::new();
    let mut i = 0;
    while i < line.len() {
        while i < line.len() && (line[i] == b' ' || line[i] == b'\t') {
            i += 1;
        }
        if i >= line.len() {
            break;
        }
        let mut w = Vec::new();
        if line[i] == b'"' {
            i += 1;
            loop {
                if i >= line.len() {
                    return Err("unterminated quote".into());
                }
                match line[i] {
                    b'"' => {
                        i += 1;
                        break;
                    }
                    b'\\' => {
                        let Some(&c) = line.get(i + 1) else { return Err("dangling backslash".into()) };
                        w.push(match c {
                            b'n' => b'\n',
                            b'r' => b'\r',
                            b't' => b'\t',
                            b'"' => b'"',
                            b'\\' => b'\\',
                            _ => return Err("escape outside the reference subset".into()),
                        });
                        i += 2;
                    }
                    c => {
                        w.push(c);
                        i += 1;
                    }
                }
            }
            if i < line.len() && line[i] != b' ' && line[i] != b'\t' {
                return Err("closing quote not followed by a blank (outside the reference subset)".into());
            }
            // an empty quoted word ("") is outside the subset: implementations disagree
            if w.is_empty() {
                return Err("empty quoted word (outside the reference subset)".into());
            }
        } else {
            while i < line.len() && line[i] != b' ' && line[i] != b'\t' {
                if line[i] == b'"' || line[i] == b'\\' || line[i] == b'\'' {
                    return Err("quote/backslash inside a bare word (outside the reference subset)".into());
                }
                w.push(line[i]);
                i += 1;
            }
        }
        words.push(w);
    }
    Ok(words)
}

/// Write `words` as an inline command line (with CRLF).  `quote_all` forces quotes.
pub fn inline_line(words: &[Vec<u8>], quote_all: bool, sep: &str) -> Vec<u8> {
    let mut out = Vec::new();
    for (k, w) in words.iter().enumerate() {
        if k > 0 {
            out.extend_from_slice(sep.as_bytes());
        }
        let needs = quote_all || w.iter().any(|c| matches!(c, b' ' | b'\t' | b'"' | b'\\' | b'\'' | b'\r' | b'\n'));
        if needs {
            out.push(b'"');
            for &c in w {
                match c {
                    b'\n' => out.extend_from_slice(b"\\n"),
                    b'\r' => out.extend_from_slice(b"\\r"),
                    b'\t' => out.extend_from_slice(b"\\t"),
                    b'"' => out.extend_from_slice(b"\\\""),
                    b'\\' => out.extend_from_slice(b"\\\\"),
                    c => out.push(c),
                }
            }
            out.push(b'"');
        } else {
            out.extend_from_slice(w);
        }
    }
    out.extend_from_slice(b"\r\n");
    out
}

pub fn encode(v: &HVal, out: &mut Vec<u8>) {
    match v {
        HVal::Simple(s) => {
            out.push(b'+');
            out.extend_from_slice(s);
            out.extend_from_slice(b"\r\n");
        }
        HVal::Error(s) => {
            out.push(b'-');
            out.extend_from_slice(s);
            out.extend_from_slice(b"\r\n");
        }
        HVal::Int(i) => {
            out.push(b':');
            out.extend_from_slice(i.to_string().as_bytes());
            out.extend_from_slice(b"\r\n");
        }
        HVal::Bulk(None) => out.extend_from_slice(b"$-1\r\n"),
        HVal::Bulk(Some(b)) => {
            out.push(b'$');
            out.extend_from_slice(b.len().to_string().as_bytes());
            out.extend_from_slice(b"\r\n");
            out.extend_from_slice(b);
            out.extend_from_slice(b"\r\n");
        }
        HVal::Array(xs) => {
            out.push(b'*');
            out.extend_from_slice(xs.len().to_string().as_bytes());
            out.extend_from_slice(b"\r\n");
            for x in xs {
                encode(x, out);
            }
        }
        HVal::Null => out.extend_from_slice(b"_\r\n"),
    }
}

pub fn encoded(v: &HVal) -> Vec<u8> {
    let mut out = Vec::new();
    encode(v, &mut out);
    out
}

/// Structural class of every byte offset of an encoded frame: used to name *where* a split
/// fell ("bulk_payload", "bulk_header", "array_header", "between_elements", "line", "bulk_crlf").
/// `classes[i]` describes a cut placed *before* byte i (0 < i < len).
pub fn cut_classes(v: &HVal) -> Vec<&'static str> {
    fn walk(v: &HVal, out: &mut Vec<&'static str>, first: &'static str) {
        // the cut before the first byte of this value is classified by the parent
        match v {
            HVal::Simple(s) | HVal::Error(s) => {
                out.push(first);
                for _ in 0..s.len() + 2 {
                    out.push("line");
                }
            }
            HVal::Int(i) => {
                out.push(first);
                for _ in 0..i.to_string().len() + 2 {
                    out.push("line");
                }
            }
            HVal::Null => {
                out.push(first);
                out.push("line");
                out.push("line");
            }
            HVal::Bulk(None) => {
                out.push(first);
                for _ in 0..4 {
                    out.push("bulk_header");
                }
            }
            HVal::Bulk(Some(b)) => {
                out.push(first);
                let h = b.len().to_string().len() + 2;
                for _ in 0..h {
                    out.push("bulk_header");
                }
                // cut right after the header CRLF (before payload byte 0) and inside the payload
                for k in 0..b.len() {
                    out.push(if k == 0 { "after_bulk_header" } else { "bulk_payload" });
                }
                // before CR and before LF of the terminator
                out.push(if b.is_empty() { "after_bulk_header" } else { "bulk_crlf" });
                out.push("bulk_crlf");
            }
            HVal::Array(xs) => {
                out.push(first);
                let h = xs.len().to_string().len() + 2;
                for _ in 0..h {
                    out.push("array_header");
                }
                for (k, x) in xs.iter().enumerate() {
                    walk(x, out, if k == 0 { "after_array_header" } else { "between_elements" });
                }
            }
        }
    }
    let mut out = Vec::new();
    walk(v, &mut out, "frame_boundary");
    out
}

// ---- JSON form of values for traces ------------------------------------------------

pub fn to_json(v: &HVal) -> Value {
    match v {
        HVal::Simple(s) => json!({"s": latin1(s)}),
        HVal::Error(s) => json!({"e": latin1(s)}),
        HVal::Int(i) => json!({"i": i}),
        HVal::Bulk(None) => json!({"b": null}),
        HVal::Bulk(Some(b)) => json!({"b": latin1(b)}),
        HVal::Array(xs) => json!({"a": xs.iter().map(to_json).collect::<Vec<_>>()}),
        HVal::Null => json!({"n": 0}),
    }
}

pub fn from_json(v: &Value) -> Option<HVal> {
    let o = v.as_object()?;
    if let Some(s) = o.get("s") {
        return Some(HVal::Simple(unlatin1(s.as_str()?)));
    }
    if let Some(s) = o.get("e") {
        return Some(HVal::Error(unlatin1(s.as_str()?)));
    }
    if let Some(i) = o.get("i") {
        return Some(HVal::Int(i.as_i64()?));
    }
    if let Some(b) = o.get("b") {
        return Some(HVal::Bulk(if b.is_null() { None } else { Some(unlatin1(b.as_str()?)) }));
    }
    if let Some(a) = o.get("a") {
        return Some(HVal::Array(a.as_array()?.iter().map(from_json).collect::<Option<Vec<_>>>()?));
    }
    if o.contains_key("n") {
        return Some(HVal::Null);
    }
    None
}

/// Printable rendering for violation details.
pub fn show(bytes: &[u8]) -> String {
    let mut s = String::new();
    for &b in bytes.iter().take(240) {
        match b {
            b'\r' => s.push_str("\\r"),
            b'\n' => s.push_str("\\n"),
            0x20..=0x7e => s.push(b as char),
            _ => s.push_str(&format!("\\x{b:02x}")),
        }
    }
    if bytes.len() > 240 {
        s.push_str(&format!("…(+{} bytes)", bytes.len() - 240));
    }
    s
}

pub fn show_val(v: &HVal) -> String {
    show(&encoded(v))
}
