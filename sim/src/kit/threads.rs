//! Deterministic scheduler for REAL OS threads parked at the named H4 points
//! (`samyama::verif::point`), DESIGN §3.3.
//!
//! Each simulated actor is a real thread (so the real locks are real), but at most one of
//! them runs at any time: a thread parks on its own condvar at a synthetic `start` point
//! and at every H4 point it reaches, reporting `(thread, point)`; the controller waits
//! until every live thread is parked or finished (`wait_quiescent`) and then releases
//! exactly one (`release`).  Who runs next is therefore always the caller's decision, and
//! the same sequence of decisions replays the same interleaving.
//!
//! Requirement on the code under test: the points sit outside every lock scope, so a
//! released thread never blocks on a parked one.  If that is ever violated the controller
//! does not hang: `wait_quiescent` gives up after a watchdog interval with `Err`.
//!
//! Threads not spawned through `ThreadCtl::spawn` (the controller itself, RocksDB's
//! background threads) pass through the points untouched.
//!
//! The handler is process-global; `install()` at the start and `uninstall()` at the end.

use samyama::verif::PointHandler;
use std::cell::Cell;
use std::sync::{Arc, Condvar, Mutex};
use std::thread::JoinHandle;
use std::time::{Duration, Instant};

#[derive(Clone, Debug, PartialEq)]
pub enum TState {
    NotSpawned,
    Running,
    Parked(String),
    Finished,
}

struct St {
    ts: Vec<TState>,
    go: Vec<bool>,
    panics: Vec<Option<String>>,
}

pub struct ThreadCtl {
    st: Mutex<St>,
    ctl_cv: Condvar,
    thr_cv: Vec<Condvar>,
    watchdog: Duration,
}

thread_local! {
    static IX: Cell<Option<usize>> = const { Cell::new(None) };
}

impl ThreadCtl {
    pub fn new(n: usize) -> Arc<ThreadCtl> {
        Arc::new(ThreadCtl {
            st: Mutex::new(St { ts: vec![TState::NotSpawned; n], go: vec![false; n], panics: vec![None; n] }),
            ctl_cv: Condvar::new(),
            thr_cv: (0..n).map(|_| Condvar::new()).collect(),
            watchdog: Duration::from_secs(30),
        })
    }
    fn lock(&self) -> std::sync::MutexGuard<'_, St> {
        self.st.lock().unwrap_or_else(|e| e.into_inner())
    }
    pub fn install(self: &Arc<Self>) {
        samyama::verif::set_point_handler(Some(self.clone() as Arc<dyn PointHandler>));
    }
    pub fn uninstall() {
        samyama::verif::set_point_handler(None);
    }

    /// Start actor `ix`.  The thread parks at the synthetic point `start` before running
    /// `f`, so even the first instruction of `f` is ordered by the scheduler.
    pub fn spawn<F: FnOnce() + Send + 'static>(self: &Arc<Self>, ix: usize, f: F) -> JoinHandle<()> {
        self.lock().ts[ix] = TState::Running;
        let ctl = self.clone();
        std::thread::Builder::new()
            .name(format!("sim-actor-{ix}"))
            .stack_size(8 * 1024 * 1024)
            .spawn(move || {
                IX.with(|c| c.set(Some(ix)));
                ctl.park(ix, "start");
                let r = std::panic::catch_unwind(std::panic::AssertUnwindSafe(f));
                let mut s = ctl.lock();
                if let Err(p) = r {
                    let msg = if let Some(m) = p.downcast_ref::<&str>() {
                        m.to_string()
                    } else if let Some(m) = p.downcast_ref::<String>() {
                        m.clone()
                    } else {
                        "<non-string panic payload>".to_string()
                    };
                    s.panics[ix] = Some(msg);
                }
                s.ts[ix] = TState::Finished;
                drop(s);
                ctl.ctl_cv.notify_all();
            })
            .expect("spawn actor thread")
    }

    fn park(&self, ix: usize, name: &str) {
        let mut s = self.lock();
        s.ts[ix] = TState::Parked(name.to_string());
        s.go[ix] = false;
        self.ctl_cv.notify_all();
        while !s.go[ix] {
            s = self.thr_cv[ix].wait(s).unwrap_or_else(|e| e.into_inner());
        }
    }

    /// Blocks until no spawned thread is running.  Returns the parked threads (ascending
    /// index) with the point each is parked at; empty = everything finished.
    pub fn wait_quiescent(&self) -> Result<Vec<(usize, String)>, String> {
        let t0 = Instant::now();
        let mut s = self.lock();
        loop {
            if !s.ts.iter().any(|t| *t == TState::Running) {
                return Ok(s
                    .ts
                    .iter()
                    .enumerate()
                    .filter_map(|(i, t)| if let TState::Parked(p) = t { Some((i, p.clone())) } else { None })
                    .collect());
            }
            let left = self.watchdog.checked_sub(t0.elapsed()).unwrap_or(Duration::ZERO);
            if left.is_zero() {
                return Err(format!("thread controller: no progress for {:?}; states {:?} (a released thread blocks on a parked one?)", self.watchdog, s.ts));
            }
            let (g, _) = self.ctl_cv.wait_timeout(s, left.min(Duration::from_millis(500))).unwrap_or_else(|e| e.into_inner());
            s = g;
        }
    }

    /// Let the parked thread `ix` run to its next point (or to its end).
    pub fn release(&self, ix: usize) {
        let mut s = self.lock();
        if matches!(s.ts[ix], TState::Parked(_)) {
            s.ts[ix] = TState::Running;
            s.go[ix] = true;
            drop(s);
            self.thr_cv[ix].notify_all();
        }
    }

    /// Drives all spawned threads to completion.  At every decision `pick` sees the parked
    /// threads and returns an index into that slice (taken modulo its length).  Returns
    /// the schedule actually executed: `(thread, point it was released from)`.
    pub fn run_schedule(&self, mut pick: impl FnMut(&[(usize, String)]) -> usize) -> Result<Vec<(usize, String)>, String> {
        let mut trace = Vec::new();
        loop {
            let parked = self.wait_quiescent()?;
            if parked.is_empty() {
                return Ok(trace);
            }
            let k = pick(&parked) % parked.len();
            let (ix, point) = parked[k].clone();
            trace.push((ix, point));
            self.release(ix);
        }
    }

    /// Releases everything repeatedly until all threads are finished (cleanup path after
    /// an error, so that `join` cannot hang).
    pub fn drain(&self) {
        // Release every parked thread as soon as it parks, WITHOUT waiting for the others to
        // be quiescent: after "a released thread blocks on a parked one" the blocked thread
        // only gets on once the parked lock holder runs, so waiting for quiescence first (as
        // run_schedule does) never ends and the caller's `join` hangs for ever.
        let t0 = Instant::now();
        let mut s = self.lock();
        loop {
            if !s.ts.iter().any(|t| matches!(t, TState::Running | TState::Parked(_))) {
                return;
            }
            for ix in 0..s.ts.len() {
                if matches!(s.ts[ix], TState::Parked(_)) {
                    s.ts[ix] = TState::Running;
                    s.go[ix] = true;
                    self.thr_cv[ix].notify_all();
                }
            }
            if t0.elapsed() > self.watchdog * 4 {
                return;
            }
            let (g, _) = self.ctl_cv.wait_timeout(s, Duration::from_millis(50)).unwrap_or_else(|e| e.into_inner());
            s = g;
        }
    }

    pub fn panic_of(&self, ix: usize) -> Option<String> {
        self.lock().panics[ix].clone()
    }
}

impl PointHandler for ThreadCtl {
    fn at(&self, name: &str) {
        if let Some(ix) = IX.with(|c| c.get()) {
            self.park(ix, name);
        }
    }
}

/// Number of interleavings of threads that have `segments[i]` scheduler releases each
/// (multinomial coefficient), saturating.
pub fn interleavings(segments: &[u64]) -> u128 {
    let mut total: u128 = 1;
    let mut placed: u64 = 0;
    for &k in segments {
        // multiply by C(placed + k, k)
        for i in 1..=k {
            total = total.saturating_mul((placed + i) as u128) / i as u128;
        }
        placed += k;
    }
    total
}
