//! Run a closure in a forked child process so that *process death* (abort, stack overflow,
//! allocation failure under RLIMIT_AS) becomes an observation instead of killing the worker.
//!
//! The child writes progress records to a pipe with raw `write(2)` calls (no buffering), the
//! parent reads the pipe to EOF and then reaps the child.  stderr of the child goes to a second
//! pipe; the parent keeps its tail (the Rust runtime prints "has overflowed its stack" /
//! "memory allocation of N bytes failed" there, which names the kind of death).
//!
//! fork() in a multi-threaded process: the caller runs on the single rayon pool thread of a
//! worker whose main thread is parked in `pool.install`; glibc's atfork handlers make malloc
//! usable in the child; the child never returns into the harness (it `_exit`s).

use std::io::Read;
use std::os::unix::io::FromRawFd;

#[derive(Clone, Debug, PartialEq, Eq)]
pub enum ChildEnd {
    Exited(i32),
    Signaled(i32),
}

pub struct ChildReport {
    pub end: ChildEnd,
    pub out: Vec<u8>,
    pub err_tail: String,
}

/// Handle the child uses to report progress.
pub struct Reporter {
    fd: i32,
}

impl Reporter {
    pub fn line(&self, s: &str) {
        let mut buf = Vec::with_capacity(s.len() + 1);
        buf.extend_from_slice(s.as_bytes());
        buf.push(b'\n');
        let mut off = 0;
        while off < buf.len() {
            let n = unsafe { libc::write(self.fd, buf[off..].as_ptr() as *const libc::c_void, buf.len() - off) };
            if n <= 0 {
                break;
            }
            off += n as usize;
        }
    }
}

/// Current virtual size of this process in bytes (for an RLIMIT_AS relative to "now").
pub fn vm_size_bytes() -> u64 {
    let s = std::fs::read_to_string("/proc/self/statm").unwrap_or_default();
    let pages: u64 = s.split_whitespace().next().and_then(|x| x.parse().ok()).unwrap_or(0);
    pages * 4096
}

/// Fork; in the child optionally cap the address space at (current size + `as_headroom`),
/// run `f`, `_exit(0)` (or 101 if `f` panics — callers catch panics they care about
/// themselves).  Returns how the child ended plus everything it reported.
pub fn run_in_child(as_headroom: Option<u64>, f: impl FnOnce(&Reporter)) -> Result<ChildReport, String> {
    let mut out_p = [0i32; 2];
    let mut err_p = [0i32; 2];
    unsafe {
        if libc::pipe(out_p.as_mut_ptr()) != 0 || libc::pipe(err_p.as_mut_ptr()) != 0 {
            return Err("pipe() failed".into());
        }
    }
    let limit = as_headroom.map(|h| vm_size_bytes() + h);
    let pid = unsafe { libc::fork() };
    if pid < 0 {
        return Err("fork() failed".into());
    }
    if pid == 0 {
        // ---- child
        unsafe {
            libc::close(out_p[0]);
            libc::close(err_p[0]);
            libc::dup2(err_p[1], 2);
            libc::close(err_p[1]);
            // no core files
            let z = libc::rlimit { rlim_cur: 0, rlim_max: 0 };
            libc::setrlimit(libc::RLIMIT_CORE, &z);
            if let Some(l) = limit {
                let r = libc::rlimit { rlim_cur: l as libc::rlim_t, rlim_max: l as libc::rlim_t };
                libc::setrlimit(libc::RLIMIT_AS, &r);
            }
        }
        let rep = Reporter { fd: out_p[1] };
        let ok = std::panic::catch_unwind(std::panic::AssertUnwindSafe(|| f(&rep))).is_ok();
        unsafe { libc::_exit(if ok { 0 } else { 101 }) };
    }
    // ---- parent
    unsafe {
        libc::close(out_p[1]);
        libc::close(err_p[1]);
    }
    let mut out = Vec::new();
    let mut err = Vec::new();
    // The child's stderr volume is tiny (runtime death messages); read stdout first, then stderr.
    // To be safe against a chatty child, drain both with poll().
    let mut fds = [
        libc::pollfd { fd: out_p[0], events: libc::POLLIN, revents: 0 },
        libc::pollfd { fd: err_p[0], events: libc::POLLIN, revents: 0 },
    ];
    let mut open = [true, true];
    let mut buf = [0u8; 65536];
    while open[0] || open[1] {
        for (k, f) in fds.iter_mut().enumerate() {
            f.fd = if open[k] { if k == 0 { out_p[0] } else { err_p[0] } } else { -1 };
            f.revents = 0;
        }
        let r = unsafe { libc::poll(fds.as_mut_ptr(), 2, -1) };
        if r < 0 {
            let e = std::io::Error::last_os_error();
            if e.kind() == std::io::ErrorKind::Interrupted {
                continue;
            }
            break;
        }
        for k in 0..2 {
            if open[k] && fds[k].revents != 0 {
                let n = unsafe { libc::read(fds[k].fd, buf.as_mut_ptr() as *mut libc::c_void, buf.len()) };
                if n <= 0 {
                    open[k] = false;
                } else if k == 0 {
                    out.extend_from_slice(&buf[..n as usize]);
                } else if err.len() < (1 << 20) {
                    err.extend_from_slice(&buf[..n as usize]);
                }
            }
        }
    }
    unsafe {
        // wrap the fds so they are closed
        drop(std::fs::File::from_raw_fd(out_p[0]));
        drop(std::fs::File::from_raw_fd(err_p[0]));
    }
    let mut status = 0i32;
    loop {
        let r = unsafe { libc::waitpid(pid, &mut status, 0) };
        if r == pid {
            break;
        }
        if r < 0 && std::io::Error::last_os_error().kind() != std::io::ErrorKind::Interrupted {
            return Err("waitpid failed".into());
        }
    }
    let end = if libc::WIFSIGNALED(status) { ChildEnd::Signaled(libc::WTERMSIG(status)) } else { ChildEnd::Exited(libc::WEXITSTATUS(status)) };
    let err_s = String::from_utf8_lossy(&err).to_string();
    let tail: String = {
        let lines: Vec<&str> = err_s.lines().collect();
        let k = lines.len().saturating_sub(6);
        lines[k..].join(" | ")
    };
    let _ = Read::by_ref(&mut std::io::empty());
    Ok(ChildReport { end, out, err_tail: tail })
}

pub fn signal_name(sig: i32) -> &'static str {
    match sig {
        libc::SIGABRT => "SIGABRT",
        libc::SIGSEGV => "SIGSEGV",
        libc::SIGBUS => "SIGBUS",
        libc::SIGKILL => "SIGKILL",
        libc::SIGILL => "SIGILL",
        _ => "SIGOTHER",
    }
}

/// What killed the child, from its exit and the tail of its stderr.
pub fn death_kind(end: &ChildEnd, err_tail: &str) -> &'static str {
    match end {
        ChildEnd::Exited(0) => "clean",
        ChildEnd::Exited(_) => "exit_nonzero",
        ChildEnd::Signaled(sig) => {
            if err_tail.contains("overflowed its stack") || *sig == libc::SIGSEGV || *sig == libc::SIGBUS {
                "stack_overflow"
            } else if err_tail.contains("memory allocation of") {
                "allocation_failure_abort"
            } else if *sig == libc::SIGABRT {
                "abort"
            } else {
                "killed"
            }
        }
    }
}

/// Anonymous shared memory (mapped before `fork`, visible to parent and child): progress
/// that must survive the child's death without costing a system call per record.
pub struct Shared {
    ptr: *mut u8,
    len: usize,
}

impl Shared {
    pub fn new(len: usize) -> Option<Shared> {
        let len = len.max(16);
        let p = unsafe { libc::mmap(std::ptr::null_mut(), len, libc::PROT_READ | libc::PROT_WRITE, libc::MAP_SHARED | libc::MAP_ANONYMOUS, -1, 0) };
        if p == libc::MAP_FAILED {
            return None;
        }
        Some(Shared { ptr: p as *mut u8, len })
    }
    pub fn len(&self) -> usize {
        self.len
    }
    pub fn set(&self, i: usize, v: u8) {
        if i < self.len {
            unsafe { std::ptr::write_volatile(self.ptr.add(i), v) }
        }
    }
    pub fn get(&self, i: usize) -> u8 {
        if i < self.len {
            unsafe { std::ptr::read_volatile(self.ptr.add(i)) }
        } else {
            0
        }
    }
    pub fn set_u64(&self, off: usize, v: u64) {
        for (k, b) in v.to_le_bytes().iter().enumerate() {
            self.set(off + k, *b);
        }
    }
    pub fn get_u64(&self, off: usize) -> u64 {
        let mut b = [0u8; 8];
        for (k, x) in b.iter_mut().enumerate() {
            *x = self.get(off + k);
        }
        u64::from_le_bytes(b)
    }
}

impl Drop for Shared {
    fn drop(&mut self) {
        unsafe {
            libc::munmap(self.ptr as *mut libc::c_void, self.len);
        }
    }
}
