//! Simulated disk behind `samyama::verif::fs` (hooks H2/H3).
//!
//! In-memory inodes + namespace with a durability model:
//! * per inode: live `data`, and `synced` = the image made durable by the last `sync_all`;
//! * namespace operations (create / rename / unlink) are journalled as *pending* until the
//!   directory is synced — which the code under test never does — so on power loss only a
//!   PRNG-chosen prefix (journalling FS) or subset (bare POSIX) of them survives.
//! Every backend call is a numbered crash point; a write of n bytes can be torn at any byte.
//! A crash marks the disk *dead* (later calls fail, so `Drop` flushes reach nothing, like
//! a real kill) and unwinds the "process" with a private panic payload.

use samyama::verif::fs::{Backend, OpenMode};
use std::collections::{BTreeMap, BTreeSet};
use std::io;
use std::path::{Path, PathBuf};
use std::sync::{Arc, Mutex};

/// Panic payload used to unwind the simulated process at a crash point.
pub struct SimCrash;

#[derive(Clone, Debug, PartialEq)]
pub struct OpRec {
    pub kind: &'static str,
    pub path: String,
    pub len: usize,
}

#[derive(Clone, Copy, Debug, PartialEq)]
pub struct CrashPoint {
    /// crash when the op with this index (0-based) is about to execute
    pub op: u64,
    /// for a write op: write this many bytes first, then crash
    pub partial: Option<usize>,
}

#[derive(Clone, Copy, Debug, PartialEq)]
pub enum Reboot {
    /// everything a completed call did survives
    ProcessCrash,
    /// unsynced data and namespace ops survive only as chosen; `prefix_ns`: journalling
    /// file system (a prefix of the pending namespace ops survives) vs any subset
    PowerLoss { prefix_ns: bool },
}

#[derive(Clone, Debug, Default)]
struct Inode {
    data: Vec<u8>,
    synced: Vec<u8>,
    /// truncated (O_TRUNC) since the last sync
    truncated: bool,
    ever_synced: bool,
}

#[derive(Clone, Debug)]
enum NsOp {
    Create(PathBuf, u64),
    Rename(PathBuf, PathBuf),
    Unlink(PathBuf),
}

struct Handle {
    /// 0 = a directory handle (only `sync_all` means something on it)
    inode: u64,
    pos: usize,
    mode: OpenMode,
    path: PathBuf,
}

const DIR_INODE: u64 = 0;

impl NsOp {
    fn in_dir(&self, dir: &Path) -> bool {
        match self {
            NsOp::Create(p, _) | NsOp::Unlink(p) => p.parent() == Some(dir),
            NsOp::Rename(a, b) => a.parent() == Some(dir) || b.parent() == Some(dir),
        }
    }
}

fn commit_ns(durable: &mut BTreeMap<PathBuf, u64>, op: NsOp) {
    match op {
        NsOp::Create(p, i) => {
            durable.insert(p, i);
        }
        NsOp::Rename(a, b) => {
            if let Some(i) = durable.remove(&a) {
                durable.insert(b, i);
            }
        }
        NsOp::Unlink(p) => {
            durable.remove(&p);
        }
    }
}

#[derive(Default)]
struct State {
    inodes: BTreeMap<u64, Inode>,
    live: BTreeMap<PathBuf, u64>,
    durable_ns: BTreeMap<PathBuf, u64>,
    pending: Vec<NsOp>,
    dirs: BTreeSet<PathBuf>,
    handles: BTreeMap<u64, Handle>,
    next_id: u64,
    ops: Vec<OpRec>,
    crash: Option<CrashPoint>,
    dead: bool,
    crashed: bool,
    /// fail this op index with EIO/ENOSPC instead of crashing
    fail_op: Option<(u64, io::ErrorKind)>,
    faults_fired: BTreeMap<String, u64>,
    /// journalling file system: an fsync commits every namespace op issued before it
    fsync_commits_ns: bool,
}

pub struct SimFs {
    st: Mutex<State>,
}

fn dead_err() -> io::Error {
    io::Error::new(io::ErrorKind::Other, "simulated disk is gone (process crashed)")
}

impl SimFs {
    pub fn new() -> Arc<SimFs> {
        Arc::new(SimFs { st: Mutex::new(State { next_id: 1, ..Default::default() }) })
    }
    pub fn install(self: &Arc<Self>) {
        samyama::verif::fs::set_backend(Some(self.clone() as Arc<dyn Backend>));
    }
    pub fn uninstall() {
        samyama::verif::fs::set_backend(None);
    }
    fn lock(&self) -> std::sync::MutexGuard<'_, State> {
        self.st.lock().unwrap_or_else(|e| e.into_inner())
    }
    pub fn set_crash(&self, c: Option<CrashPoint>) {
        self.lock().crash = c;
    }
    /// true: fsync of any file commits all earlier namespace ops (ext4/xfs journal);
    /// false: bare POSIX, only an fsync of the directory would (the code never does one).
    pub fn set_journal_mode(&self, on: bool) {
        self.lock().fsync_commits_ns = on;
    }
    pub fn set_fail(&self, f: Option<(u64, io::ErrorKind)>) {
        self.lock().fail_op = f;
    }
    pub fn op_count(&self) -> u64 {
        self.lock().ops.len() as u64
    }
    pub fn ops(&self) -> Vec<OpRec> {
        self.lock().ops.clone()
    }
    pub fn reset_ops(&self) {
        self.lock().ops.clear();
    }
    pub fn crashed(&self) -> bool {
        self.lock().crashed
    }
    /// Kill the simulated process *between* two file-system calls: the disk goes dead (so the
    /// `Drop` flushes of the process's objects reach nothing); follow with `reboot`.
    pub fn kill(&self) {
        let mut s = self.lock();
        s.dead = true;
        s.crashed = true;
        *s.faults_fired.entry("crash.between_calls".into()).or_insert(0) += 1;
    }
    /// Whether `p` is a directory of the simulated disk (no op is counted).
    pub fn is_dir(&self, p: &Path) -> bool {
        self.lock().dirs.contains(p)
    }
    /// Number of reachable files whose content differs from their last fsynced image.
    pub fn unsynced_files(&self) -> usize {
        let s = self.lock();
        s.live.values().chain(s.durable_ns.values()).collect::<BTreeSet<_>>().into_iter().filter(|i| s.inodes.get(i).map(|x| x.data != x.synced || x.truncated).unwrap_or(false)).count()
    }
    /// Namespace operations not yet durable (what a power loss may drop), oldest first.
    pub fn pending_ns(&self) -> Vec<String> {
        self.lock().pending.iter().map(|o| format!("{:?}", o)).collect()
    }
    pub fn faults_fired(&self) -> BTreeMap<String, u64> {
        self.lock().faults_fired.clone()
    }
    pub fn files(&self) -> Vec<(PathBuf, usize)> {
        let s = self.lock();
        s.live.iter().map(|(p, i)| (p.clone(), s.inodes[i].data.len())).collect()
    }
    pub fn read_file(&self, p: &Path) -> Option<Vec<u8>> {
        let s = self.lock();
        s.live.get(p).map(|i| s.inodes[i].data.clone())
    }
    /// Overwrite a file's content directly (corruption / truncation injection between runs).
    pub fn put_file(&self, p: &Path, bytes: Vec<u8>) {
        let mut s = self.lock();
        if let Some(i) = s.live.get(p).cloned() {
            let ino = s.inodes.get_mut(&i).unwrap();
            ino.data = bytes.clone();
            ino.synced = bytes;
            ino.ever_synced = true;
            ino.truncated = false;
        }
    }
    /// Deep copy of the disk (used to fork a crashed image into several power-loss outcomes).
    pub fn fork(&self) -> Arc<SimFs> {
        let s = self.lock();
        Arc::new(SimFs {
            st: Mutex::new(State {
                inodes: s.inodes.clone(),
                live: s.live.clone(),
                durable_ns: s.durable_ns.clone(),
                pending: s.pending.clone(),
                dirs: s.dirs.clone(),
                handles: BTreeMap::new(),
                next_id: s.next_id,
                ops: Vec::new(),
                crash: None,
                dead: false,
                crashed: false,
                fail_op: None,
                faults_fired: BTreeMap::new(),
                fsync_commits_ns: s.fsync_commits_ns,
            }),
        })
    }

    /// Bring the disk back after a crash (or a clean process exit). `choices` supplies the
    /// power-loss decisions in order (taken modulo what is needed); returns a description.
    pub fn reboot(&self, mode: Reboot, choices: &[u64]) -> Vec<String> {
        let mut guard = self.lock();
        let s: &mut State = &mut guard;
        let mut report = Vec::new();
        let mut ci = 0usize;
        let mut next = |n: u64| -> u64 {
            let v = if choices.is_empty() { 0 } else { choices[ci % choices.len()] };
            ci += 1;
            if n == 0 {
                0
            } else if v == u64::MAX {
                n - 1 // "as much as possible survives"
            } else {
                v % n
            }
        };
        s.handles.clear();
        s.dead = false;
        s.crashed = false;
        s.crash = None;
        s.fail_op = None;
        match mode {
            Reboot::ProcessCrash => {
                // OS survives: page cache and namespace are intact.
            }
            Reboot::PowerLoss { prefix_ns } => {
                // namespace: start from the durable namespace, replay surviving pending ops
                let pend = std::mem::take(&mut s.pending);
                let mut ns = s.durable_ns.clone();
                let keep: Vec<bool> = if prefix_ns {
                    let k = next(pend.len() as u64 + 1) as usize;
                    (0..pend.len()).map(|i| i < k).collect()
                } else {
                    (0..pend.len()).map(|_| next(2) == 1).collect()
                };
                for (op, k) in pend.iter().zip(keep.iter()) {
                    if !*k {
                        report.push(format!("lost {:?}", op));
                        *s.faults_fired.entry("power_loss.ns_op_lost".into()).or_insert(0) += 1;
                        continue;
                    }
                    match op {
                        NsOp::Create(p, i) => {
                            ns.insert(p.clone(), *i);
                        }
                        NsOp::Rename(a, b) => {
                            if let Some(i) = ns.remove(a) {
                                ns.insert(b.clone(), i);
                            }
                        }
                        NsOp::Unlink(p) => {
                            ns.remove(p);
                        }
                    }
                }
                // data: each inode keeps its synced image plus a chosen part of the unsynced tail
                let ids: Vec<u64> = s.inodes.keys().cloned().collect();
                for id in ids {
                    let ino = s.inodes.get_mut(&id).unwrap();
                    if ino.data == ino.synced && !ino.truncated {
                        continue;
                    }
                    let new_data = if ino.truncated {
                        // truncation itself may or may not have reached the disk
                        if ino.ever_synced && next(2) == 0 {
                            ino.synced.clone()
                        } else {
                            let l = next(ino.data.len() as u64 + 1) as usize;
                            ino.data[..l].to_vec()
                        }
                    } else if ino.data.len() >= ino.synced.len() && ino.data[..ino.synced.len()] == ino.synced[..] {
                        let extra = ino.data.len() - ino.synced.len();
                        let l = ino.synced.len() + next(extra as u64 + 1) as usize;
                        ino.data[..l].to_vec()
                    } else {
                        ino.synced.clone()
                    };
                    if new_data.len() != ino.data.len() {
                        report.push(format!("inode {id}: {} -> {} bytes", ino.data.len(), new_data.len()));
                        *s.faults_fired.entry("power_loss.unsynced_data_lost".into()).or_insert(0) += 1;
                    }
                    ino.data = new_data.clone();
                    ino.synced = new_data;
                    ino.truncated = false;
                    ino.ever_synced = true;
                }
                s.live = ns.clone();
                s.durable_ns = ns;
            }
        }
        report
    }

    // --- crash / fault plumbing: called at the start of every backend op
    fn enter(&self, s: &mut State, kind: &'static str, path: &Path, len: usize) -> io::Result<Option<usize>> {
        if s.dead {
            return Err(dead_err());
        }
        let idx = s.ops.len() as u64;
        s.ops.push(OpRec { kind, path: path.to_string_lossy().to_string(), len });
        if let Some((f, kind_e)) = s.fail_op {
            if f == idx {
                *s.faults_fired.entry(format!("io_error.{kind}")).or_insert(0) += 1;
                return Err(io::Error::new(kind_e, "simulated I/O error"));
            }
        }
        if let Some(c) = s.crash {
            if c.op == idx {
                if let (Some(p), "write") = (c.partial, kind) {
                    if p < len {
                        *s.faults_fired.entry("crash.torn_write".into()).or_insert(0) += 1;
                        return Ok(Some(p));
                    }
                }
                *s.faults_fired.entry(format!("crash.before_{kind}")).or_insert(0) += 1;
                s.dead = true;
                s.crashed = true;
                return Ok(Some(usize::MAX));
            }
        }
        Ok(None)
    }
}

fn crash_now() -> ! {
    std::panic::resume_unwind(Box::new(SimCrash));
}

fn parent_exists(s: &State, p: &Path) -> bool {
    match p.parent() {
        None => true,
        Some(par) if par.as_os_str().is_empty() => true,
        Some(par) => s.dirs.contains(par),
    }
}

impl Backend for SimFs {
    fn create_dir_all(&self, p: &Path) -> io::Result<()> {
        let mut s = self.lock();
        match self.enter(&mut s, "create_dir_all", p, 0)? {
            Some(usize::MAX) => {
                drop(s);
                crash_now()
            }
            _ => {}
        }
        let mut cur = PathBuf::new();
        for comp in p.components() {
            cur.push(comp);
            s.dirs.insert(cur.clone());
        }
        Ok(())
    }
    fn remove_file(&self, p: &Path) -> io::Result<()> {
        let mut s = self.lock();
        if let Some(usize::MAX) = self.enter(&mut s, "remove_file", p, 0)? {
            drop(s);
            crash_now()
        }
        if s.live.remove(p).is_none() {
            return Err(io::Error::new(io::ErrorKind::NotFound, "no such file"));
        }
        s.pending.push(NsOp::Unlink(p.to_path_buf()));
        Ok(())
    }
    fn rename(&self, from: &Path, to: &Path) -> io::Result<()> {
        let mut s = self.lock();
        if let Some(usize::MAX) = self.enter(&mut s, "rename", from, 0)? {
            drop(s);
            crash_now()
        }
        let Some(i) = s.live.remove(from) else {
            return Err(io::Error::new(io::ErrorKind::NotFound, "no such file"));
        };
        s.live.insert(to.to_path_buf(), i);
        s.pending.push(NsOp::Rename(from.to_path_buf(), to.to_path_buf()));
        Ok(())
    }
    fn read_dir(&self, p: &Path) -> io::Result<Vec<PathBuf>> {
        let mut s = self.lock();
        if let Some(usize::MAX) = self.enter(&mut s, "read_dir", p, 0)? {
            drop(s);
            crash_now()
        }
        if !s.dirs.contains(p) {
            return Err(io::Error::new(io::ErrorKind::NotFound, "no such directory"));
        }
        let mut out: Vec<PathBuf> = s.live.keys().filter(|f| f.parent() == Some(p)).cloned().collect();
        out.extend(s.dirs.iter().filter(|d| d.parent() == Some(p)).cloned());
        // deliberately NOT sorted by name in a helpful way: reverse order, as a real readdir gives no order
        out.reverse();
        Ok(out)
    }
    fn exists(&self, p: &Path) -> io::Result<bool> {
        let mut s = self.lock();
        if let Some(usize::MAX) = self.enter(&mut s, "exists", p, 0)? {
            drop(s);
            crash_now()
        }
        Ok(s.live.contains_key(p) || s.dirs.contains(p))
    }
    fn open(&self, p: &Path, mode: OpenMode) -> io::Result<u64> {
        let mut s = self.lock();
        if let Some(usize::MAX) = self.enter(&mut s, "open", p, 0)? {
            drop(s);
            crash_now()
        }
        let inode = match s.live.get(p).cloned() {
            Some(i) => {
                if mode.truncate && (mode.write || mode.append) {
                    let ino = s.inodes.get_mut(&i).unwrap();
                    if !ino.data.is_empty() {
                        ino.data.clear();
                        ino.truncated = true;
                    }
                }
                i
            }
            None if s.dirs.contains(p) && !mode.write && !mode.append && !mode.create => {
                // a directory opened read-only (Unix): the handle exists to be fsynced
                let h = s.next_id;
                s.next_id += 1;
                s.handles.insert(h, Handle { inode: DIR_INODE, pos: 0, mode, path: p.to_path_buf() });
                return Ok(h);
            }
            None => {
                if !mode.create {
                    return Err(io::Error::new(io::ErrorKind::NotFound, "no such file"));
                }
                if !parent_exists(&s, p) {
                    return Err(io::Error::new(io::ErrorKind::NotFound, "parent directory missing"));
                }
                let i = s.next_id;
                s.next_id += 1;
                s.inodes.insert(i, Inode::default());
                s.live.insert(p.to_path_buf(), i);
                s.pending.push(NsOp::Create(p.to_path_buf(), i));
                i
            }
        };
        let h = s.next_id;
        s.next_id += 1;
        s.handles.insert(h, Handle { inode, pos: 0, mode, path: p.to_path_buf() });
        Ok(h)
    }
    fn read(&self, h: u64, buf: &mut [u8]) -> io::Result<usize> {
        let mut s = self.lock();
        let path = s.handles.get(&h).map(|x| x.path.clone()).unwrap_or_default();
        if let Some(usize::MAX) = self.enter(&mut s, "read", &path, buf.len())? {
            drop(s);
            crash_now()
        }
        let (inode, pos) = match s.handles.get(&h) {
            Some(x) => (x.inode, x.pos),
            None => return Err(io::Error::new(io::ErrorKind::Other, "bad handle")),
        };
        if inode == DIR_INODE {
            return Err(io::Error::new(io::ErrorKind::Other, "is a directory"));
        }
        let data = &s.inodes[&inode].data;
        let n = buf.len().min(data.len().saturating_sub(pos));
        buf[..n].copy_from_slice(&data[pos..pos + n]);
        s.handles.get_mut(&h).unwrap().pos += n;
        Ok(n)
    }
    fn write(&self, h: u64, buf: &[u8]) -> io::Result<usize> {
        let mut s = self.lock();
        let path = s.handles.get(&h).map(|x| x.path.clone()).unwrap_or_default();
        let decision = self.enter(&mut s, "write", &path, buf.len())?;
        if let Some(usize::MAX) = decision {
            drop(s);
            crash_now()
        }
        let (inode, pos, append) = match s.handles.get(&h) {
            Some(x) => (x.inode, x.pos, x.mode.append),
            None => return Err(io::Error::new(io::ErrorKind::Other, "bad handle")),
        };
        if inode == DIR_INODE {
            return Err(io::Error::new(io::ErrorKind::Other, "is a directory"));
        }
        let take = decision.unwrap_or(buf.len());
        {
            let ino = s.inodes.get_mut(&inode).unwrap();
            let at = if append { ino.data.len() } else { pos };
            if at + take > ino.data.len() {
                ino.data.resize(at + take, 0);
            }
            ino.data[at..at + take].copy_from_slice(&buf[..take]);
            s.handles.get_mut(&h).unwrap().pos = at + take;
        }
        if decision.is_some() {
            // torn write: the prefix reached the page cache, then the process died
            s.dead = true;
            s.crashed = true;
            drop(s);
            crash_now()
        }
        Ok(take)
    }
    fn flush(&self, h: u64) -> io::Result<()> {
        let mut s = self.lock();
        let path = s.handles.get(&h).map(|x| x.path.clone()).unwrap_or_default();
        if let Some(usize::MAX) = self.enter(&mut s, "flush", &path, 0)? {
            drop(s);
            crash_now()
        }
        Ok(())
    }
    fn sync_all(&self, h: u64) -> io::Result<()> {
        let mut s = self.lock();
        let path = s.handles.get(&h).map(|x| x.path.clone()).unwrap_or_default();
        if let Some(usize::MAX) = self.enter(&mut s, "sync_all", &path, 0)? {
            drop(s);
            crash_now()
        }
        let inode = match s.handles.get(&h) {
            Some(x) => x.inode,
            None => return Err(io::Error::new(io::ErrorKind::Other, "bad handle")),
        };
        if inode == DIR_INODE {
            // fsync(directory): the namespace operations of that directory become durable
            let pend = std::mem::take(&mut s.pending);
            let st: &mut State = &mut s;
            for op in pend {
                if st.fsync_commits_ns || op.in_dir(&path) {
                    commit_ns(&mut st.durable_ns, op);
                } else {
                    st.pending.push(op);
                }
            }
            return Ok(());
        }
        let ino = s.inodes.get_mut(&inode).unwrap();
        ino.synced = ino.data.clone();
        ino.truncated = false;
        ino.ever_synced = true;
        if s.fsync_commits_ns {
            let pend = std::mem::take(&mut s.pending);
            for op in pend {
                commit_ns(&mut s.durable_ns, op);
            }
        }
        Ok(())
    }
    fn close(&self, h: u64) {
        let mut s = self.lock();
        s.handles.remove(&h);
    }
}

/// Runs `f` as the simulated process: returns Ok(result) or Err(()) if it was crashed by
/// the disk. Any other panic is propagated.
pub fn run_process<T>(f: impl FnOnce() -> T) -> Result<T, ()> {
    match std::panic::catch_unwind(std::panic::AssertUnwindSafe(f)) {
        Ok(v) => Ok(v),
        Err(payload) => {
            if payload.downcast_ref::<SimCrash>().is_some() {
                Err(())
            } else {
                std::panic::resume_unwind(payload)
            }
        }
    }
}
