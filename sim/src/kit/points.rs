//! Crash injection at the named H4 points (`samyama::verif::point`) — the analogue of
//! `simfs::run_process`/`SimCrash` for code whose state lives outside the simulated disk
//! (RocksDB): the handler counts every point it sees and, at the chosen index, unwinds the
//! "process" with a private payload.  The caller then drops the process' objects (for a
//! `PersistenceManager` this releases RocksDB's LOCK) and reopens on the same directory.
//!
//! The handler is process-global (`set_point_handler`); install it at the start of a
//! sub-execution and always `uninstall()` at the end of `execute`.

use samyama::verif::PointHandler;
use std::sync::{Arc, Mutex};

/// Panic payload used to unwind the simulated process at an H4 point.
pub struct PointCrash;

#[derive(Default)]
struct St {
    hits: Vec<String>,
    crash_at: Option<u64>,
    crashed_at: Option<String>,
}

pub struct PointCtl {
    st: Mutex<St>,
}

impl PointCtl {
    pub fn new() -> Arc<PointCtl> {
        Arc::new(PointCtl { st: Mutex::new(St::default()) })
    }
    fn lock(&self) -> std::sync::MutexGuard<'_, St> {
        self.st.lock().unwrap_or_else(|e| e.into_inner())
    }
    pub fn install(self: &Arc<Self>) {
        samyama::verif::set_point_handler(Some(self.clone() as Arc<dyn PointHandler>));
    }
    pub fn uninstall() {
        samyama::verif::set_point_handler(None);
    }
    /// Crash when the point with this 0-based index (counted over the whole life of the
    /// controller) is reached; `None` = only count.
    pub fn set_crash(&self, at: Option<u64>) {
        self.lock().crash_at = at;
    }
    /// Names of the points hit so far, in order.
    pub fn hits(&self) -> Vec<String> {
        self.lock().hits.clone()
    }
    pub fn hit_count(&self) -> u64 {
        self.lock().hits.len() as u64
    }
    /// Name of the point at which the crash fired, if it did.
    pub fn crashed_at(&self) -> Option<String> {
        self.lock().crashed_at.clone()
    }
}

impl PointHandler for PointCtl {
    fn at(&self, name: &str) {
        let fire = {
            let mut s = self.lock();
            let idx = s.hits.len() as u64;
            s.hits.push(name.to_string());
            if s.crash_at == Some(idx) {
                s.crashed_at = Some(name.to_string());
                s.crash_at = None;
                true
            } else {
                false
            }
        };
        if fire {
            // resume_unwind: no panic hook, no message — this is the simulator killing the process
            std::panic::resume_unwind(Box::new(PointCrash));
        }
    }
}

/// Runs `f` as the simulated process: `Ok(result)`, or `Err(())` if it was crashed at a
/// point.  Any other panic is propagated.
pub fn run_process<T>(f: impl FnOnce() -> T) -> Result<T, ()> {
    match std::panic::catch_unwind(std::panic::AssertUnwindSafe(f)) {
        Ok(v) => Ok(v),
        Err(payload) => {
            if payload.downcast_ref::<PointCrash>().is_some() {
                Err(())
            } else {
                std::panic::resume_unwind(payload)
            }
        }
    }
}
