//! Minimal single-threaded executor: no runtime, no timers, no randomness of its own.
//! "Which task is polled next" is the caller's (the scheduler stream's) decision.
//! tokio's `sync::RwLock` / `mpsc` are runtime-agnostic and work under it.

use std::future::Future;
use std::pin::Pin;
use std::sync::atomic::{AtomicBool, Ordering};
use std::sync::Arc;
use std::task::{Context, Poll, RawWaker, RawWakerVTable, Waker};

struct Flag(AtomicBool);

impl std::task::Wake for Flag {
    fn wake(self: Arc<Self>) {
        self.0.store(true, Ordering::SeqCst);
    }
    fn wake_by_ref(self: &Arc<Self>) {
        self.0.store(true, Ordering::SeqCst);
    }
}

fn noop_raw() -> RawWaker {
    fn clone(_: *const ()) -> RawWaker {
        noop_raw()
    }
    fn noop(_: *const ()) {}
    static VT: RawWakerVTable = RawWakerVTable::new(clone, noop, noop, noop);
    RawWaker::new(std::ptr::null(), &VT)
}

/// Drive one future to completion by polling it in a loop.  Panics (harness error) if it
/// stays Pending for `max_polls` consecutive polls: nothing under test sleeps or waits on
/// a peer in scenarios that use this.
pub fn block_on<F: Future>(f: F) -> F::Output {
    block_on_bounded(f, 1_000_000).expect("block_on: future never completed (it waits on something the simulator does not drive)")
}

pub fn block_on_bounded<F: Future>(f: F, max_polls: u64) -> Option<F::Output> {
    let waker = unsafe { Waker::from_raw(noop_raw()) };
    let mut cx = Context::from_waker(&waker);
    let mut f = std::pin::pin!(f);
    for _ in 0..max_polls {
        if let Poll::Ready(v) = f.as_mut().poll(&mut cx) {
            return Some(v);
        }
    }
    None
}

pub struct Task<'a> {
    pub name: String,
    fut: Option<Pin<Box<dyn Future<Output = ()> + 'a>>>,
    flag: Arc<Flag>,
    pub polls: u64,
}

/// A set of tasks polled one at a time under the caller's control.
pub struct Tasks<'a> {
    pub tasks: Vec<Task<'a>>,
    pub total_polls: u64,
}

impl<'a> Tasks<'a> {
    pub fn new() -> Self {
        Tasks { tasks: Vec::new(), total_polls: 0 }
    }
    pub fn spawn(&mut self, name: &str, fut: impl Future<Output = ()> + 'a) -> usize {
        self.tasks.push(Task { name: name.to_string(), fut: Some(Box::pin(fut)), flag: Arc::new(Flag(AtomicBool::new(true))), polls: 0 });
        self.tasks.len() - 1
    }
    pub fn is_done(&self, i: usize) -> bool {
        self.tasks[i].fut.is_none()
    }
    pub fn all_done(&self) -> bool {
        self.tasks.iter().all(|t| t.fut.is_none())
    }
    /// Unfinished tasks that have been woken since their last poll (or never polled).
    pub fn runnable(&self) -> Vec<usize> {
        self.tasks
            .iter()
            .enumerate()
            .filter(|(_, t)| t.fut.is_some() && t.flag.0.load(Ordering::SeqCst))
            .map(|(i, _)| i)
            .collect()
    }
    pub fn unfinished(&self) -> Vec<usize> {
        self.tasks.iter().enumerate().filter(|(_, t)| t.fut.is_some()).map(|(i, _)| i).collect()
    }
    /// Poll task `i` once; true if it finished.
    pub fn poll(&mut self, i: usize) -> bool {
        let t = &mut self.tasks[i];
        let Some(fut) = t.fut.as_mut() else { return true };
        t.flag.0.store(false, Ordering::SeqCst);
        let waker = Waker::from(t.flag.clone());
        let mut cx = Context::from_waker(&waker);
        t.polls += 1;
        self.total_polls += 1;
        match fut.as_mut().poll(&mut cx) {
            Poll::Ready(()) => {
                t.fut = None;
                true
            }
            Poll::Pending => false,
        }
    }
    /// Run until every task is finished or blocked; `pick(n)` chooses among `n` runnable
    /// tasks.  Returns the number of polls performed.
    pub fn run_until_stalled(&mut self, mut pick: impl FnMut(usize) -> usize, max_polls: u64) -> u64 {
        let mut n = 0;
        loop {
            let r = self.runnable();
            if r.is_empty() || n >= max_polls {
                return n;
            }
            let k = pick(r.len()) % r.len();
            self.poll(r[k]);
            n += 1;
        }
    }
}
