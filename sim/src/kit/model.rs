//! Shared reference-model pieces: type-exact canonical form of property values and a
//! small generator of (JSON-encodable) property values.

use super::rng::Rng;
use samyama::graph::PropertyValue;
use serde_json::{json, Value};
use std::collections::BTreeMap;

/// Type-exact canonical string: Integer 1 != Float 1.0; NaN equals itself bitwise.
pub fn pv_canon(v: &PropertyValue) -> String {
    match v {
        PropertyValue::String(s) => format!("S:{s:?}"),
        PropertyValue::Integer(i) => format!("I:{i}"),
        PropertyValue::Float(f) => format!("F:{:016x}", f.to_bits()),
        PropertyValue::Boolean(b) => format!("B:{b}"),
        PropertyValue::DateTime(t) => format!("T:{t}"),
        PropertyValue::Array(xs) => format!("A:[{}]", xs.iter().map(pv_canon).collect::<Vec<_>>().join(",")),
        PropertyValue::Map(m) => {
            let bm: BTreeMap<_, _> = m.iter().map(|(k, v)| (k.clone(), pv_canon(v))).collect();
            format!("M:{{{}}}", bm.iter().map(|(k, v)| format!("{k:?}={v}")).collect::<Vec<_>>().join(","))
        }
        PropertyValue::Vector(xs) => format!("V:[{}]", xs.iter().map(|x| format!("{:08x}", x.to_bits())).collect::<Vec<_>>().join(",")),
        PropertyValue::Duration { months, days, seconds, nanos } => format!("D:{months}/{days}/{seconds}/{nanos}"),
        PropertyValue::Null => "N".to_string(),
    }
}

/// JSON encoding of a property value for traces: {"i":1} {"s":"x"} {"f":"bits"} {"b":true} {"n":null}
/// {"a":[..]} {"m":{..}} {"v":[f32 bits..]} {"t":ms} {"d":[m,d,s,n]}
pub fn pv_from_json(v: &Value) -> PropertyValue {
    if let Some(o) = v.as_object() {
        if let Some(x) = o.get("i") {
            return PropertyValue::Integer(x.as_i64().unwrap_or(0));
        }
        if let Some(x) = o.get("s") {
            return PropertyValue::String(x.as_str().unwrap_or("").to_string());
        }
        if let Some(x) = o.get("f") {
            let bits = x.as_str().and_then(|s| u64::from_str_radix(s, 16).ok()).unwrap_or(0);
            return PropertyValue::Float(f64::from_bits(bits));
        }
        if let Some(x) = o.get("b") {
            return PropertyValue::Boolean(x.as_bool().unwrap_or(false));
        }
        if let Some(x) = o.get("t") {
            return PropertyValue::DateTime(x.as_i64().unwrap_or(0));
        }
        if let Some(x) = o.get("a") {
            return PropertyValue::Array(x.as_array().map(|a| a.iter().map(pv_from_json).collect()).unwrap_or_default());
        }
        if let Some(x) = o.get("m") {
            return PropertyValue::Map(
                x.as_object().map(|m| m.iter().map(|(k, v)| (k.clone(), pv_from_json(v))).collect()).unwrap_or_default(),
            );
        }
        if let Some(x) = o.get("v") {
            return PropertyValue::Vector(
                x.as_array()
                    .map(|a| a.iter().map(|b| f32::from_bits(b.as_u64().unwrap_or(0) as u32)).collect())
                    .unwrap_or_default(),
            );
        }
        if let Some(x) = o.get("d") {
            let a: Vec<i64> = x.as_array().map(|a| a.iter().map(|y| y.as_i64().unwrap_or(0)).collect()).unwrap_or_default();
            return PropertyValue::Duration {
                months: *a.first().unwrap_or(&0),
                days: *a.get(1).unwrap_or(&0),
                seconds: *a.get(2).unwrap_or(&0),
                nanos: *a.get(3).unwrap_or(&0) as i32,
            };
        }
    }
    PropertyValue::Null
}

pub fn jf(f: f64) -> Value {
    json!({"f": format!("{:016x}", f.to_bits())})
}

/// Small scalar values (collisions frequent on purpose).
pub fn gen_small_value(r: &mut Rng) -> Value {
    match r.below(8) {
        0..=3 => json!({"i": r.range(0, 3)}),
        4 => { let x = ["a", "b", ""][r.usize_below(3)]; json!({"s": x}) }
        5 => json!({"b": r.chance(1, 2)}),
        6 => jf([0.0, 1.0, 2.5, -1.0][r.usize_below(4)]),
        _ => json!({"i": r.range(-2, 100)}),
    }
}

/// Boundary-heavy values of every variant.
pub fn gen_boundary_value(r: &mut Rng, depth: u32) -> Value {
    let strings = ["", " ", "  lead", "trail  ", "a b", "tab\there", "line\nbreak", "\r\n", "ünï", "日本", "𝄞", "'q'", "\"dq\"", "\\bs", "null", "0"];
    match r.below(if depth == 0 { 14 } else { 10 }) {
        0 => { let x = [0i64, 1, -1, i64::MAX, i64::MIN, 1 << 53, (1 << 53) + 1][r.usize_below(7)]; json!({"i": x}) }
        1 => json!({"i": r.range(-5, 5)}),
        2 => { let x = strings[r.usize_below(strings.len())]; json!({"s": x}) }
        3 => json!({"s": format!("k{}", r.below(4))}),
        4 => jf([0.0, -0.0, 1.0, 1.5, f64::MAX, f64::MIN_POSITIVE, f64::INFINITY, f64::NEG_INFINITY, f64::NAN, 1e300, -1e-300][r.usize_below(11)]),
        5 => json!({"b": r.chance(1, 2)}),
        6 => { let x = [0i64, 1, -1, 1_700_000_000_000, i64::MAX][r.usize_below(5)]; json!({"t": x}) }
        7 => json!({"d": [r.range(-2, 14), r.range(-40, 40), r.range(-100000, 100000), r.range(0, 999_999_999)]}),
        8 => json!({"v": (0..r.below(4)).map(|_| ([0.0f32, 1.0, -1.5, f32::MAX][r.usize_below(4)]).to_bits()).collect::<Vec<_>>()}),
        9 => json!({"n": null}),
        10 | 11 => {
            let n = r.below(4);
            json!({"a": (0..n).map(|_| gen_boundary_value(r, depth + 1)).collect::<Vec<_>>()})
        }
        _ => {
            let n = r.below(3);
            let mut m = serde_json::Map::new();
            for _ in 0..n {
                let k = ["", "k", "k k", "ключ"][r.usize_below(4)].to_string();
                m.insert(k, gen_boundary_value(r, depth + 1));
            }
            json!({"m": m})
        }
    }
}

pub fn u(v: &Value, k: &str) -> u64 {
    v.get(k).and_then(|x| x.as_u64()).unwrap_or(0)
}
pub fn s<'a>(v: &'a Value, k: &str) -> &'a str {
    v.get(k).and_then(|x| x.as_str()).unwrap_or("")
}
pub fn op(v: &Value) -> &str {
    s(v, "op")
}
