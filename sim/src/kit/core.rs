//! Case (= trace = replay file), Outcome, Violation and the Scenario trait.
//!
//! A run is "generate, then execute": the PRNG streams are consumed only while the
//! case is generated; `execute` is a pure function of (case, code under test).  A
//! replay file is therefore just the case, and shrinking is editing its event list.

use super::rng::Streams;
use serde::{Deserialize, Serialize};
use serde_json::{Map, Value};
use std::collections::BTreeMap;

#[derive(Clone, Copy, Debug, PartialEq, Eq)]
pub enum Tier {
    Quick,
    Thorough,
}

impl Tier {
    pub fn name(&self) -> &'static str {
        match self {
            Tier::Quick => "quick",
            Tier::Thorough => "thorough",
        }
    }
}

#[derive(Clone, Debug, Serialize, Deserialize, Default)]
pub struct Case {
    pub property: String,
    pub verif_seed: u64,
    pub run_index: u64,
    pub hash_seed: u64,
    /// Per-run configuration (sizes, enabled fault kinds, tuning knobs).  `pin`, when
    /// present, selects one sub-execution of an enumerating case (e.g. one crash point).
    #[serde(default)]
    pub knobs: Map<String, Value>,
    /// Generated operations, scheduler picks, faults and maintenance events, in order.
    #[serde(default)]
    pub events: Vec<Value>,
    /// Filled in when the case is written as a replay file.
    #[serde(default, skip_serializing_if = "Option::is_none")]
    pub violation: Option<Violation>,
}

impl Case {
    pub fn new(property: &str) -> Self {
        Case { property: property.to_string(), ..Default::default() }
    }
    pub fn knob_u64(&self, k: &str, default: u64) -> u64 {
        self.knobs.get(k).and_then(|v| v.as_u64()).unwrap_or(default)
    }
    pub fn knob_bool(&self, k: &str, default: bool) -> bool {
        self.knobs.get(k).and_then(|v| v.as_bool()).unwrap_or(default)
    }
    pub fn knob_str(&self, k: &str, default: &str) -> String {
        self.knobs.get(k).and_then(|v| v.as_str()).unwrap_or(default).to_string()
    }
    pub fn pin(&self) -> Option<&Value> {
        self.knobs.get("pin")
    }
}

#[derive(Clone, Debug, Serialize, Deserialize)]
pub struct Violation {
    /// `<oracle clause>/<operation kind>/<state class>` — what the known-findings file
    /// matches on.  Never contains seed-dependent data.
    pub signature: String,
    pub detail: String,
    pub step: u64,
    /// For enumerating cases: the sub-execution (fault position …) that failed.
    #[serde(default, skip_serializing_if = "Option::is_none")]
    pub pin: Option<Value>,
}

impl Violation {
    pub fn new(signature: impl Into<String>, detail: impl Into<String>, step: usize) -> Self {
        Violation { signature: signature.into(), detail: detail.into(), step: step as u64, pin: None }
    }
    pub fn with_pin(mut self, pin: Value) -> Self {
        self.pin = Some(pin);
        self
    }
}

#[derive(Clone, Debug, Default)]
pub struct Outcome {
    pub violations: Vec<Violation>,
    /// Sub-executions performed (1 unless the case enumerates fault positions).
    pub evaluations: u64,
    /// Simulated steps: scheduler decisions + delivered events + oracle passes.
    pub steps: u64,
    pub probes: BTreeMap<String, u64>,
    /// Faults that actually fired (not merely configured).
    pub faults: BTreeMap<String, u64>,
    /// The targeted mechanism ran (rule stated per scenario).
    pub nontrivial: bool,
    /// Canonical class key of the case for distinct counting (ids renamed etc.).
    pub class_key: u64,
    /// Hash of the final observable state (determinism check).
    pub state_hash: u64,
}

impl Outcome {
    pub fn new() -> Self {
        Outcome { evaluations: 1, ..Default::default() }
    }
    pub fn probe(&mut self, name: &str) {
        *self.probes.entry(name.to_string()).or_insert(0) += 1;
    }
    pub fn probe_n(&mut self, name: &str, n: u64) {
        *self.probes.entry(name.to_string()).or_insert(0) += n;
    }
    pub fn fault(&mut self, name: &str) {
        *self.faults.entry(name.to_string()).or_insert(0) += 1;
    }
    pub fn violate(&mut self, v: Violation) {
        self.violations.push(v);
    }
}

pub trait Scenario: Sync {
    fn id(&self) -> &'static str;
    /// "exploration" or "fault_enumeration".
    fn level(&self) -> &'static str {
        "exploration"
    }
    /// Number of run indices for a tier.
    fn runs(&self, tier: Tier) -> u64;
    fn generate(&self, s: &mut Streams, run_index: u64, tier: Tier) -> Case;
    fn execute(&self, case: &Case) -> Outcome;
    /// How cases are generated and what makes one non-trivial / distinct.
    fn rule(&self) -> &'static str;
    fn real_components(&self) -> Vec<&'static str>;
    fn stub_components(&self) -> Vec<&'static str> {
        vec![]
    }
    fn assumptions(&self) -> Vec<&'static str> {
        vec![]
    }
    /// Probes that must be > 0 over the whole batch, else the check is a harness error.
    fn required_probes(&self, _tier: Tier) -> Vec<&'static str> {
        vec![]
    }
    /// Simpler variants of one event (argument shrinking); default none.
    fn shrink_event(&self, _ev: &Value) -> Vec<Value> {
        vec![]
    }
    /// Whether a worker dying (abort, SIGSEGV, OOM kill) is an observation of the
    /// property (C21) rather than a harness error.
    fn worker_death_is_violation(&self) -> bool {
        false
    }
    /// Extra numbers for the evidence file (space sizes …).
    fn extra_evidence(&self, _tier: Tier) -> Map<String, Value> {
        Map::new()
    }
    /// Whether execute needs the 1-thread rayon pool wrapper with a big stack.
    fn stack_mb(&self) -> usize {
        64
    }
}

pub fn hash_value(v: &Value) -> u64 {
    let s = serde_json::to_string(v).unwrap_or_default();
    super::rng::fnv1a(s.as_bytes())
}

pub fn hash_str(s: &str) -> u64 {
    super::rng::fnv1a(s.as_bytes())
}
