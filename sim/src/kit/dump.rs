//! Full-graph dump through the public read API (what a user sees), an isomorphism-
//! invariant canonical form, and helpers to run Cypher and canonicalise result rows.

use super::model::pv_canon;
use samyama::graph::{EdgeId, GraphStore, NodeId, PropertyValue};
use samyama::query::executor::record::{RecordBatch, Value as QV};
use std::collections::{BTreeMap, BTreeSet};

#[derive(Clone, Debug, PartialEq, Eq, PartialOrd, Ord)]
pub struct GNode {
    pub labels: BTreeSet<String>,
    pub props: BTreeMap<String, String>,
}

#[derive(Clone, Debug, PartialEq, Eq, PartialOrd, Ord)]
pub struct GEdge {
    pub src: u64,
    pub dst: u64,
    pub ty: String,
    pub props: BTreeMap<String, String>,
}

#[derive(Clone, Debug, Default, PartialEq, Eq)]
pub struct Dump {
    pub nodes: BTreeMap<u64, GNode>,
    pub edges: BTreeMap<u64, GEdge>,
}

pub fn canon_props<'a>(it: impl IntoIterator<Item = (&'a String, &'a PropertyValue)>) -> BTreeMap<String, String> {
    it.into_iter().filter(|(_, v)| !v.is_null()).map(|(k, v)| (k.clone(), pv_canon(v))).collect()
}

/// Walk the store by id through `get_node` / `node_properties_full` / `all_edges`.
pub fn dump(g: &GraphStore) -> Dump {
    let mut d = Dump::default();
    let max_id = g.all_nodes().iter().map(|n| n.id.as_u64()).max().unwrap_or(0);
    for id in 1..=max_id {
        if let Some(n) = g.get_node(NodeId::new(id)) {
            let full = g.node_properties_full(NodeId::new(id));
            d.nodes.insert(
                id,
                GNode { labels: n.labels.iter().map(|l| l.as_str().to_string()).collect(), props: canon_props(full.iter()) },
            );
        }
    }
    for e in g.all_edges() {
        d.edges.insert(
            e.id.as_u64(),
            GEdge { src: e.source.as_u64(), dst: e.target.as_u64(), ty: e.edge_type.as_str().to_string(), props: canon_props(e.properties.iter()) },
        );
    }
    d
}

impl Dump {
    /// Isomorphism-invariant canonical form: node colours refined by neighbourhood
    /// (1-WL, 3 rounds), then sorted node colours + sorted coloured edges.  Ids do not
    /// appear.  (Sound for inequality: different strings => non-isomorphic. Equal strings
    /// on non-isomorphic graphs are possible only for WL-indistinguishable graphs.)
    pub fn canonical(&self) -> String {
        let mut colour: BTreeMap<u64, String> = self
            .nodes
            .iter()
            .map(|(id, n)| (*id, format!("{:?}{:?}", n.labels, n.props)))
            .collect();
        for _ in 0..3 {
            let mut next = BTreeMap::new();
            for (id, c) in &colour {
                let mut neigh: Vec<String> = Vec::new();
                for e in self.edges.values() {
                    if e.src == *id {
                        neigh.push(format!(">{}{:?}{}", e.ty, e.props, colour.get(&e.dst).cloned().unwrap_or_else(|| "?".into())));
                    }
                    if e.dst == *id {
                        neigh.push(format!("<{}{:?}{}", e.ty, e.props, colour.get(&e.src).cloned().unwrap_or_else(|| "?".into())));
                    }
                }
                neigh.sort();
                let h = super::rng::fnv1a(format!("{c}|{}", neigh.join(";")).as_bytes());
                next.insert(*id, format!("{:016x}", h));
            }
            // keep the base description in front so the result stays readable
            colour = next
                .into_iter()
                .map(|(id, h)| {
                    let n = &self.nodes[&id];
                    (id, format!("{:?}{:?}#{h}", n.labels, n.props))
                })
                .collect();
        }
        let mut ns: Vec<String> = colour.values().cloned().collect();
        ns.sort();
        let mut es: Vec<String> = self
            .edges
            .values()
            .map(|e| {
                format!(
                    "({})-[{}{:?}]->({})",
                    colour.get(&e.src).cloned().unwrap_or_else(|| "DANGLING".into()),
                    e.ty,
                    e.props,
                    colour.get(&e.dst).cloned().unwrap_or_else(|| "DANGLING".into())
                )
            })
            .collect();
        es.sort();
        format!("N[{}]\nE[{}]", ns.join("\n  "), es.join("\n  "))
    }
    /// Plain description without colours (for messages).
    pub fn describe(&self) -> String {
        let ns: Vec<String> = self.nodes.iter().map(|(i, n)| format!("{i}:{:?}{:?}", n.labels, n.props)).collect();
        let es: Vec<String> = self.edges.iter().map(|(i, e)| format!("{i}:{}-[{}{:?}]->{}", e.src, e.ty, e.props, e.dst)).collect();
        format!("nodes[{}] edges[{}]", ns.join(", "), es.join(", "))
    }
    /// Identity-exact equality (ids included).
    pub fn same_ids(&self, other: &Dump) -> bool {
        self == other
    }
    /// Nodes keyed by the (unique) value of property `key`; None if a node lacks it or a
    /// value repeats.
    pub fn by_key(&self, key: &str) -> Option<BTreeMap<String, u64>> {
        let mut m = BTreeMap::new();
        for (id, n) in &self.nodes {
            let k = n.props.get(key)?;
            if m.insert(k.clone(), *id).is_some() {
                return None;
            }
        }
        Some(m)
    }
}

/// One result cell, canonicalised.  Nodes/edges are rendered by content (labels, props,
/// and for edges type + endpoint contents), not by id, unless `with_ids`.
pub fn cell_canon(v: &QV, g: &GraphStore, with_ids: bool) -> String {
    match v {
        QV::Node(id, _) | QV::NodeRef(id) => node_canon(*id, g, with_ids),
        QV::Edge(id, _) => edge_canon(*id, g, with_ids),
        QV::EdgeRef(id, _, _, _) => edge_canon(*id, g, with_ids),
        QV::Property(p) => pv_canon(p),
        QV::Path { nodes, edges } => format!(
            "P[{}|{}]",
            nodes.iter().map(|n| node_canon(*n, g, with_ids)).collect::<Vec<_>>().join(","),
            edges.iter().map(|e| edge_canon(*e, g, with_ids)).collect::<Vec<_>>().join(",")
        ),
        #[allow(unreachable_patterns)]
        other => format!("{other:?}"),
    }
}

fn node_canon(id: NodeId, g: &GraphStore, with_ids: bool) -> String {
    match g.get_node(id) {
        Some(n) => {
            let labels: BTreeSet<String> = n.labels.iter().map(|l| l.as_str().to_string()).collect();
            let props = canon_props(g.node_properties_full(id).iter());
            if with_ids {
                format!("(#{} {:?} {:?})", id.as_u64(), labels, props)
            } else {
                format!("({:?} {:?})", labels, props)
            }
        }
        None => format!("(missing node {})", id.as_u64()),
    }
}

fn edge_canon(id: EdgeId, g: &GraphStore, with_ids: bool) -> String {
    match g.get_edge(id) {
        Some(e) => {
            let props = canon_props(e.properties.iter());
            format!(
                "[{}{} {:?} {}->{}]",
                if with_ids { format!("#{} ", id.as_u64()) } else { String::new() },
                e.edge_type.as_str(),
                props,
                node_canon(e.source, g, with_ids),
                node_canon(e.target, g, with_ids)
            )
        }
        None => format!("[missing edge {}]", id.as_u64()),
    }
}

/// Rows of a batch as canonical strings (one per row, cells in column order).
pub fn rows_canon(b: &RecordBatch, g: &GraphStore, with_ids: bool) -> Vec<String> {
    b.records
        .iter()
        .map(|r| {
            b.columns
                .iter()
                .map(|c| match r.get(c) {
                    Some(v) => cell_canon(v, g, with_ids),
                    None => "<unbound>".to_string(),
                })
                .collect::<Vec<_>>()
                .join(" | ")
        })
        .collect()
}

pub fn bag(mut rows: Vec<String>) -> Vec<String> {
    rows.sort();
    rows
}
