//! One integer decides a run: splitmix64 mixes (VERIF_SEED, property, run_index) into a
//! run seed; independent xoshiro256** streams are then derived *by name*, so a new draw
//! in one stream never perturbs another.  Nothing here reads a clock or OS entropy.

pub fn splitmix64(state: &mut u64) -> u64 {
    *state = state.wrapping_add(0x9E37_79B9_7F4A_7C15);
    let mut z = *state;
    z = (z ^ (z >> 30)).wrapping_mul(0xBF58_476D_1CE4_E5B9);
    z = (z ^ (z >> 27)).wrapping_mul(0x94D0_49BB_1331_11EB);
    z ^ (z >> 31)
}

pub fn fnv1a(bytes: &[u8]) -> u64 {
    let mut h: u64 = 0xcbf2_9ce4_8422_2325;
    for b in bytes {
        h ^= *b as u64;
        h = h.wrapping_mul(0x0000_0100_0000_01B3);
    }
    h
}

pub fn mix(parts: &[u64]) -> u64 {
    let mut s = 0x1234_5678_9ABC_DEF0u64;
    let mut out = 0u64;
    for p in parts {
        s ^= *p;
        out = splitmix64(&mut s) ^ out.rotate_left(17);
    }
    let mut t = out;
    splitmix64(&mut t)
}

pub fn run_seed(verif_seed: u64, property: &str, run_index: u64) -> u64 {
    mix(&[verif_seed, fnv1a(property.as_bytes()), run_index])
}

#[derive(Clone, Debug)]
pub struct Rng {
    s: [u64; 4],
}

impl Rng {
    pub fn new(seed: u64) -> Self {
        let mut sm = seed;
        let s = [
            splitmix64(&mut sm),
            splitmix64(&mut sm),
            splitmix64(&mut sm),
            splitmix64(&mut sm),
        ];
        Rng { s }
    }
    /// Named sub-stream of a run seed.
    pub fn stream(run_seed: u64, name: &str) -> Self {
        Rng::new(mix(&[run_seed, fnv1a(name.as_bytes())]))
    }
    pub fn next_u64(&mut self) -> u64 {
        let result = self.s[1].wrapping_mul(5).rotate_left(7).wrapping_mul(9);
        let t = self.s[1] << 17;
        self.s[2] ^= self.s[0];
        self.s[3] ^= self.s[1];
        self.s[1] ^= self.s[2];
        self.s[0] ^= self.s[3];
        self.s[2] ^= t;
        self.s[3] = self.s[3].rotate_left(45);
        result
    }
    /// Uniform in 0..n (n > 0).
    pub fn below(&mut self, n: u64) -> u64 {
        if n <= 1 {
            return 0;
        }
        // multiply-shift; bias is irrelevant for search purposes
        ((self.next_u64() as u128 * n as u128) >> 64) as u64
    }
    pub fn usize_below(&mut self, n: usize) -> usize {
        self.below(n as u64) as usize
    }
    /// Uniform in lo..=hi.
    pub fn range(&mut self, lo: i64, hi: i64) -> i64 {
        if hi <= lo {
            return lo;
        }
        lo + self.below((hi - lo) as u64 + 1) as i64
    }
    pub fn chance(&mut self, num: u64, den: u64) -> bool {
        self.below(den) < num
    }
    pub fn pick<'a, T>(&mut self, xs: &'a [T]) -> &'a T {
        &xs[self.usize_below(xs.len())]
    }
    /// Index chosen with the given integer weights.
    pub fn weighted(&mut self, weights: &[u32]) -> usize {
        let total: u64 = weights.iter().map(|w| *w as u64).sum();
        if total == 0 {
            return 0;
        }
        let mut x = self.below(total);
        for (i, w) in weights.iter().enumerate() {
            if x < *w as u64 {
                return i;
            }
            x -= *w as u64;
        }
        weights.len() - 1
    }
    pub fn f64_unit(&mut self) -> f64 {
        (self.next_u64() >> 11) as f64 / (1u64 << 53) as f64
    }
    /// Length biased to be short: most bugs need few operations.
    pub fn short_len(&mut self, lo: usize, hi: usize) -> usize {
        if hi <= lo {
            return lo;
        }
        let span = hi - lo;
        match self.below(10) {
            0..=4 => lo + self.usize_below(span.min(5) + 1),
            5..=7 => lo + self.usize_below(span / 2 + 1),
            _ => lo + self.usize_below(span + 1),
        }
    }
}

/// The named streams of one run.
pub struct Streams {
    pub seed: u64,
    pub workload: Rng,
    pub sched: Rng,
    pub fault: Rng,
    pub knobs: Rng,
    pub hash: Rng,
}

impl Streams {
    pub fn new(run_seed: u64) -> Self {
        Streams {
            seed: run_seed,
            workload: Rng::stream(run_seed, "workload"),
            sched: Rng::stream(run_seed, "sched"),
            fault: Rng::stream(run_seed, "fault"),
            knobs: Rng::stream(run_seed, "knobs"),
            hash: Rng::stream(run_seed, "hash"),
        }
    }
}
