//! Process warm-up.  The code under test has process-wide lazily initialised statics (e.g.
//! `OnceLock<HashSet<..>>` in graph/store.rs).  Whichever thread runs them first draws
//! `RandomState` keys there, which shifts the keys of every later `HashMap` of that thread —
//! so the first run of a process would hash differently from the same case executed later in
//! a worker.  A scenario whose outcome can depend on `HashMap` iteration order calls
//! `warm::once` at the top of `execute` with a closure that exercises the same code paths on
//! a throw-away input; it runs exactly once per process, on its own thread.

use std::sync::Once;

/// `hash_seed` is the run's hash seed: the warm-up thread draws `RandomState` keys from the
/// getrandom shim, so the shim is re-seeded afterwards and the run sees the same stream
/// whether or not it was the one that paid for the warm-up.
pub fn once(flag: &'static Once, hash_seed: u64, f: impl FnOnce() + Send + 'static) {
    flag.call_once(|| {
        let _ = std::thread::Builder::new().stack_size(64 * 1024 * 1024).spawn(f).map(|h| h.join());
        super::runner::reseed_hash(hash_seed);
    });
}
