//! Coordinator / worker / replay / shrink / evidence / known findings.
//!
//! `simrun <Cxx> --tier quick|thorough` is a coordinator that re-executes itself as N
//! worker *processes*; run `i` is the same execution whichever worker performs it.
//! Exit codes: 0 held (or only listed findings), 1 violation not in the known-findings
//! file, 2 harness error.

use super::core::*;
use super::rng::{self, Streams};
use serde_json::{json, Map, Value};
use std::collections::{BTreeMap, BTreeSet, HashSet};
use std::io::Write;
use std::path::{Path, PathBuf};
use std::sync::Mutex;
use std::time::Instant;

/// Root of the verification tree (evidence/, replays/, known_findings.json, target/libdetrand.so).
/// Overridable with VERIF_DIR so a scratch copy can run without touching /verif.
pub fn verif_dir() -> String {
    std::env::var("VERIF_DIR").unwrap_or_else(|_| "/verif".to_string())
}

#[derive(Clone, Debug)]
pub struct Args {
    pub prop: String,
    pub tier: Tier,
    pub jobs: usize,
    pub runs: Option<u64>,
    pub seed: u64,
    pub replay: Option<String>,
    pub worker: Option<(usize, usize)>,
    pub out: Option<String>,
    pub emit_hashes: bool,
    pub selftest: bool,
    pub ignore_known: bool,
    pub max_seconds: Option<u64>,
    pub no_evidence: bool,
    pub one: Option<u64>,
}

pub fn parse_args(argv: &[String]) -> Result<Args, String> {
    if argv.len() < 2 {
        return Err("usage: simrun <Cxx> [--tier quick|thorough] [--jobs N] [--runs N] [--seed S] [--replay FILE]".into());
    }
    let mut a = Args {
        prop: argv[1].clone(),
        tier: match std::env::var("VERIF_TIER").ok().as_deref() {
            Some("thorough") => Tier::Thorough,
            _ => Tier::Quick,
        },
        jobs: std::env::var("VERIF_JOBS").ok().and_then(|s| s.parse().ok()).unwrap_or(16),
        runs: None,
        seed: std::env::var("VERIF_SEED").ok().and_then(|s| s.parse().ok()).unwrap_or(1),
        replay: None,
        worker: None,
        out: None,
        emit_hashes: false,
        selftest: false,
        ignore_known: false,
        max_seconds: None,
        no_evidence: false,
        one: None,
    };
    let mut i = 2;
    let next = |i: &mut usize| -> Result<String, String> {
        *i += 1;
        argv.get(*i).cloned().ok_or_else(|| "missing argument value".to_string())
    };
    while i < argv.len() {
        match argv[i].as_str() {
            "--tier" => {
                a.tier = match next(&mut i)?.as_str() {
                    "quick" => Tier::Quick,
                    "thorough" => Tier::Thorough,
                    t => return Err(format!("bad tier {t}")),
                }
            }
            "quick" => a.tier = Tier::Quick,
            "thorough" => a.tier = Tier::Thorough,
            "--jobs" => a.jobs = next(&mut i)?.parse().map_err(|_| "bad --jobs")?,
            "--runs" => a.runs = Some(next(&mut i)?.parse().map_err(|_| "bad --runs")?),
            "--seed" => a.seed = next(&mut i)?.parse().map_err(|_| "bad --seed")?,
            "--replay" => a.replay = Some(next(&mut i)?),
            "--out" => a.out = Some(next(&mut i)?),
            "--worker" => {
                let w = next(&mut i)?;
                let mut it = w.split('/');
                let x = it.next().and_then(|s| s.parse().ok()).ok_or("bad --worker")?;
                let n = it.next().and_then(|s| s.parse().ok()).ok_or("bad --worker")?;
                a.worker = Some((x, n));
            }
            "--emit-hashes" => a.emit_hashes = true,
            "--selftest-determinism" => a.selftest = true,
            "--ignore-known" => a.ignore_known = true,
            "--no-evidence" => a.no_evidence = true,
            "--max-seconds" => a.max_seconds = Some(next(&mut i)?.parse().map_err(|_| "bad --max-seconds")?),
            "--one" => a.one = Some(next(&mut i)?.parse().map_err(|_| "bad --one")?),
            x => return Err(format!("unknown argument {x}")),
        }
        i += 1;
    }
    Ok(a)
}

// ---------------------------------------------------------------------------------
// Hash-seed shim (LD_PRELOAD libdetrand.so): re-seed at the start of every run.

type ReseedFn = unsafe extern "C" fn(u64);

fn reseed_fn() -> Option<ReseedFn> {
    static mut CACHED: Option<Option<ReseedFn>> = None;
    unsafe {
        #[allow(static_mut_refs)]
        if let Some(c) = CACHED {
            return c;
        }
        let sym = libc::dlsym(libc::RTLD_DEFAULT, b"detrand_reseed\0".as_ptr() as *const libc::c_char);
        let f = if sym.is_null() { None } else { Some(std::mem::transmute::<*mut libc::c_void, ReseedFn>(sym)) };
        CACHED = Some(f);
        f
    }
}

pub fn shim_loaded() -> bool {
    reseed_fn().is_some()
}

pub fn reseed_hash(seed: u64) {
    if let Some(f) = reseed_fn() {
        unsafe { f(seed) }
    }
}

// ---------------------------------------------------------------------------------
// Running one case: fresh 1-thread rayon pool (fresh thread => fresh RandomState keys
// from the re-seeded shim; parallel code paths run on that same single thread).

static LAST_PANIC: Mutex<String> = Mutex::new(String::new());

pub fn install_panic_hook() {
    std::panic::set_hook(Box::new(|info| {
        let msg = if let Some(s) = info.payload().downcast_ref::<&str>() {
            s.to_string()
        } else if let Some(s) = info.payload().downcast_ref::<String>() {
            s.clone()
        } else {
            "<non-string panic payload>".to_string()
        };
        let loc = info.location().map(|l| format!("{}:{}", l.file(), l.line())).unwrap_or_default();
        if let Ok(mut g) = LAST_PANIC.lock() {
            *g = format!("{msg} @ {loc}");
        }
    }));
}

pub fn last_panic() -> String {
    LAST_PANIC.lock().map(|g| g.clone()).unwrap_or_default()
}

fn sanitize(s: &str, max: usize) -> String {
    let mut out = String::new();
    for c in s.chars() {
        if out.len() >= max {
            break;
        }
        if c.is_ascii_alphanumeric() || c == '_' || c == '-' || c == '.' {
            out.push(c);
        } else if !out.ends_with('_') {
            out.push('_');
        }
    }
    out
}

/// Panic signature: message with digits removed (ids, lengths vary), plus file:line.
fn panic_signature(msg: &str) -> String {
    let no_digits: String = msg
        .split(" @ ")
        .next()
        .unwrap_or("")
        .chars()
        .map(|c| if c.is_ascii_digit() { '#' } else { c })
        .collect();
    let loc = msg.split(" @ ").nth(1).unwrap_or("");
    let loc = loc.rsplit('/').next().unwrap_or(loc);
    format!("panic/{}/{}", sanitize(&no_digits, 60), sanitize(loc, 40))
}

pub fn run_case(sc: &dyn Scenario, case: &Case) -> Outcome {
    reseed_hash(case.hash_seed);
    let pool = rayon::ThreadPoolBuilder::new()
        .num_threads(1)
        .stack_size(sc.stack_mb() * 1024 * 1024)
        .build()
        .expect("rayon pool");
    let res = pool.install(|| std::panic::catch_unwind(std::panic::AssertUnwindSafe(|| sc.execute(case))));
    drop(pool);
    match res {
        Ok(o) => o,
        Err(_) => {
            let msg = last_panic();
            let mut o = Outcome::new();
            o.violate(Violation::new(panic_signature(&msg), format!("panic escaped the scenario: {msg}"), 0));
            o
        }
    }
}

/// Execute a case in a process that has already executed it once.
///
/// Process-wide lazy statics (a `OnceLock<HashSet>`, a lazily compiled regex …) are built
/// by whichever run touches them first, and building them draws `RandomState` keys on the
/// run's thread, which shifts the hash seeds of the maps that run creates afterwards. The
/// outcome of a *first* execution can therefore differ (in hash-order-dependent detail)
/// from every later execution of the same case. The authoritative outcome of a case is
/// defined as that of a repeat execution: replay, `--one`, the determinism self-test and
/// the confirmation of every violation use this.
pub fn run_case_warm(sc: &dyn Scenario, case: &Case) -> Outcome {
    let _ = run_case(sc, case);
    run_case(sc, case)
}

// ---------------------------------------------------------------------------------
// Known findings

#[derive(Clone, Debug, Default)]
pub struct Findings {
    /// signature -> what
    pub known: BTreeMap<String, (String, Option<String>)>,
    pub fixed: Vec<String>,
}

pub fn load_findings(prop: &str) -> Findings {
    let mut f = Findings::default();
    let path = format!("{}/known_findings.json", verif_dir());
    let Ok(text) = std::fs::read_to_string(&path) else { return f };
    let Ok(v) = serde_json::from_str::<Value>(&text) else {
        eprintln!("harness error: {path} is not valid JSON");
        std::process::exit(2);
    };
    if let Some(arr) = v.get("findings").and_then(|x| x.as_array()) {
        for e in arr {
            if e.get("property").and_then(|p| p.as_str()) == Some(prop) {
                if let Some(sig) = e.get("signature").and_then(|s| s.as_str()) {
                    f.known.insert(
                        sig.to_string(),
                        (
                            e.get("what").and_then(|s| s.as_str()).unwrap_or("").to_string(),
                            e.get("witness_replay").and_then(|s| s.as_str()).map(|s| s.to_string()),
                        ),
                    );
                }
            }
        }
    }
    if let Some(arr) = v.get("fixed").and_then(|x| x.as_array()) {
        for e in arr {
            if let Some(s) = e.as_str() {
                if s.contains(&format!("property={prop} ")) {
                    f.fixed.push(s.to_string());
                }
            }
        }
    }
    f
}

// ---------------------------------------------------------------------------------
// Shrinking (ddmin over the event list, then per-event argument shrinking)

fn has_sig(o: &Outcome, sig: &str) -> bool {
    o.violations.iter().any(|v| v.signature == sig)
}

pub fn shrink(sc: &dyn Scenario, case: &Case, sig: &str, budget_execs: usize, budget_secs: u64) -> (Case, usize) {
    let t0 = Instant::now();
    let mut best = case.clone();
    let mut execs = 0usize;
    let mut try_case = |c: &Case, execs: &mut usize| -> bool {
        *execs += 1;
        has_sig(&run_case(sc, c), sig)
    };
    // 1. drop chunks of events
    let mut chunk = (best.events.len() / 2).max(1);
    loop {
        let mut progressed = false;
        let mut start = 0usize;
        while start < best.events.len() {
            if execs >= budget_execs || t0.elapsed().as_secs() >= budget_secs {
                return (best, execs);
            }
            let end = (start + chunk).min(best.events.len());
            let mut cand = best.clone();
            cand.events.drain(start..end);
            if try_case(&cand, &mut execs) {
                best = cand;
                progressed = true;
            } else {
                start = end;
            }
        }
        if chunk == 1 && !progressed {
            break;
        }
        if !progressed {
            chunk = (chunk / 2).max(1);
        }
    }
    // 2. simplify arguments of the remaining events
    let mut changed = true;
    let mut rounds = 0;
    while changed && rounds < 4 {
        changed = false;
        rounds += 1;
        for i in 0..best.events.len() {
            for alt in sc.shrink_event(&best.events[i]) {
                if execs >= budget_execs || t0.elapsed().as_secs() >= budget_secs {
                    return (best, execs);
                }
                if alt == best.events[i] {
                    continue;
                }
                let mut cand = best.clone();
                cand.events[i] = alt;
                if try_case(&cand, &mut execs) {
                    best = cand;
                    changed = true;
                    break;
                }
            }
        }
    }
    (best, execs)
}

// ---------------------------------------------------------------------------------
// Worker

#[derive(Default)]
struct WorkerResult {
    evaluations: u64,
    runs: u64,
    steps: u64,
    probes: BTreeMap<String, u64>,
    faults: BTreeMap<String, u64>,
    nontrivial_classes: HashSet<u64>,
    nontrivial_runs: u64,
    samples: Vec<Value>,
    known_met: BTreeMap<String, u64>,
    unknown: Vec<Value>,
    unknown_count: u64,
    hashes: Vec<(u64, u64, u64)>,
    timed_out: bool,
}

pub fn make_case(sc: &dyn Scenario, verif_seed: u64, run_index: u64, tier: Tier) -> Case {
    let rs = rng::run_seed(verif_seed, sc.id(), run_index);
    let mut streams = Streams::new(rs);
    let hash_seed = streams.hash.next_u64() >> 1;
    let mut case = sc.generate(&mut streams, run_index, tier);
    case.property = sc.id().to_string();
    case.verif_seed = verif_seed;
    case.run_index = run_index;
    if case.hash_seed == 0 {
        case.hash_seed = hash_seed;
    }
    case
}

fn sig_slug(sig: &str) -> String {
    sanitize(sig, 80)
}

fn write_replay(sc: &dyn Scenario, case: &Case, v: &Violation, dir: &str) -> String {
    let mut c = case.clone();
    c.violation = Some(v.clone());
    let _ = std::fs::create_dir_all(dir);
    let path = format!("{dir}/{}-{}-s{}r{}.json", sc.id(), sig_slug(&v.signature), case.verif_seed, case.run_index);
    let text = serde_json::to_string_pretty(&c).unwrap();
    std::fs::write(&path, text).expect("write replay");
    path
}

fn worker_main(sc: &dyn Scenario, a: &Args) -> i32 {
    install_panic_hook();
    let (wi, wn) = a.worker.unwrap();
    let runs = a.runs.unwrap_or_else(|| sc.runs(a.tier));
    let findings = if a.ignore_known { Findings::default() } else { load_findings(sc.id()) };
    let t0 = Instant::now();
    let max_secs = a.max_seconds.unwrap_or(match a.tier {
        Tier::Quick => 150,
        Tier::Thorough => 3000,
    });
    let mut r = WorkerResult::default();
    let mut shrunk_sigs: BTreeSet<String> = BTreeSet::new();
    let mut idx = wi as u64;
    while idx < runs {
        if t0.elapsed().as_secs() >= max_secs {
            r.timed_out = true;
            break;
        }
        let case = make_case(sc, a.seed, idx, a.tier);
        let mut o = if a.emit_hashes { run_case_warm(sc, &case) } else { run_case(sc, &case) };
        if !o.violations.is_empty() && !a.emit_hashes {
            // confirm on a repeat execution (see run_case_warm); the repeat is authoritative
            o = run_case(sc, &case);
        }
        r.runs += 1;
        r.evaluations += o.evaluations.max(1);
        r.steps += o.steps;
        for (k, v) in &o.probes {
            *r.probes.entry(k.clone()).or_insert(0) += v;
        }
        for (k, v) in &o.faults {
            *r.faults.entry(k.clone()).or_insert(0) += v;
        }
        if o.nontrivial {
            r.nontrivial_runs += 1;
            r.nontrivial_classes.insert(o.class_key);
        }
        if a.emit_hashes {
            let ch = hash_value(&serde_json::to_value(&case).unwrap());
            let vh = hash_str(&o.violations.iter().map(|v| v.signature.clone()).collect::<Vec<_>>().join("|"));
            r.hashes.push((idx, ch, o.state_hash ^ vh.rotate_left(7) ^ o.steps));
        }
        if r.samples.len() < 3 && (o.nontrivial || idx + (wn as u64) >= runs) && wi == 0 {
            let mut c = serde_json::to_value(&case).unwrap();
            if let Some(ev) = c.get_mut("events").and_then(|e| e.as_array_mut()) {
                if ev.len() > 40 {
                    let n = ev.len();
                    ev.truncate(40);
                    ev.push(json!({"truncated_events": n - 40}));
                }
            }
            r.samples.push(c);
        }
        // violations: per distinct signature in this run
        let mut seen_here = BTreeSet::new();
        for v in &o.violations {
            if !seen_here.insert(v.signature.clone()) {
                continue;
            }
            if findings.known.contains_key(&v.signature) {
                *r.known_met.entry(v.signature.clone()).or_insert(0) += 1;
                continue;
            }
            r.unknown_count += 1;
            if shrunk_sigs.contains(&v.signature) || shrunk_sigs.len() >= 4 {
                continue;
            }
            shrunk_sigs.insert(v.signature.clone());
            // pin, shrink, write replay
            let mut pinned = case.clone();
            if let Some(p) = &v.pin {
                pinned.knobs.insert("pin".into(), p.clone());
            }
            let original_events = pinned.events.len();
            let (min_case, execs) = if has_sig(&run_case(sc, &pinned), &v.signature) {
                shrink(sc, &pinned, &v.signature, 1500, 45)
            } else {
                // pinning changed the outcome: keep the unpinned case (still a faithful replay)
                (case.clone(), 0)
            };
            let o2 = run_case(sc, &min_case);
            let v2 = o2.violations.iter().find(|x| x.signature == v.signature).cloned().unwrap_or_else(|| v.clone());
            let path = write_replay(sc, &min_case, &v2, &format!("{}/replays", verif_dir()));
            r.unknown.push(json!({
                "signature": v.signature,
                "detail": v2.detail,
                "replay": path,
                "run_index": idx,
                "events_before_shrink": original_events,
                "events_after_shrink": min_case.events.len(),
                "shrink_execs": execs,
            }));
        }
        idx += wn as u64;
    }
    let mut classes: Vec<u64> = r.nontrivial_classes.iter().cloned().collect();
    classes.sort_unstable();
    let out = json!({
        "runs": r.runs,
        "evaluations": r.evaluations,
        "steps": r.steps,
        "probes": r.probes,
        "faults": r.faults,
        "nontrivial_runs": r.nontrivial_runs,
        "classes": classes,
        "samples": r.samples,
        "known_met": r.known_met,
        "unknown": r.unknown,
        "unknown_count": r.unknown_count,
        "hashes": r.hashes.iter().map(|(i, c, s)| json!([i, c, s])).collect::<Vec<_>>(),
        "timed_out": r.timed_out,
        "shim": shim_loaded(),
    });
    let path = a.out.clone().expect("--out");
    std::fs::write(&path, serde_json::to_vec(&out).unwrap()).expect("write worker result");
    0
}

// ---------------------------------------------------------------------------------
// Replay

fn replay_main(sc: &dyn Scenario, a: &Args, file: &str) -> i32 {
    install_panic_hook();
    let text = match std::fs::read_to_string(file) {
        Ok(t) => t,
        Err(e) => {
            eprintln!("harness error: cannot read {file}: {e}");
            return 2;
        }
    };
    let case: Case = match serde_json::from_str(&text) {
        Ok(c) => c,
        Err(e) => {
            eprintln!("harness error: {file} is not a case: {e}");
            return 2;
        }
    };
    let o = run_case_warm(sc, &case);
    let want = case.violation.as_ref().map(|v| v.signature.clone());
    let findings = if a.ignore_known { Findings::default() } else { load_findings(sc.id()) };
    println!("replay {} events={} state_hash={:016x} steps={}", file, case.events.len(), o.state_hash, o.steps);
    let mut code = 0;
    for v in &o.violations {
        println!("  violation signature={} step={} detail={}", v.signature, v.step, v.detail);
    }
    match want {
        Some(w) => {
            if has_sig(&o, &w) {
                if let Some((what, _)) = findings.known.get(&w) {
                    println!("KNOWN-FINDING: property={} {} [{}]", sc.id(), what, w);
                } else {
                    println!("VIOLATION property={} replay={}", sc.id(), file);
                    code = 1;
                }
            } else {
                println!("recorded violation {w} does NOT reproduce");
            }
        }
        None => {
            if let Some(v) = o.violations.iter().find(|v| !findings.known.contains_key(&v.signature)) {
                let _ = v;
                println!("VIOLATION property={} replay={}", sc.id(), file);
                code = 1;
            }
        }
    }
    code
}

/// Replays a case file in-process and says whether `sig` reproduces (used by the
/// coordinator through a fresh child process).
fn reproduces_in_fresh_process(prop: &str, file: &str, sig: &str) -> Option<bool> {
    let exe = std::env::current_exe().ok()?;
    let out = worker_command(&exe, 1)
        .arg(prop)
        .arg("--replay")
        .arg(file)
        .arg("--ignore-known")
        .output()
        .ok()?;
    let text = String::from_utf8_lossy(&out.stdout);
    Some(text.lines().any(|l| l.contains("violation signature=") && l.contains(&format!("signature={sig} "))))
}

fn shim_path() -> String {
    format!("{}/target/libdetrand.so", verif_dir())
}

fn worker_command(exe: &Path, hash_seed: u64) -> std::process::Command {
    let mut c = std::process::Command::new(exe);
    c.env("LD_PRELOAD", shim_path())
        .env("VERIF_HASH_SEED", hash_seed.to_string())
        .env("RAYON_NUM_THREADS", "1")
        .env("RUST_BACKTRACE", "0")
        .env_remove("SAMYAMA_GRAPH_NATIVE")
        .env_remove("SAMYAMA_FILTER_PARALLEL_COST");
    c
}

// ---------------------------------------------------------------------------------
// Coordinator

pub struct Batch {
    pub merged: Value,
    pub hashes: BTreeMap<u64, (u64, u64)>,
    pub dead_workers: Vec<String>,
}

fn run_batch(sc: &dyn Scenario, a: &Args, jobs: usize, emit_hashes: bool) -> Result<Batch, String> {
    let exe = std::env::current_exe().map_err(|e| e.to_string())?;
    if !Path::new(&shim_path()).exists() {
        return Err(format!("{} missing (run setup / ./check builds it)", shim_path()));
    }
    let scratch = PathBuf::from(format!("/dev/shm/verif.{}.{}", std::process::id(), jobs));
    let _ = std::fs::remove_dir_all(&scratch);
    std::fs::create_dir_all(&scratch).map_err(|e| e.to_string())?;
    let mut children = Vec::new();
    for w in 0..jobs {
        let out = scratch.join(format!("w{w}.json"));
        let log = std::fs::File::create(scratch.join(format!("w{w}.log"))).map_err(|e| e.to_string())?;
        let log2 = log.try_clone().map_err(|e| e.to_string())?;
        let mut c = worker_command(&exe, 1);
        c.arg(sc.id())
            .arg("--tier")
            .arg(a.tier.name())
            .arg("--seed")
            .arg(a.seed.to_string())
            .arg("--worker")
            .arg(format!("{w}/{jobs}"))
            .arg("--out")
            .arg(&out)
            .env("VERIF_SCRATCH", scratch.join(format!("w{w}.d")))
            .stdout(log)
            .stderr(log2);
        if let Some(r) = a.runs {
            c.arg("--runs").arg(r.to_string());
        }
        if let Some(m) = a.max_seconds {
            c.arg("--max-seconds").arg(m.to_string());
        }
        if emit_hashes {
            c.arg("--emit-hashes");
        }
        if a.ignore_known {
            c.arg("--ignore-known");
        }
        let _ = std::fs::create_dir_all(scratch.join(format!("w{w}.d")));
        children.push((w, out, c.spawn().map_err(|e| format!("spawn worker: {e}"))?));
    }
    let mut merged = json!({
        "runs": 0u64, "evaluations": 0u64, "steps": 0u64, "nontrivial_runs": 0u64, "unknown_count": 0u64,
        "probes": {}, "faults": {}, "known_met": {}, "samples": [], "unknown": [], "timed_out": false, "shim": true
    });
    let mut classes: HashSet<u64> = HashSet::new();
    let mut hashes = BTreeMap::new();
    let mut dead = Vec::new();
    for (w, out, mut child) in children {
        let status = child.wait().map_err(|e| e.to_string())?;
        let text = std::fs::read(&out).ok();
        if !status.success() || text.is_none() {
            let log = std::fs::read_to_string(scratch.join(format!("w{w}.log"))).unwrap_or_default();
            let tail: String = log.lines().rev().take(12).collect::<Vec<_>>().into_iter().rev().collect::<Vec<_>>().join("\n");
            dead.push(format!("worker {w} exited with {status}; log tail:\n{tail}"));
            continue;
        }
        let v: Value = serde_json::from_slice(&text.unwrap()).map_err(|e| format!("worker {w} result: {e}"))?;
        for k in ["runs", "evaluations", "steps", "nontrivial_runs", "unknown_count"] {
            let cur = merged[k].as_u64().unwrap_or(0);
            merged[k] = json!(cur + v[k].as_u64().unwrap_or(0));
        }
        for k in ["probes", "faults", "known_met"] {
            if let Some(m) = v[k].as_object() {
                for (name, n) in m {
                    let cur = merged[k].get(name).and_then(|x| x.as_u64()).unwrap_or(0);
                    merged[k][name] = json!(cur + n.as_u64().unwrap_or(0));
                }
            }
        }
        if let Some(cs) = v["classes"].as_array() {
            for c in cs {
                if let Some(x) = c.as_u64() {
                    classes.insert(x);
                }
            }
        }
        for k in ["samples", "unknown"] {
            if let Some(xs) = v[k].as_array() {
                for x in xs {
                    merged[k].as_array_mut().unwrap().push(x.clone());
                }
            }
        }
        if v["timed_out"].as_bool() == Some(true) {
            merged["timed_out"] = json!(true);
        }
        if v["shim"].as_bool() != Some(true) {
            merged["shim"] = json!(false);
        }
        if let Some(hs) = v["hashes"].as_array() {
            for h in hs {
                hashes.insert(h[0].as_u64().unwrap(), (h[1].as_u64().unwrap(), h[2].as_u64().unwrap()));
            }
        }
    }
    merged["distinct_classes"] = json!(classes.len() as u64);
    let _ = std::fs::remove_dir_all(&scratch);
    Ok(Batch { merged, hashes, dead_workers: dead })
}

fn selftest_determinism(sc: &dyn Scenario, a: &Args) -> i32 {
    let mut a2 = a.clone();
    a2.ignore_known = true;
    a2.runs = Some(a.runs.unwrap_or(200).min(sc.runs(a.tier)));
    let configs = [1usize, 16, 5, 16];
    let mut results = Vec::new();
    for j in configs {
        match run_batch(sc, &a2, j, true) {
            Ok(b) => {
                if !b.dead_workers.is_empty() {
                    eprintln!("harness error: {}", b.dead_workers.join("\n"));
                    return 2;
                }
                results.push(b.hashes)
            }
            Err(e) => {
                eprintln!("harness error: {e}");
                return 2;
            }
        }
    }
    let base = &results[0];
    let mut bad = 0;
    for (k, r) in results.iter().enumerate().skip(1) {
        for (idx, h) in base {
            if r.get(idx) != Some(h) {
                if bad < 10 {
                    println!("DIVERGENCE run_index={idx} config#{k}: {:?} vs {:?}", h, r.get(idx));
                }
                bad += 1;
            }
        }
    }
    println!("determinism {}: {} runs x {} batches (jobs {:?}), divergences={}", sc.id(), base.len(), results.len(), configs, bad);
    if bad == 0 {
        0
    } else {
        2
    }
}

pub fn main_for(sc: &dyn Scenario, a: &Args) -> i32 {
    if let Some(file) = &a.replay {
        return replay_main(sc, a, file);
    }
    if a.worker.is_some() {
        return worker_main(sc, a);
    }
    if let Some(idx) = a.one {
        install_panic_hook();
        let case = make_case(sc, a.seed, idx, a.tier);
        let o = run_case_warm(sc, &case);
        println!("{}", serde_json::to_string_pretty(&case).unwrap());
        println!("steps={} nontrivial={} probes={:?} faults={:?}", o.steps, o.nontrivial, o.probes, o.faults);
        for v in &o.violations {
            println!("violation {} step={} {}", v.signature, v.step, v.detail);
        }
        return 0;
    }
    if a.selftest {
        return selftest_determinism(sc, a);
    }
    let t0 = Instant::now();
    let findings = if a.ignore_known { Findings::default() } else { load_findings(sc.id()) };
    let batch = match run_batch(sc, a, a.jobs.max(1), false) {
        Ok(b) => b,
        Err(e) => {
            eprintln!("harness error: {e}");
            return 2;
        }
    };
    let m = &batch.merged;
    let mut code = 0;
    let mut harness_errors: Vec<String> = Vec::new();
    if !batch.dead_workers.is_empty() {
        harness_errors.extend(batch.dead_workers.iter().cloned());
    }
    if m["shim"].as_bool() != Some(true) {
        harness_errors.push("hash-seed shim not loaded in a worker".into());
    }
    // known findings met
    let mut known_lines = Vec::new();
    if let Some(km) = m["known_met"].as_object() {
        for (sig, n) in km {
            let what = findings.known.get(sig).map(|x| x.0.clone()).unwrap_or_default();
            println!("KNOWN-FINDING: property={} {} [signature={} met={}]", sc.id(), what, sig, n);
            known_lines.push(json!({"signature": sig, "what": what, "met": n}));
        }
    }
    // listed findings' witnesses: do they still reproduce?
    let mut witness_status = Vec::new();
    for (sig, (_what, wit)) in &findings.known {
        if let Some(w) = wit {
            let p = if w.starts_with('/') { w.clone() } else { format!("{}/{w}", verif_dir()) };
            let rep = reproduces_in_fresh_process(sc.id(), &p, sig);
            // a listed finding the sampled batch did not meet this time but whose recorded witness still fails on
            // this tree is still a finding of this tree: one line per listed finding, met or not
            let met = m["known_met"].get(sig.as_str()).is_some();
            if rep == Some(true) && !met {
                println!("KNOWN-FINDING: property={} {} [signature={} met=0 witness={} reproduces]", sc.id(), _what, sig, w);
                known_lines.push(json!({"signature": sig, "what": _what, "met": 0, "by_witness": true}));
            }
            witness_status.push(json!({"signature": sig, "witness": w, "reproduces": rep}));
        }
    }
    // unknown violations: verify replay in a fresh process
    let mut violations_reported = 0u64;
    let mut reported_sigs = BTreeSet::new();
    if let Some(us) = m["unknown"].as_array() {
        for u in us {
            let sig = u["signature"].as_str().unwrap_or("").to_string();
            let path = u["replay"].as_str().unwrap_or("").to_string();
            if !reported_sigs.insert(sig.clone()) {
                continue;
            }
            match reproduces_in_fresh_process(sc.id(), &path, &sig) {
                Some(true) => {
                    println!("VIOLATION property={} replay={}", sc.id(), path);
                    println!("  signature={} detail={}", sig, u["detail"].as_str().unwrap_or(""));
                    violations_reported += 1;
                    code = 1;
                }
                _ => {
                    harness_errors.push(format!(
                        "violation {sig} did not reproduce from {path} in a fresh process (non-deterministic failure: harness bug)"
                    ));
                }
            }
        }
    }
    // required probes
    for p in sc.required_probes(a.tier) {
        let n = m["probes"].get(p).and_then(|x| x.as_u64()).or_else(|| m["faults"].get(p).and_then(|x| x.as_u64())).unwrap_or(0);
        // a batch cut short by the wall-clock cap is partial: probes of phases it did not reach are not held against it
        if n == 0 && a.runs.is_none() && m["timed_out"].as_bool() != Some(true) {
            harness_errors.push(format!("probe {p} never fired: the exploration does not reach what it claims"));
        }
    }
    let wall = t0.elapsed().as_secs_f64();
    let runs = m["runs"].as_u64().unwrap_or(0);
    let evals = m["evaluations"].as_u64().unwrap_or(0);
    let distinct = m["distinct_classes"].as_u64().unwrap_or(0);
    if evals == 0 {
        harness_errors.push("no evaluations performed".into());
    }
    if !a.no_evidence {
        let mut coverage = Map::new();
        coverage.insert("evaluations".into(), json!(evals));
        coverage.insert("runs".into(), json!(runs));
        coverage.insert("distinct_nontrivial".into(), json!(distinct));
        coverage.insert("nontrivial_runs".into(), m["nontrivial_runs"].clone());
        coverage.insert("rule".into(), json!(sc.rule()));
        coverage.insert("samples".into(), m["samples"].clone());
        coverage.insert("sim_steps_total".into(), m["steps"].clone());
        coverage.insert("runs_per_hour".into(), json!((evals as f64 / wall.max(0.001) * 3600.0) as u64));
        coverage.insert("seeds".into(), json!({"verif_seed": a.seed, "run_indices": format!("0..{}", sc.runs(a.tier)), "derivation": "run_seed = mix(VERIF_SEED, fnv1a(property), run_index); named xoshiro256** streams workload/sched/fault/knobs/hash"}));
        coverage.insert("simulated_time".into(), json!("no timers or deadlines lie behind this property; simulated time is reported as sim_steps_total (scheduler decisions + delivered events + oracle passes)"));
        coverage.insert("fault_kinds_fired".into(), m["faults"].clone());
        coverage.insert("probes".into(), m["probes"].clone());
        coverage.insert("real_components".into(), json!(sc.real_components()));
        coverage.insert("stub_components".into(), json!(sc.stub_components()));
        coverage.insert("known_findings_met".into(), json!(known_lines));
        coverage.insert("known_finding_witnesses".into(), json!(witness_status));
        coverage.insert("fixed_findings".into(), json!(findings.fixed));
        coverage.insert("workers".into(), json!(a.jobs));
        coverage.insert("stopped_by_time_cap".into(), m["timed_out"].clone());
        coverage.insert("exhaustive".into(), json!(false));
        for (k, v) in sc.extra_evidence(a.tier) {
            coverage.insert(k, v);
        }
        if !harness_errors.is_empty() {
            coverage.insert("harness_errors".into(), json!(harness_errors));
        }
        let ev = json!({
            "property_id": sc.id(),
            "tier": a.tier.name(),
            "seed": a.seed,
            "level": sc.level(),
            "coverage": coverage,
            "assumptions": sc.assumptions(),
            "wall_s": wall,
            "violations": violations_reported,
        });
        let dir = format!("{}/evidence", verif_dir());
        let _ = std::fs::create_dir_all(&dir);
        let path = format!("{dir}/{}.json", sc.id());
        match std::fs::File::create(&path).and_then(|mut f| f.write_all(serde_json::to_string_pretty(&ev).unwrap().as_bytes())) {
            Ok(_) => {}
            Err(e) => harness_errors.push(format!("cannot write {path}: {e}")),
        }
    }
    println!(
        "{} {}: runs={} evaluations={} distinct_nontrivial={} steps={} unknown_violations={} wall={:.1}s",
        sc.id(),
        a.tier.name(),
        runs,
        evals,
        distinct,
        m["steps"],
        m["unknown_count"],
        wall
    );
    println!("  probes={} faults={}", m["probes"], m["faults"]);
    if !harness_errors.is_empty() {
        for h in &harness_errors {
            eprintln!("harness error: {h}");
        }
        if code == 0 {
            return 2;
        }
    }
    code
}
