//! A simulated process that can REALLY be killed: the closure runs in a `fork()`ed child
//! which dies by `_exit` (no destructors, no `atexit`, no C++ static destructors, nothing
//! flushed that was not already handed to the kernel with `write(2)`), while the parent
//! collects what the child reported before it died and then inspects what is on disk.
//!
//! Used by C16 for the crash sub-executions whose kill must be real (RocksDB is not closed,
//! its memtables are not flushed, the samyama WAL's `BufWriter` is not flushed) — an unwind
//! plus `Drop` of the manager, as `kit::points` does, closes everything cleanly and therefore
//! only *assumes* that an acknowledged write survives a kill.
//!
//! Reporting channel: a pipe written with raw `write(2)` — one line per record, complete in
//! the kernel when `write` returns, so it survives the death of the writer.  Never through
//! the database under test.
//!
//! fork() in a multi-threaded process.  The caller is the single rayon pool thread of a
//! worker (`runner::run_case`); the worker's main thread is parked in `pool.install`.  Only
//! the calling thread exists in the child, so the child must not depend on a lock another
//! thread held at the instant of the fork, nor on a service thread of the parent:
//! * glibc's atfork handlers make malloc usable in the child;
//! * the simulator's own statics (`verif::POINT`, `RunDir` counter) are only touched by the
//!   calling thread;
//! * RocksDB keeps process-wide thread pools in `Env::Default()` (flush = HIGH, compaction =
//!   LOW priority).  Their threads are started by the first `DB::Open` of the process and
//!   live on, idle, waiting on the pool's condition variable.  A child forked then inherits
//!   the pool's bookkeeping ("1 thread started") but not the thread: the first job scheduled
//!   in the child (the memtable flush of a clean close when there is unlogged data, a
//!   `flush_cf`) is queued and never served — observed with gdb: the child sits in
//!   `DBImpl::WaitForFlushMemTables` for ever.  Raising the pools' limits in the child (which
//!   starts additional, real threads) did not cure it either (the inherited condition
//!   variable still counts a waiter that does not exist in the child).
//!   Therefore the PARENT retires the idle pool threads right before every fork
//!   (`retire_rocksdb_pools`: thread limit 0, wait until the threads are gone); the child
//!   inherits empty pools and both processes start fresh threads at their next `DB::Open`.
//!   Precondition: every database of the parent is closed when the fork happens (C16: one
//!   sub-execution at a time, manager dropped at its end), so the pools have no work.
//!   RocksDB's periodic-task timer thread exists only while a database is open.
//! * Belt and braces: the child reports `ready` first; a child that does not do so in time
//!   is killed and the fork is repeated — nothing has touched the directory at that point.
//! The child never returns into the harness: it ends in `_exit`.

use std::time::{Duration, Instant};

/// Exit status the child uses for "killed by the simulator at the chosen position".
pub const KILLED: i32 = 77;
/// Exit status for "the closure returned" (it should not: it should `_exit` itself).
pub const RETURNED: i32 = 78;
/// Exit status for "a panic escaped the closure".
pub const PANICKED: i32 = 101;

/// Write end of the report pipe, as seen by the child.
#[derive(Clone, Copy)]
pub struct Report {
    fd: i32,
}

impl Report {
    /// One record.  Returns after the kernel has the bytes.
    pub fn line(&self, s: &str) {
        let mut buf = Vec::with_capacity(s.len() + 1);
        buf.extend(s.bytes().map(|b| if b == b'\n' { b' ' } else { b }));
        buf.push(b'\n');
        let mut off = 0;
        while off < buf.len() {
            let n = unsafe { libc::write(self.fd, buf[off..].as_ptr() as *const libc::c_void, buf.len() - off) };
            if n < 0 {
                if std::io::Error::last_os_error().kind() == std::io::ErrorKind::Interrupted {
                    continue;
                }
                break;
            }
            off += n as usize;
        }
    }
    /// Die now, the way `kill -9` would: nothing is closed, flushed or dropped.
    pub fn die(&self, status: i32) -> ! {
        unsafe { libc::_exit(status) }
    }
}

#[derive(Clone, Debug, PartialEq, Eq)]
pub enum End {
    Exited(i32),
    Signaled(i32),
}

pub struct Dead {
    pub end: End,
    /// the records the child wrote, in order (without the `ready` handshake line)
    pub lines: Vec<String>,
    /// how many forks were needed (1 unless a child hung before `ready`)
    pub forks: u32,
}

fn rocksdb_pool_threads() -> usize {
    let mut n = 0;
    if let Ok(rd) = std::fs::read_dir("/proc/self/task") {
        for e in rd.flatten() {
            if let Ok(name) = std::fs::read_to_string(e.path().join("comm")) {
                if name.starts_with("rocksdb:") {
                    n += 1;
                }
            }
        }
    }
    n
}

/// See the module text.  Called by the parent before `fork()`; all databases closed.
/// Setting a pool's thread limit to 0 makes its idle threads leave their wait and terminate
/// (`ThreadPoolImpl::BGThread`: "excessive" threads detach and exit); the next `DB::Open`
/// raises the limit again (`IncBackgroundThreadsIfNeeded`) and threads are started on
/// demand.  The C API has no "join the pool threads" call (`rocksdb_env_join_all_threads`
/// only joins `StartThread` threads), so their exit is awaited by watching the thread list.
/// Returns false if they did not go away in time (the fork then proceeds; the `ready`
/// handshake and the child timeout still bound the damage).
pub fn retire_rocksdb_pools() -> bool {
    if rocksdb_pool_threads() == 0 {
        return true;
    }
    if let Ok(mut env) = rocksdb::Env::new() {
        env.set_background_threads(0);
        env.set_high_priority_background_threads(0);
        env.set_bottom_priority_background_threads(0);
    }
    let t0 = Instant::now();
    while rocksdb_pool_threads() > 0 {
        if t0.elapsed() > Duration::from_secs(20) {
            return false;
        }
        std::thread::sleep(Duration::from_micros(200));
    }
    true
}

enum Attempt {
    Done(End, Vec<String>),
    NotReady,
}

fn one_fork(f: &dyn Fn(Report) -> (), ready_timeout: Duration, total_timeout: Duration) -> Result<Attempt, String> {
    let mut p = [0i32; 2];
    if unsafe { libc::pipe(p.as_mut_ptr()) } != 0 {
        return Err("pipe() failed".into());
    }
    let _ = retire_rocksdb_pools();
    let pid = unsafe { libc::fork() };
    if pid < 0 {
        unsafe {
            libc::close(p[0]);
            libc::close(p[1]);
        }
        return Err(format!("fork() failed: {}", std::io::Error::last_os_error()));
    }
    if pid == 0 {
        // ---- child
        unsafe {
            libc::close(p[0]);
            let z = libc::rlimit { rlim_cur: 0, rlim_max: 0 };
            libc::setrlimit(libc::RLIMIT_CORE, &z);
        }
        let rep = Report { fd: p[1] };
        rep.line("ready");
        let ok = std::panic::catch_unwind(std::panic::AssertUnwindSafe(|| f(rep))).is_ok();
        unsafe { libc::_exit(if ok { RETURNED } else { PANICKED }) };
    }
    // ---- parent
    unsafe { libc::close(p[1]) };
    let t0 = Instant::now();
    let mut data: Vec<u8> = Vec::new();
    let mut buf = [0u8; 16384];
    let mut ready = false;
    let mut hung = false;
    loop {
        let limit = if ready { total_timeout } else { ready_timeout };
        let left = limit.checked_sub(t0.elapsed()).unwrap_or(Duration::ZERO);
        if left.is_zero() {
            hung = true;
            break;
        }
        let mut fds = [libc::pollfd { fd: p[0], events: libc::POLLIN, revents: 0 }];
        let r = unsafe { libc::poll(fds.as_mut_ptr(), 1, left.as_millis().min(1000) as i32) };
        if r < 0 {
            if std::io::Error::last_os_error().kind() == std::io::ErrorKind::Interrupted {
                continue;
            }
            break;
        }
        if r == 0 {
            continue;
        }
        let n = unsafe { libc::read(p[0], buf.as_mut_ptr() as *mut libc::c_void, buf.len()) };
        if n < 0 {
            if std::io::Error::last_os_error().kind() == std::io::ErrorKind::Interrupted {
                continue;
            }
            break;
        }
        if n == 0 {
            break; // EOF: every copy of the write end is closed = the child is dead
        }
        data.extend_from_slice(&buf[..n as usize]);
        if !ready && data.starts_with(b"ready\n") {
            ready = true;
        }
    }
    if hung {
        unsafe { libc::kill(pid, libc::SIGKILL) };
    }
    unsafe { libc::close(p[0]) };
    let mut status = 0i32;
    loop {
        let r = unsafe { libc::waitpid(pid, &mut status, 0) };
        if r == pid {
            break;
        }
        if r < 0 && std::io::Error::last_os_error().kind() != std::io::ErrorKind::Interrupted {
            return Err("waitpid failed".into());
        }
    }
    if hung {
        if !ready {
            return Ok(Attempt::NotReady);
        }
        return Err(format!("forked child made no progress for {:?} after `ready`; it reported: {}", total_timeout, String::from_utf8_lossy(&data).replace('\n', " | ")));
    }
    let end = if libc::WIFSIGNALED(status) { End::Signaled(libc::WTERMSIG(status)) } else { End::Exited(libc::WEXITSTATUS(status)) };
    let text = String::from_utf8_lossy(&data).to_string();
    let mut lines: Vec<String> = text.lines().map(|l| l.to_string()).collect();
    if lines.first().map(|l| l == "ready").unwrap_or(false) {
        lines.remove(0);
    }
    Ok(Attempt::Done(end, lines))
}

/// Fork; run `f` in the child (it should end by `Report::die`); return how the child ended
/// and what it reported.  `Err` = harness trouble (fork failed, child hung).
pub fn run_killable(f: impl Fn(Report) -> ()) -> Result<Dead, String> {
    let mut forks = 0u32;
    loop {
        forks += 1;
        match one_fork(&f, Duration::from_secs(30), Duration::from_secs(300))? {
            Attempt::Done(end, lines) => return Ok(Dead { end, lines, forks }),
            Attempt::NotReady => {
                if forks >= 4 {
                    return Err("forked child never reported `ready` (4 attempts)".into());
                }
            }
        }
    }
}
