//! Reference model for a fragment of openCypher 9 write statements (C04): a statement IR,
//! its rendering as Cypher text, and a small interpreter over a `Dump`-shaped graph.
//!
//! Semantics implemented (openCypher 9, clause at a time): MATCH (comma patterns, paths
//! of up to two hops, bound variables, relationship isomorphism per clause), UNWIND of a
//! literal list, CREATE, MERGE (whole pattern, all matches, per input row, seeing the
//! effects of earlier rows; ON CREATE / ON MATCH SET), SET (property, `+=` map, label;
//! null removes), REMOVE (property, label), DELETE / DETACH DELETE (a node that still has
//! relationships when the statement ends makes the whole statement fail and change
//! nothing), WITH (variable pass-through), RETURN (property, labels(), type(), count(*)).
//!
//! The interpreter also reports when the outcome depends on row order, which openCypher
//! leaves open for SET (two rows writing different values to one property) and for reads
//! in RETURN of a property another row wrote: callers must not assert there.

use super::dump::{Dump, GEdge, GNode};
use std::collections::{BTreeMap, BTreeSet};

#[derive(Clone, Debug, PartialEq)]
pub enum V {
    I(i64),
    S(String),
    B(bool),
    F(f64),
    Null,
}

impl V {
    pub fn canon(&self) -> Option<String> {
        match self {
            V::I(i) => Some(format!("I:{i}")),
            V::S(s) => Some(format!("S:{s:?}")),
            V::B(b) => Some(format!("B:{b}")),
            V::F(f) => Some(format!("F:{:016x}", f.to_bits())),
            V::Null => None,
        }
    }
    pub fn from_canon(c: &str) -> V {
        if let Some(x) = c.strip_prefix("I:") {
            return x.parse().map(V::I).unwrap_or(V::Null);
        }
        if let Some(x) = c.strip_prefix("S:") {
            return V::S(x.trim_matches('"').to_string());
        }
        if let Some(x) = c.strip_prefix("B:") {
            return V::B(x == "true");
        }
        if let Some(x) = c.strip_prefix("F:") {
            return u64::from_str_radix(x, 16).map(|b| V::F(f64::from_bits(b))).unwrap_or(V::Null);
        }
        V::Null
    }
    pub fn lit(&self) -> String {
        match self {
            V::I(i) => format!("{i}"),
            V::S(s) => format!("'{s}'"),
            V::B(b) => format!("{b}"),
            V::F(f) => {
                let s = format!("{f:?}");
                if s.contains('.') || s.contains('e') { s } else { format!("{s}.0") }
            }
            V::Null => "null".into(),
        }
    }
}

#[derive(Clone, Debug, PartialEq)]
pub enum Expr {
    Lit(V),
    /// a value variable (UNWIND)
    Var(String),
    /// `var + n`
    VarPlus(String, i64),
    /// `var.key`
    Prop(String, String),
}

impl Expr {
    fn render(&self) -> String {
        match self {
            Expr::Lit(v) => v.lit(),
            Expr::Var(x) => x.clone(),
            Expr::VarPlus(x, n) => format!("{x} + {n}"),
            Expr::Prop(v, k) => format!("{v}.{k}"),
        }
    }
}

#[derive(Clone, Debug, PartialEq, Default)]
pub struct NodePat {
    pub var: Option<String>,
    pub labels: Vec<String>,
    pub props: Vec<(String, Expr)>,
}

#[derive(Clone, Debug, PartialEq)]
pub struct RelPat {
    pub var: Option<String>,
    pub ty: Option<String>,
    pub props: Vec<(String, Expr)>,
    /// true: `-[..]->`, false: `<-[..]-`
    pub out: bool,
}

#[derive(Clone, Debug, PartialEq)]
pub struct PathPat {
    pub start: NodePat,
    pub hops: Vec<(RelPat, NodePat)>,
}

#[derive(Clone, Debug, PartialEq)]
pub enum SetItem {
    Prop(String, String, Expr),
    Labels(String, Vec<String>),
    MapMerge(String, Vec<(String, Expr)>),
}

#[derive(Clone, Debug, PartialEq)]
pub enum RemItem {
    Prop(String, String),
    Label(String, String),
}

#[derive(Clone, Debug, PartialEq)]
pub enum RetItem {
    Prop(String, String),
    Labels(String),
    Type(String),
    Val(String),
    CountStar,
}

#[derive(Clone, Debug, PartialEq)]
pub enum Clause {
    Match(Vec<PathPat>),
    Unwind(Vec<V>, String),
    Create(Vec<PathPat>),
    Merge(PathPat, Vec<SetItem>, Vec<SetItem>),
    Set(Vec<SetItem>),
    Remove(Vec<RemItem>),
    Delete(Vec<String>, bool),
    With(Vec<String>),
    Return(Vec<RetItem>),
}

#[derive(Clone, Debug, PartialEq)]
pub struct Stmt {
    pub clauses: Vec<Clause>,
}

// ---------------------------------------------------------------------------------
// rendering

fn props_render(p: &[(String, Expr)]) -> String {
    if p.is_empty() {
        String::new()
    } else {
        format!(" {{{}}}", p.iter().map(|(k, e)| format!("{k}: {}", e.render())).collect::<Vec<_>>().join(", "))
    }
}

impl NodePat {
    pub fn render(&self) -> String {
        format!("({}{}{})", self.var.clone().unwrap_or_default(), self.labels.iter().map(|l| format!(":{l}")).collect::<String>(), props_render(&self.props))
    }
}

impl PathPat {
    pub fn node(n: NodePat) -> PathPat {
        PathPat { start: n, hops: vec![] }
    }
    pub fn render(&self) -> String {
        let mut s = self.start.render();
        for (r, n) in &self.hops {
            let inner = format!("{}{}{}", r.var.clone().unwrap_or_default(), r.ty.as_ref().map(|t| format!(":{t}")).unwrap_or_default(), props_render(&r.props));
            let inner = if inner.is_empty() { String::new() } else { format!("[{inner}]") };
            if r.out {
                s.push_str(&format!("-{inner}->"));
            } else {
                s.push_str(&format!("<-{inner}-"));
            }
            s.push_str(&n.render());
        }
        s
    }
}

fn set_render(items: &[SetItem]) -> String {
    items
        .iter()
        .map(|i| match i {
            SetItem::Prop(v, k, e) => format!("{v}.{k} = {}", e.render()),
            SetItem::Labels(v, ls) => format!("{v}{}", ls.iter().map(|l| format!(":{l}")).collect::<String>()),
            SetItem::MapMerge(v, m) => format!("{v} += {{{}}}", m.iter().map(|(k, e)| format!("{k}: {}", e.render())).collect::<Vec<_>>().join(", ")),
        })
        .collect::<Vec<_>>()
        .join(", ")
}

impl Stmt {
    pub fn render(&self) -> String {
        let mut parts: Vec<String> = Vec::new();
        for c in &self.clauses {
            parts.push(match c {
                Clause::Match(ps) => format!("MATCH {}", ps.iter().map(|p| p.render()).collect::<Vec<_>>().join(", ")),
                Clause::Unwind(list, x) => format!("UNWIND [{}] AS {x}", list.iter().map(|v| v.lit()).collect::<Vec<_>>().join(", ")),
                Clause::Create(ps) => format!("CREATE {}", ps.iter().map(|p| p.render()).collect::<Vec<_>>().join(", ")),
                Clause::Merge(p, oc, om) => {
                    let mut s = format!("MERGE {}", p.render());
                    if !oc.is_empty() {
                        s.push_str(&format!(" ON CREATE SET {}", set_render(oc)));
                    }
                    if !om.is_empty() {
                        s.push_str(&format!(" ON MATCH SET {}", set_render(om)));
                    }
                    s
                }
                Clause::Set(items) => format!("SET {}", set_render(items)),
                Clause::Remove(items) => format!(
                    "REMOVE {}",
                    items
                        .iter()
                        .map(|i| match i {
                            RemItem::Prop(v, k) => format!("{v}.{k}"),
                            RemItem::Label(v, l) => format!("{v}:{l}"),
                        })
                        .collect::<Vec<_>>()
                        .join(", ")
                ),
                Clause::Delete(vs, detach) => format!("{}DELETE {}", if *detach { "DETACH " } else { "" }, vs.join(", ")),
                Clause::With(vs) => format!("WITH {}", vs.join(", ")),
                Clause::Return(items) => format!(
                    "RETURN {}",
                    items
                        .iter()
                        .map(|i| match i {
                            RetItem::Prop(v, k) => format!("{v}.{k}"),
                            RetItem::Labels(v) => format!("labels({v})"),
                            RetItem::Type(v) => format!("type({v})"),
                            RetItem::Val(v) => v.clone(),
                            RetItem::CountStar => "count(*)".into(),
                        })
                        .collect::<Vec<_>>()
                        .join(", ")
                ),
            });
        }
        parts.join(" ")
    }
    /// Kinds of write clause present, e.g. "MATCH+SET", for messages and probes.
    pub fn shape(&self) -> String {
        self.clauses
            .iter()
            .map(|c| match c {
                Clause::Match(_) => "MATCH",
                Clause::Unwind(..) => "UNWIND",
                Clause::Create(_) => "CREATE",
                Clause::Merge(..) => "MERGE",
                Clause::Set(_) => "SET",
                Clause::Remove(_) => "REMOVE",
                Clause::Delete(_, true) => "DETACH_DELETE",
                Clause::Delete(_, false) => "DELETE",
                Clause::With(_) => "WITH",
                Clause::Return(_) => "RETURN",
            })
            .collect::<Vec<_>>()
            .join("+")
    }
}

// ---------------------------------------------------------------------------------
// interpreter

#[derive(Clone, Debug, PartialEq)]
pub enum Bind {
    Node(u64),
    Rel(u64),
    Val(V),
}

pub type Row = BTreeMap<String, Bind>;

#[derive(Clone, Debug, Default)]
pub struct ModelGraph {
    pub d: Dump,
    pub next_node: u64,
    pub next_edge: u64,
}

#[derive(Clone, Debug, Default)]
pub struct Applied {
    /// Result rows (cells canonical); empty when the statement has no RETURN.
    pub rows: Vec<Vec<String>>,
    pub has_return: bool,
    /// The statement must fail (and change nothing): reason.
    pub error: Option<String>,
    /// Two rows of one SET wrote different values to one property / RETURN reads a
    /// property that another row of the statement wrote: the result is not defined by
    /// openCypher 9 independent of row order.
    pub order_dependent_effect: bool,
    pub order_dependent_rows: bool,
    /// A construct the model does not define (reading a deleted entity …).
    pub undefined: Option<String>,
    pub created_nodes: usize,
    pub created_rels: usize,
    pub deleted_nodes: usize,
    pub deleted_rels: usize,
    pub merge_matched: usize,
    pub merge_created: usize,
    /// Largest number of matches one input row of a MERGE had (>1: MERGE must bind them all).
    pub merge_max_matches: usize,
    /// "node" / "rel": kind of the MERGE pattern that had several matches for one row.
    pub merge_kind: &'static str,
    pub input_rows_max: usize,
}

impl ModelGraph {
    pub fn from_dump(d: &Dump) -> ModelGraph {
        ModelGraph { d: d.clone(), next_node: d.nodes.keys().max().cloned().unwrap_or(0) + 1, next_edge: d.edges.keys().max().cloned().unwrap_or(0) + 1 }
    }
    pub fn canonical(&self) -> String {
        self.d.canonical()
    }
    fn new_node(&mut self, labels: &[String], props: BTreeMap<String, String>) -> u64 {
        let id = self.next_node;
        self.next_node += 1;
        self.d.nodes.insert(id, GNode { labels: labels.iter().cloned().collect(), props });
        id
    }
    fn new_edge(&mut self, src: u64, dst: u64, ty: &str, props: BTreeMap<String, String>) -> u64 {
        let id = self.next_edge;
        self.next_edge += 1;
        self.d.edges.insert(id, GEdge { src, dst, ty: ty.to_string(), props });
        id
    }
    pub fn degree(&self, n: u64) -> usize {
        self.d.edges.values().filter(|e| e.src == n || e.dst == n).count()
    }

    /// Apply a statement.  On `error` the graph is left exactly as it was.
    pub fn apply(&mut self, st: &Stmt) -> Applied {
        let backup = self.clone();
        let mut a = Applied::default();
        let mut rows: Vec<Row> = vec![Row::new()];
        let mut deleted_nodes: BTreeSet<u64> = BTreeSet::new();
        // (entity kind, id, key) -> (row indices, values) written by SET/MERGE actions in this statement
        let mut written: BTreeMap<(u8, u64, String), BTreeSet<Option<String>>> = BTreeMap::new();
        let mut ambiguous_reads: BTreeSet<(u8, u64, String)> = BTreeSet::new();
        for c in &st.clauses {
            a.input_rows_max = a.input_rows_max.max(rows.len());
            match c {
                Clause::Match(pats) => {
                    let mut out = Vec::new();
                    for r in &rows {
                        let mut partial = vec![(r.clone(), BTreeSet::new())];
                        for p in pats {
                            let mut next = Vec::new();
                            for (row, used) in &partial {
                                self.match_path(p, row, used, &mut next);
                            }
                            partial = next;
                        }
                        out.extend(partial.into_iter().map(|(r, _)| r));
                    }
                    rows = out;
                }
                Clause::Unwind(list, x) => {
                    let mut out = Vec::new();
                    for r in &rows {
                        for v in list {
                            let mut r2 = r.clone();
                            r2.insert(x.clone(), Bind::Val(v.clone()));
                            out.push(r2);
                        }
                    }
                    rows = out;
                }
                Clause::Create(pats) => {
                    for r in rows.iter_mut() {
                        for p in pats {
                            if let Err(e) = self.create_path(p, r, &mut a) {
                                a.undefined = Some(e);
                            }
                        }
                    }
                }
                Clause::Merge(p, on_create, on_match) => {
                    let mut out = Vec::new();
                    for r in &rows {
                        let mut found = Vec::new();
                        self.match_path(p, r, &BTreeSet::new(), &mut found);
                        if found.is_empty() {
                            let mut r2 = r.clone();
                            if let Err(e) = self.create_path(p, &mut r2, &mut a) {
                                a.undefined = Some(e);
                            }
                            a.merge_created += 1;
                            self.apply_set(on_create, &r2, &mut written, &mut a);
                            out.push(r2);
                        } else {
                            if found.len() > a.merge_max_matches {
                                a.merge_max_matches = found.len();
                                a.merge_kind = if p.hops.is_empty() { "node" } else { "rel" };
                            }
                            for (r2, _) in found {
                                a.merge_matched += 1;
                                self.apply_set(on_match, &r2, &mut written, &mut a);
                                out.push(r2);
                            }
                        }
                    }
                    rows = out;
                }
                Clause::Set(items) => {
                    let mut clause_writes: BTreeMap<(u8, u64, String), BTreeSet<Option<String>>> = BTreeMap::new();
                    for r in &rows {
                        self.apply_set(items, r, &mut clause_writes, &mut a);
                    }
                    for (k, vals) in clause_writes {
                        if vals.len() > 1 {
                            a.order_dependent_effect = true;
                        }
                        written.entry(k).or_default().extend(vals);
                    }
                }
                Clause::Remove(items) => {
                    for r in &rows {
                        for it in items {
                            match it {
                                RemItem::Prop(v, k) => match r.get(v) {
                                    Some(Bind::Node(id)) => {
                                        if let Some(n) = self.d.nodes.get_mut(id) {
                                            n.props.remove(k);
                                        }
                                        written.entry((0, *id, k.clone())).or_default().insert(None);
                                    }
                                    Some(Bind::Rel(id)) => {
                                        if let Some(e) = self.d.edges.get_mut(id) {
                                            e.props.remove(k);
                                        }
                                        written.entry((1, *id, k.clone())).or_default().insert(None);
                                    }
                                    _ => {}
                                },
                                RemItem::Label(v, l) => {
                                    if let Some(Bind::Node(id)) = r.get(v) {
                                        if let Some(n) = self.d.nodes.get_mut(id) {
                                            n.labels.remove(l);
                                        }
                                        written.entry((2, *id, l.clone())).or_default().insert(None);
                                    }
                                }
                            }
                        }
                    }
                }
                Clause::Delete(vars, detach) => {
                    for r in &rows {
                        for v in vars {
                            match r.get(v) {
                                Some(Bind::Rel(id)) => {
                                    if self.d.edges.remove(id).is_some() {
                                        a.deleted_rels += 1;
                                    }
                                }
                                Some(Bind::Node(id)) => {
                                    if *detach {
                                        let inc: Vec<u64> = self.d.edges.iter().filter(|(_, e)| e.src == *id || e.dst == *id).map(|(i, _)| *i).collect();
                                        for e in inc {
                                            self.d.edges.remove(&e);
                                            a.deleted_rels += 1;
                                        }
                                    }
                                    if self.d.nodes.remove(id).is_some() {
                                        a.deleted_nodes += 1;
                                        deleted_nodes.insert(*id);
                                    }
                                }
                                _ => {}
                            }
                        }
                    }
                }
                Clause::With(vars) => {
                    for r in rows.iter_mut() {
                        r.retain(|k, _| vars.contains(k));
                    }
                }
                Clause::Return(items) => {
                    a.has_return = true;
                    // how many rows bind each entity: a property written in this statement and read
                    // through an entity that several rows share is read at a row-order dependent time
                    let mut shared: BTreeMap<(u8, u64), usize> = BTreeMap::new();
                    for r in &rows {
                        let mut seen = BTreeSet::new();
                        for b in r.values() {
                            match b {
                                Bind::Node(id) => {
                                    seen.insert((0u8, *id));
                                }
                                Bind::Rel(id) => {
                                    seen.insert((1u8, *id));
                                }
                                _ => {}
                            }
                        }
                        for k in seen {
                            *shared.entry(k).or_insert(0) += 1;
                        }
                    }
                    for ((kind, id, _key), vals) in &written {
                        let ent = if *kind == 1 { (1u8, *id) } else { (0u8, *id) };
                        if vals.len() > 1 || shared.get(&ent).cloned().unwrap_or(0) > 1 {
                            ambiguous_reads.insert((*kind, *id, _key.clone()));
                        }
                    }
                    if items.iter().any(|i| matches!(i, RetItem::CountStar)) {
                        // aggregation with the other items as grouping keys
                        let mut groups: BTreeMap<Vec<String>, usize> = BTreeMap::new();
                        let mut order: Vec<Vec<String>> = Vec::new();
                        for r in &rows {
                            let key: Vec<String> = items.iter().filter(|i| !matches!(i, RetItem::CountStar)).map(|i| self.ret_cell(i, r, &ambiguous_reads, &deleted_nodes, &mut a)).collect();
                            if !groups.contains_key(&key) {
                                order.push(key.clone());
                            }
                            *groups.entry(key).or_insert(0) += 1;
                        }
                        let only_count = items.iter().all(|i| matches!(i, RetItem::CountStar));
                        if only_count && rows.is_empty() {
                            a.rows.push(items.iter().map(|_| "I:0".to_string()).collect());
                        }
                        for key in order {
                            let n = groups[&key];
                            let mut it = key.into_iter();
                            a.rows.push(items.iter().map(|i| if matches!(i, RetItem::CountStar) { format!("I:{n}") } else { it.next().unwrap_or_default() }).collect());
                        }
                    } else {
                        for r in &rows {
                            let cells = items.iter().map(|i| self.ret_cell(i, r, &ambiguous_reads, &deleted_nodes, &mut a)).collect();
                            a.rows.push(cells);
                        }
                    }
                }
            }
        }
        // a deleted node must not be an endpoint of a surviving relationship
        for e in self.d.edges.values() {
            if deleted_nodes.contains(&e.src) || deleted_nodes.contains(&e.dst) {
                a.error = Some("cannot delete a node that still has relationships".into());
            }
        }
        if a.error.is_some() {
            *self = backup;
            a.rows.clear();
        }
        a
    }

    fn eval(&self, e: &Expr, row: &Row) -> V {
        match e {
            Expr::Lit(v) => v.clone(),
            Expr::Var(x) => match row.get(x) {
                Some(Bind::Val(v)) => v.clone(),
                _ => V::Null,
            },
            Expr::VarPlus(x, n) => match row.get(x) {
                Some(Bind::Val(V::I(i))) => V::I(i + n),
                _ => V::Null,
            },
            Expr::Prop(v, k) => match row.get(v) {
                Some(Bind::Node(id)) => self.d.nodes.get(id).and_then(|n| n.props.get(k)).map(|c| V::from_canon(c)).unwrap_or(V::Null),
                Some(Bind::Rel(id)) => self.d.edges.get(id).and_then(|n| n.props.get(k)).map(|c| V::from_canon(c)).unwrap_or(V::Null),
                _ => V::Null,
            },
        }
    }

    fn node_ok(&self, id: u64, p: &NodePat, row: &Row) -> bool {
        let Some(n) = self.d.nodes.get(&id) else { return false };
        if !p.labels.iter().all(|l| n.labels.contains(l)) {
            return false;
        }
        p.props.iter().all(|(k, e)| {
            let want = self.eval(e, row).canon();
            want.is_some() && n.props.get(k) == want.as_ref()
        })
    }

    fn node_candidates(&self, p: &NodePat, row: &Row) -> Vec<u64> {
        if let Some(v) = &p.var {
            if let Some(b) = row.get(v) {
                return match b {
                    Bind::Node(id) if self.node_ok(*id, p, row) => vec![*id],
                    _ => vec![],
                };
            }
        }
        self.d.nodes.keys().cloned().filter(|id| self.node_ok(*id, p, row)).collect()
    }

    /// All extensions of `row` matching `path`; `used` = relationships already taken in this clause.
    fn match_path(&self, path: &PathPat, row: &Row, used: &BTreeSet<u64>, out: &mut Vec<(Row, BTreeSet<u64>)>) {
        for s in self.node_candidates(&path.start, row) {
            let mut r = row.clone();
            if let Some(v) = &path.start.var {
                r.insert(v.clone(), Bind::Node(s));
            }
            self.match_hops(path, 0, s, r, used.clone(), out);
        }
    }

    fn match_hops(&self, path: &PathPat, i: usize, at: u64, row: Row, used: BTreeSet<u64>, out: &mut Vec<(Row, BTreeSet<u64>)>) {
        if i == path.hops.len() {
            out.push((row, used));
            return;
        }
        let (rp, np) = &path.hops[i];
        for (eid, e) in &self.d.edges {
            if used.contains(eid) {
                continue;
            }
            let (from, to) = if rp.out { (e.src, e.dst) } else { (e.dst, e.src) };
            if from != at {
                continue;
            }
            if let Some(t) = &rp.ty {
                if &e.ty != t {
                    continue;
                }
            }
            if !rp.props.iter().all(|(k, ex)| {
                let want = self.eval(ex, &row).canon();
                want.is_some() && e.props.get(k) == want.as_ref()
            }) {
                continue;
            }
            if let Some(v) = &rp.var {
                if let Some(b) = row.get(v) {
                    if b != &Bind::Rel(*eid) {
                        continue;
                    }
                }
            }
            // target node
            let mut ok = self.node_ok(to, np, &row);
            if let Some(v) = &np.var {
                if let Some(b) = row.get(v) {
                    ok = ok && b == &Bind::Node(to);
                }
            }
            if !ok {
                continue;
            }
            let mut r = row.clone();
            if let Some(v) = &rp.var {
                r.insert(v.clone(), Bind::Rel(*eid));
            }
            if let Some(v) = &np.var {
                r.insert(v.clone(), Bind::Node(to));
            }
            let mut u2 = used.clone();
            u2.insert(*eid);
            self.match_hops(path, i + 1, to, r, u2, out);
        }
    }

    fn props_of(&self, p: &[(String, Expr)], row: &Row) -> BTreeMap<String, String> {
        let mut m = BTreeMap::new();
        for (k, e) in p {
            if let Some(c) = self.eval(e, row).canon() {
                m.insert(k.clone(), c);
            }
        }
        m
    }

    fn create_node_pat(&mut self, p: &NodePat, row: &mut Row, a: &mut Applied) -> Result<u64, String> {
        if let Some(v) = &p.var {
            match row.get(v) {
                Some(Bind::Node(id)) => {
                    if !self.d.nodes.contains_key(id) {
                        return Err("relationship to a deleted node".into());
                    }
                    return Ok(*id);
                }
                Some(_) => return Err("variable is not a node".into()),
                None => {}
            }
        }
        let props = self.props_of(&p.props, row);
        let id = self.new_node(&p.labels, props);
        a.created_nodes += 1;
        if let Some(v) = &p.var {
            row.insert(v.clone(), Bind::Node(id));
        }
        Ok(id)
    }

    fn create_path(&mut self, path: &PathPat, row: &mut Row, a: &mut Applied) -> Result<(), String> {
        let mut at = self.create_node_pat(&path.start, row, a)?;
        for (rp, np) in &path.hops {
            let to = self.create_node_pat(np, row, a)?;
            let props = self.props_of(&rp.props, row);
            let ty = rp.ty.clone().unwrap_or_default();
            let id = if rp.out { self.new_edge(at, to, &ty, props) } else { self.new_edge(to, at, &ty, props) };
            a.created_rels += 1;
            if let Some(v) = &rp.var {
                row.insert(v.clone(), Bind::Rel(id));
            }
            at = to;
        }
        Ok(())
    }

    fn set_one(&mut self, row: &Row, var: &str, key: &str, val: Option<String>, log: &mut BTreeMap<(u8, u64, String), BTreeSet<Option<String>>>, a: &mut Applied) {
        match row.get(var) {
            Some(Bind::Node(id)) => {
                if let Some(n) = self.d.nodes.get_mut(id) {
                    match &val {
                        Some(c) => {
                            n.props.insert(key.to_string(), c.clone());
                        }
                        None => {
                            n.props.remove(key);
                        }
                    }
                    log.entry((0, *id, key.to_string())).or_default().insert(val);
                } else {
                    a.undefined = Some("SET on a deleted node".into());
                }
            }
            Some(Bind::Rel(id)) => {
                if let Some(e) = self.d.edges.get_mut(id) {
                    match &val {
                        Some(c) => {
                            e.props.insert(key.to_string(), c.clone());
                        }
                        None => {
                            e.props.remove(key);
                        }
                    }
                    log.entry((1, *id, key.to_string())).or_default().insert(val);
                } else {
                    a.undefined = Some("SET on a deleted relationship".into());
                }
            }
            _ => {}
        }
    }

    fn apply_set(&mut self, items: &[SetItem], row: &Row, log: &mut BTreeMap<(u8, u64, String), BTreeSet<Option<String>>>, a: &mut Applied) {
        // right-hand sides of one SET clause are evaluated per item, in order (Neo4j) or all
        // before any write: generators only emit items whose reads and writes do not overlap
        for it in items {
            match it {
                SetItem::Prop(v, k, e) => {
                    let val = self.eval(e, row).canon();
                    self.set_one(row, v, k, val, log, a);
                }
                SetItem::MapMerge(v, m) => {
                    for (k, e) in m {
                        let val = self.eval(e, row).canon();
                        self.set_one(row, v, k, val, log, a);
                    }
                }
                SetItem::Labels(v, ls) => {
                    if let Some(Bind::Node(id)) = row.get(v) {
                        if let Some(n) = self.d.nodes.get_mut(id) {
                            for l in ls {
                                n.labels.insert(l.clone());
                                log.entry((2, *id, l.clone())).or_default().insert(Some("+".into()));
                            }
                        }
                    }
                }
            }
        }
    }

    fn ret_cell(&self, it: &RetItem, row: &Row, ambiguous: &BTreeSet<(u8, u64, String)>, deleted: &BTreeSet<u64>, a: &mut Applied) -> String {
        match it {
            RetItem::Prop(v, k) => match row.get(v) {
                Some(Bind::Node(id)) => {
                    if deleted.contains(id) {
                        a.undefined = Some("RETURN reads a deleted node".into());
                    }
                    if ambiguous.contains(&(0, *id, k.clone())) {
                        a.order_dependent_rows = true;
                    }
                    self.d.nodes.get(id).and_then(|n| n.props.get(k)).cloned().unwrap_or_else(|| "N".into())
                }
                Some(Bind::Rel(id)) => {
                    if !self.d.edges.contains_key(id) {
                        a.undefined = Some("RETURN reads a deleted relationship".into());
                    }
                    if ambiguous.contains(&(1, *id, k.clone())) {
                        a.order_dependent_rows = true;
                    }
                    self.d.edges.get(id).and_then(|n| n.props.get(k)).cloned().unwrap_or_else(|| "N".into())
                }
                _ => "N".into(),
            },
            RetItem::Labels(v) => match row.get(v) {
                Some(Bind::Node(id)) => {
                    if deleted.contains(id) {
                        a.undefined = Some("RETURN reads a deleted node".into());
                    }
                    if ambiguous.iter().any(|(kind, i, _)| *kind == 2 && i == id) {
                        a.order_dependent_rows = true;
                    }
                    let ls: Vec<String> = self.d.nodes.get(id).map(|n| n.labels.iter().map(|l| format!("S:{l:?}")).collect()).unwrap_or_default();
                    format!("A:[{}]", ls.join(","))
                }
                _ => "N".into(),
            },
            RetItem::Type(v) => match row.get(v) {
                Some(Bind::Rel(id)) => match self.d.edges.get(id) {
                    Some(e) => format!("S:{:?}", e.ty),
                    None => {
                        a.undefined = Some("RETURN reads a deleted relationship".into());
                        "N".into()
                    }
                },
                _ => "N".into(),
            },
            RetItem::Val(v) => match row.get(v) {
                Some(Bind::Val(x)) => x.canon().unwrap_or_else(|| "N".into()),
                _ => "N".into(),
            },
            RetItem::CountStar => String::new(),
        }
    }
}
