pub mod core;
pub mod model;
pub mod rng;
pub mod runner;
