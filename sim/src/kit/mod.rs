#![allow(dead_code)]
pub mod core;
pub mod dump;
pub mod exec;
pub mod model;
pub mod mvcc;
pub mod rng;
pub mod runner;
pub mod simfs;
pub mod stream;
pub mod pers;
pub mod points;
pub mod threads;
pub mod server;
pub mod crashpoints;
