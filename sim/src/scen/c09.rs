//! C09 — transactions commit first-committer-wins with increasing versions.
//!
//! Sim: 2–3 transaction actors over two nodes and one relationship.  Each actor runs
//! `begin(RC|SI); record writes (optionally with a real data write at the current
//! version); commit|abort; a second commit/abort attempt; possibly a further
//! transaction`.  The calls of all actors are interleaved at call granularity: the
//! interleaving is either *enumerated* (run indices below the size of the enumerated
//! families, see `FAMILIES`) or drawn from the scheduler stream.  An optional
//! maintenance actor fires `gc_auto()` / `gc_versions(w)` between calls.
//!
//! Oracle: an abstract first-committer-wins model stated over committed transactions
//! (`Model::fcw_conflict`): a commit of an active transaction must succeed iff no *other*
//! transaction with commit version > its start version wrote an entity it wrote; a
//! successful commit returns a version strictly greater than every earlier one; a
//! committed / aborted / conflict-failed transaction can neither commit nor abort; after
//! every step every active transaction's `get_node_for_txn` / `get_edge_for_txn` equals
//! the read at the version its level prescribes (SI: start version, RC: current) on the
//! same store, and for nodes also the reference snapshot.
//!
//! Signature: `C09/<commit|abort|txn_read>/<clause>/<class>`.

use crate::kit::core::*;
use crate::kit::model::*;
use crate::kit::mvcc::*;
use crate::kit::rng::Streams;
use samyama::graph::{EdgeId, GraphStore, NodeId};
use serde_json::{json, Map, Value};
use std::collections::BTreeMap;

pub struct C09;

/// Enumerated families: (name, transactions, writes per transaction, isolation levels enumerated)
const FAMILIES: [(&str, usize, usize, bool); 3] = [("2txn_1write_iso", 2, 1, true), ("2txn_2writes", 2, 2, false), ("3txn_1write", 3, 1, false)];

fn multinomial(counts: &[usize]) -> u64 {
    // (sum)! / prod(c!) computed incrementally with binomials
    let mut total = 0u64;
    let mut r = 1u64;
    for &c in counts {
        for i in 1..=c as u64 {
            total += 1;
            r = r * total / i;
        }
    }
    r
}

fn unrank_interleaving(counts: &[usize], mut idx: u64) -> Vec<usize> {
    let mut rem = counts.to_vec();
    let len: usize = rem.iter().sum();
    let mut out = Vec::with_capacity(len);
    for _ in 0..len {
        for a in 0..rem.len() {
            if rem[a] == 0 {
                continue;
            }
            rem[a] -= 1;
            let c = multinomial(&rem);
            if idx < c {
                out.push(a);
                break;
            }
            idx -= c;
            rem[a] += 1;
        }
    }
    out
}

fn family_size(f: &(&str, usize, usize, bool)) -> u64 {
    let (_, txns, writes, iso) = *f;
    let per_prog = 3u64.pow(writes as u32) * 2 * if iso { 2 } else { 1 };
    let calls = writes + 2;
    per_prog.pow(txns as u32) * multinomial(&vec![calls; txns])
}

fn enumerated_total(tier: Tier) -> u64 {
    match tier {
        Tier::Quick => family_size(&FAMILIES[0]),
        Tier::Thorough => FAMILIES.iter().map(family_size).sum(),
    }
}

fn preamble(events: &mut Vec<Value>) {
    events.push(json!({"op":"create_node","labels":[0],"props":{"k":{"i":0}}}));
    events.push(json!({"op":"create_node","labels":[1],"props":{}}));
    events.push(json!({"op":"create_edge","s":0,"t":1,"type":0,"props":{}}));
}

/// The `idx`-th case of the enumerated families (no PRNG involved).
fn enumerated_case(mut idx: u64) -> Option<(String, Vec<Value>)> {
    for f in FAMILIES.iter() {
        let size = family_size(f);
        if idx >= size {
            idx -= size;
            continue;
        }
        let (name, txns, writes, iso) = *f;
        let calls = writes + 2;
        let inter = multinomial(&vec![calls; txns]);
        let order = unrank_interleaving(&vec![calls; txns], idx % inter);
        let mut p = idx / inter;
        // programs
        let mut progs: Vec<Vec<Value>> = Vec::new();
        for a in 0..txns {
            let mut prog = Vec::new();
            let iso_v = if iso {
                let v = p % 2;
                p /= 2;
                v
            } else {
                1
            };
            prog.push(json!({"op":"begin","a":a,"iso":iso_v}));
            for _ in 0..writes {
                let x = p % 3;
                p /= 3;
                prog.push(json!({"op":"w","a":a,"x":x,"val":{"i": (a as u64) + 1}}));
            }
            let fin = p % 2;
            p /= 2;
            prog.push(json!({"op": if fin == 0 { "commit" } else { "abort" },"a":a}));
            progs.push(prog);
        }
        let mut events = Vec::new();
        preamble(&mut events);
        let mut pos = vec![0usize; txns];
        for a in order {
            events.push(progs[a][pos[a]].clone());
            pos[a] += 1;
        }
        return Some((name.to_string(), events));
    }
    None
}

struct Ctx<'a> {
    g: &'a GraphStore,
    m: &'a Model,
    step: usize,
    out: Vec<Violation>,
}

impl<'a> Ctx<'a> {
    fn fail(&mut self, sig: String, detail: String) {
        if self.out.len() < 6 && !self.out.iter().any(|v| v.signature == sig) {
            self.out.push(Violation::new(sig, format!("step {} (current_version {}): {}", self.step, self.m.current, detail), self.step));
        }
    }
}

fn check_txn_reads(c: &mut Ctx) {
    let g = c.g;
    let m = c.m;
    for ti in m.active_txns() {
        let t = &m.txns[ti];
        let iso = if t.si { "SI" } else { "RC" };
        let rv = if t.si { t.start } else { m.current };
        for id in 1..=m.max_node() + 1 {
            let got = node_of(g.get_node_for_txn(t.id, NodeId::new(id)));
            let at = read_node(g, id, rv);
            if got != at {
                c.fail(
                    format!("C09/txn_read/node/{iso}/differs_from_read_at_prescribed_version"),
                    format!("{iso} transaction {} (began at version {}): get_node_for_txn({id}) = {} but get_node_at_version({id}, {rv}) = {}", t.id, t.start, show_n(&got), show_n(&at)),
                );
            }
            let want = if rv < m.current {
                m.snaps.get(&rv).and_then(|s| s.nodes.get(&id)).cloned()
            } else {
                m.nodes.get(&id).filter(|n| n.alive).map(|n| n.st.clone())
            };
            if got != want {
                c.fail(
                    format!("C09/txn_read/node/{iso}/differs_from_state_at_prescribed_version"),
                    format!("{iso} transaction {} (began at version {}): reads node {id} as {} but its state at version {rv} is {}", t.id, t.start, show_n(&got), show_n(&want)),
                );
            }
        }
        for id in 1..=m.max_edge() + 1 {
            let got = edge_of(g.get_edge_for_txn(t.id, EdgeId::new(id)));
            let at = read_edge(g, id, rv);
            if got != at {
                c.fail(
                    format!("C09/txn_read/edge/{iso}/differs_from_read_at_prescribed_version"),
                    format!("{iso} transaction {} (began at version {}): get_edge_for_txn({id}) = {} but get_edge_at_version({id}, {rv}) = {}", t.id, t.start, show_e(&got), show_e(&at)),
                );
            }
        }
    }
}

fn status_name(s: MStatus) -> &'static str {
    match s {
        MStatus::Active => "active",
        MStatus::Committed => "committed",
        MStatus::Aborted => "aborted",
        MStatus::ConflictAborted => "failed_commit",
    }
}

impl Scenario for C09 {
    fn id(&self) -> &'static str {
        "C09"
    }
    fn runs(&self, tier: Tier) -> u64 {
        match tier {
            Tier::Quick => enumerated_total(Tier::Quick) + 30_000,
            Tier::Thorough => enumerated_total(Tier::Thorough) + 1_500_000,
        }
    }
    fn rule(&self) -> &'static str {
        "two nodes and one relationship are created at version 1; 2-3 transaction actors each run begin(RC|SI), 0-3 recorded writes over {n1,n2,e1} (half of them with a real set_node_property/set_edge_property at the current version), commit|abort, a second commit/abort attempt, and sometimes a further transaction; a maintenance actor may fire gc_auto/gc_versions. Run indices below the enumerated total are the exhaustive enumeration (by unranking, no PRNG) of all programs x all interleavings of the families listed in extra evidence (quick: 2 transactions x [begin(iso), 1 write, commit|abort]; thorough adds 2 transactions x 2 writes and 3 transactions x 1 write); the remaining runs draw programs from the workload stream and the interleaving from the scheduler stream. Non-trivial = two transactions were active at the same time and a commit was attempted with a non-empty write set. Distinct = hash of the sequence of (actor, call kind, written entity), i.e. distinct interleavings of distinct programs."
    }
    fn real_components(&self) -> Vec<&'static str> {
        vec!["samyama::graph::GraphStore: begin_transaction, txn_write_node, txn_write_edge, commit_transaction, abort_transaction, get_node_for_txn, get_edge_for_txn, get_node_at_version, get_edge_at_version, set_node_property, set_edge_property, gc_auto, gc_versions"]
    }
    fn assumptions(&self) -> Vec<&'static str> {
        vec![
            "the abstract rule: an active transaction T may commit iff no other transaction with commit version > T.start_version has a write set (as of its commit) intersecting T's write set (as of T's commit attempt)",
            "writes recorded on a finished transaction are ignored by the model (it can never commit)",
            "abort of an active transaction is expected to succeed but a refusal is not reported (the statement does not speak of it)",
            "reads of finished transactions are not checked",
            "no entity is deleted, so identity by id is unambiguous",
        ]
    }
    fn required_probes(&self, _tier: Tier) -> Vec<&'static str> {
        vec!["commit_conflict_node", "commit_conflict_edge", "commit_ok_after_overlap", "second_attempt_on_finished", "later_beginner_commits_first", "si_reads_older_than_current", "finish_attempt_after_gc_forgot_txn"]
    }
    fn extra_evidence(&self, tier: Tier) -> Map<String, Value> {
        let mut m = Map::new();
        let n = match tier {
            Tier::Quick => 1,
            Tier::Thorough => FAMILIES.len(),
        };
        let mut fams = Vec::new();
        for f in FAMILIES.iter().take(n) {
            fams.push(json!({"family": f.0, "transactions": f.1, "writes_per_txn": f.2, "isolation_levels_enumerated": f.3, "cases_enumerated_exhaustively": family_size(f)}));
        }
        m.insert("enumerated_families".into(), json!(fams));
        m.insert("enumerated_total".into(), json!(enumerated_total(tier)));
        m.insert(
            "interleaving_space_note".into(),
            json!("the families above are enumerated completely (programs x interleavings); the space of the random part (3 actors x up to 7 calls, 15!/(5!)^3 = 756756 orders for 3x5 calls alone, times programs) is sampled — distinct_nontrivial in coverage is the number of distinct (program, interleaving) classes reached"),
        );
        m
    }
    fn generate(&self, s: &mut Streams, run_index: u64, tier: Tier) -> Case {
        let mut case = Case::new("C09");
        if run_index < enumerated_total(tier) {
            if let Some((family, events)) = enumerated_case(run_index) {
                case.knobs.insert("family".into(), json!(family));
                case.events = events;
                return case;
            }
        }
        case.knobs.insert("family".into(), json!("random"));
        let actors = 2 + s.knobs.usize_below(2);
        let with_gc = s.knobs.chance(1, 3);
        let data_writes = s.knobs.chance(2, 3);
        // programs
        let mut progs: Vec<Vec<Value>> = Vec::new();
        for a in 0..actors {
            let mut prog = Vec::new();
            let txns = 1 + s.workload.usize_below(2);
            for _ in 0..txns {
                prog.push(json!({"op":"begin","a":a,"iso":s.workload.below(2)}));
                let nw = s.workload.short_len(0, 3);
                for _ in 0..nw {
                    let val = if data_writes && s.workload.chance(1, 2) { gen_small_value(&mut s.workload) } else { Value::Null };
                    prog.push(json!({"op":"w","a":a,"x":s.workload.below(3),"val":val}));
                }
                prog.push(json!({"op": if s.workload.chance(3, 4) { "commit" } else { "abort" },"a":a}));
                if s.workload.chance(1, 2) {
                    prog.push(json!({"op": if s.workload.chance(1, 2) { "commit" } else { "abort" },"a":a}));
                }
            }
            progs.push(prog);
        }
        if with_gc {
            let mut prog = Vec::new();
            for _ in 0..1 + s.fault.usize_below(2) {
                prog.push(if s.fault.chance(2, 3) { json!({"op":"gc_auto"}) } else { json!({"op":"gc","w":s.fault.below(8)}) });
            }
            progs.push(prog);
        }
        preamble(&mut case.events);
        let mut pos = vec![0usize; progs.len()];
        loop {
            let runnable: Vec<usize> = (0..progs.len()).filter(|a| pos[*a] < progs[*a].len()).collect();
            if runnable.is_empty() {
                break;
            }
            let a = runnable[s.sched.usize_below(runnable.len())];
            case.events.push(progs[a][pos[a]].clone());
            pos[a] += 1;
        }
        case
    }
    fn shrink_event(&self, ev: &Value) -> Vec<Value> {
        match op(ev) {
            "w" if !ev["val"].is_null() => {
                let mut e = ev.clone();
                e["val"] = Value::Null;
                vec![e]
            }
            "gc" => vec![json!({"op":"gc_auto"})],
            _ => vec![],
        }
    }
    fn stack_mb(&self) -> usize {
        8
    }
    fn execute(&self, case: &Case) -> Outcome {
        let mut o = Outcome::new();
        let mut g = GraphStore::new();
        let mut m = Model::default();
        let lim = Limits { max_nodes: 2, max_edges: 1, max_active_txns: 4, max_txns: 8 };
        let mut actor_txn: BTreeMap<u64, usize> = BTreeMap::new();
        let mut sig_parts: Vec<String> = Vec::new();
        let mut overlapped = false;
        let mut commit_with_writes = false;
        let mut gc_ran_at_txn_count: Option<usize> = None;
        let mut forgotten: Vec<usize> = Vec::new();
        'outer: for (step, ev) in case.events.iter().enumerate() {
            let kind = op(ev).to_string();
            let a = u(ev, "a");
            // translate the actor-addressed call into shared-grammar events
            let mut calls: Vec<Value> = Vec::new();
            match kind.as_str() {
                "create_node" | "create_edge" | "gc_auto" => calls.push(ev.clone()),
                // an explicit collection is only *safe* up to gc_watermark() (a higher watermark may
                // legitimately take away what an older active transaction reads — C08 protects only
                // reads at or above the watermark), so the maintenance actor stays at or below it
                "gc" => calls.push(json!({"op":"gc","w": u(ev, "w") % (g.gc_watermark() + 1)})),
                "begin" => {
                    if let Some(ti) = actor_txn.get(&a) {
                        if m.txns[*ti].status == MStatus::Active {
                            continue;
                        }
                    }
                    calls.push(json!({"op":"begin","iso":u(ev,"iso")}));
                }
                "w" => {
                    let Some(ti) = actor_txn.get(&a).cloned() else { continue };
                    let x = u(ev, "x") % 3;
                    if !ev["val"].is_null() && m.txns[ti].status == MStatus::Active {
                        if x < 2 {
                            calls.push(json!({"op":"set_prop","n":x,"key":0,"val":ev["val"].clone()}));
                        } else {
                            calls.push(json!({"op":"set_eprop","e":0,"key":0,"val":ev["val"].clone()}));
                        }
                    }
                    calls.push(json!({"op":"txn_write","t":ti,"kind": if x < 2 { "n" } else { "e" },"x": if x < 2 { x } else { 0 }}));
                }
                "commit" | "abort" => {
                    let Some(ti) = actor_txn.get(&a).cloned() else { continue };
                    calls.push(json!({"op": if kind == "commit" { "txn_commit" } else { "txn_abort" },"t":ti}));
                }
                _ => continue,
            }
            let mut performed = false;
            for call in &calls {
                let active_before = m.active_txns();
                let ap = apply(call, &mut g, &mut m, &lim);
                match &ap {
                    Applied::Skipped => continue,
                    Applied::Refused { kind, what, detail } => {
                        o.violate(Violation::new(format!("C09/harness/{kind}/{what}"), detail.clone(), step));
                        break 'outer;
                    }
                    Applied::Done { kind: k, .. } => {
                        performed = true;
                        if k == "begin" {
                            let ti = m.txns.len() - 1;
                            actor_txn.insert(a, ti);
                            if !active_before.is_empty() {
                                overlapped = true;
                            }
                        }
                        if k == "gc_auto" || k == "gc" {
                            gc_ran_at_txn_count = Some(m.txns.len());
                            // transactions that were finished when the collection ran may have been forgotten
                            for (ti, t) in m.txns.iter().enumerate() {
                                if t.status != MStatus::Active && !g.active_transactions.contains_key(&t.id) && !forgotten.contains(&ti) {
                                    forgotten.push(ti);
                                }
                            }
                        }
                    }
                    Applied::TxnFinish { kind: k, ti, was, expected_ok, conflict, real_ok, real_version, prev_current, err, .. } => {
                        performed = true;
                        let t = &m.txns[*ti];
                        let is_commit = k == "txn_commit";
                        let wsz = t.wn.len() + t.we.len();
                        if is_commit && *was == MStatus::Active && wsz > 0 {
                            commit_with_writes = true;
                        }
                        if *was != MStatus::Active {
                            o.probe("second_attempt_on_finished");
                            if forgotten.contains(ti) {
                                o.probe("finish_attempt_after_gc_forgot_txn");
                            }
                            if *real_ok {
                                o.violate(Violation::new(
                                    format!("C09/{}/finished_txn_accepted/{}", if is_commit { "commit" } else { "abort" }, status_name(*was)),
                                    format!("step {step}: transaction {} was already {}, a further {} returned Ok({:?})", t.id, status_name(*was), if is_commit { "commit" } else { "abort" }, real_version),
                                    step,
                                ));
                                break 'outer;
                            }
                        } else if is_commit {
                            match (expected_ok, real_ok) {
                                (true, true) => {
                                    if active_before.len() > 1 {
                                        o.probe("commit_ok_after_overlap");
                                    }
                                }
                                (false, false) => {
                                    let (what, _) = conflict.unwrap();
                                    o.probe(&format!("commit_conflict_{what}"));
                                    // was the winner a transaction that began later?
                                    for c2 in &m.txns {
                                        if c2.id != t.id && c2.commit_version.map(|cv| cv > t.start).unwrap_or(false) && c2.id > t.id {
                                            o.probe("later_beginner_commits_first");
                                        }
                                    }
                                }
                                (false, true) => {
                                    let (what, id) = conflict.unwrap();
                                    o.violate(Violation::new(
                                        format!("C09/commit/accepted_despite_conflict/{what}"),
                                        format!(
                                            "step {step}: transaction {} began at version {} and wrote {what} {id}, which another transaction committed after that; its commit returned Ok({:?}). write sets: nodes {:?} relationships {:?}",
                                            t.id, t.start, real_version, t.wn, t.we
                                        ),
                                        step,
                                    ));
                                    break 'outer;
                                }
                                (true, false) => {
                                    let class = if err.contains("onflict") { "reported_conflict" } else { "other_error" };
                                    o.violate(Violation::new(
                                        format!("C09/commit/refused_without_conflict/{class}"),
                                        format!(
                                            "step {step}: transaction {} (began at version {}, nodes {:?} relationships {:?}) conflicts with no transaction committed after it began, commit failed: {err}",
                                            t.id, t.start, t.wn, t.we
                                        ),
                                        step,
                                    ));
                                    break 'outer;
                                }
                            }
                            if let Some(v) = real_version {
                                if *v <= *prev_current {
                                    o.violate(Violation::new(
                                        "C09/commit/version_not_increasing",
                                        format!("step {step}: commit of transaction {} returned version {v}, not above the previous version {prev_current}", t.id),
                                        step,
                                    ));
                                    break 'outer;
                                }
                            }
                        }
                    }
                }
            }
            if !performed {
                continue;
            }
            o.steps += 1;
            sig_parts.push(format!("{a}{kind}{}", if kind == "w" { format!("{}", u(ev, "x") % 3) } else if kind == "begin" { format!("{}", u(ev, "iso") % 2) } else { String::new() }));
            for ti in m.active_txns() {
                if m.txns[ti].si && m.txns[ti].start < m.current {
                    o.probe("si_reads_older_than_current");
                }
            }
            let mut c = Ctx { g: &g, m: &m, step, out: Vec::new() };
            check_txn_reads(&mut c);
            if !c.out.is_empty() {
                for v in c.out {
                    o.violate(v);
                }
                break;
            }
        }
        let _ = gc_ran_at_txn_count;
        o.nontrivial = overlapped && commit_with_writes;
        o.class_key = hash_str(&sig_parts.join(","));
        let statuses: Vec<String> = m.txns.iter().map(|t| format!("{}:{}:{:?}", t.id, status_name(t.status), t.commit_version)).collect();
        o.state_hash = hash_str(&format!("{:?}|{}|{:?}", statuses, g.current_version, read_vector(&g, &m, m.current)));
        tally(&o);
        o
    }
}
