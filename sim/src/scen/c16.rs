//! C16 — recovery returns exactly the acknowledged persisted state.
//!
//! Sim: one simulated process = one `PersistenceManager` (RocksDB real on tmpfs, the
//! samyama WAL through the `verif::fs` facade in passthrough mode).  A history of
//! `persist_*` operations for one tenant with `flush` / `checkpoint` / clean `restart`
//! events is executed once without a crash (which also lists the H4 points it passes) and
//! then once per crash position: at every H4 point inside an operation and after every
//! operation.  Two kinds of crash, chosen per case (`real_kill` knob):
//! * unwind: unwind at the point, drop the manager (RocksDB and the WAL close cleanly),
//!   reopen on the same directory, `recover(tenant)`;
//! * real kill: the process up to the crash runs in a `fork()`ed child (`kit::forkproc`)
//!   that opens the manager, executes the history and dies by `_exit` at the point / after
//!   the operation — nothing is closed, flushed or dropped; it reports every acknowledged
//!   operation through a pipe.  The parent reaps it, reopens the directory and recovers.
//!   This kind also has the position "after the last operation" (a kill instead of the
//!   clean shutdown of the crash-free execution).
//! Oracle: a ModelKv of the acknowledged operations; the operation in flight at the crash
//! may be applied wholly or not at all.
//!
//! Identifier domain: per case a pool of 5 ids (knob `ids`) drawn from three classes — small
//! (1..9), two hex digits (10..255, most of them with a digit a–f) and large (0xabcdef,
//! 2^32+x, 2^63+x, u64::MAX−k, …); one case in four keeps the old pool 1..5.  Entities are
//! still referred to by rank in the pool, so events survive shrinking.
//!
//! Volume: a `bulk` event (a minority of the cases, half of the real-kill ones) is a batch
//! load executed as ONE step of the history: `count` node creations (+ `edges` relationship
//! creations) through the same persist_* calls, either many small entities (100..300) or a
//! few with a 2–3 KiB string property, i.e. 10–30 KiB of log appended without a flush.  The
//! H4 points inside the batch are not crash positions (the batch is acknowledged as a whole
//! when its last creation returned; a crash inside it would leave a prefix, which the
//! in-flight rule "wholly or not at all" does not describe) — the crash positions after it
//! are what it is for: a kill there happens with the log's user-space buffer spilled several
//! times and the rest of the log still in process memory.

use crate::kit::core::*;
use crate::kit::forkproc::{self, End, Report};
use crate::kit::model::*;
use crate::kit::pers::*;
use crate::kit::points::{self, PointCtl};
use crate::kit::rng::{Rng, Streams};
use samyama::persistence::{PersistenceManager, ResourceQuotas};
use serde_json::{json, Map, Value};
use std::collections::{BTreeMap, BTreeSet};
use std::path::Path;
use std::sync::atomic::{AtomicBool, AtomicU64, Ordering};
use std::sync::Arc;

pub struct C16;

const LABELS: [&str; 3] = ["A", "B", "C"];
const TYPES: [&str; 2] = ["T", "U"];
const KEYS: [&str; 3] = ["k", "m", "z"];
const MAX_ID: u64 = 5;
/// first id used by a `bulk` event (ids BULK_BASE.., skipping live ones)
const BULK_BASE: u64 = 0x100;
const BULK_MAX: u64 = 400;
const TENANTS: [&str; 2] = ["default", "t1"];

#[derive(Clone, Default)]
struct Model {
    nodes: BTreeMap<u64, CNode>,
    edges: BTreeMap<u64, CEdge>,
    /// property maps in trace (JSON) encoding, to build the full map of an update
    node_pj: BTreeMap<u64, Map<String, Value>>,
    edge_pj: BTreeMap<u64, Map<String, Value>>,
    /// earlier acknowledged contents of the current incarnation of an entity
    node_versions: BTreeMap<u64, Vec<CNode>>,
    edge_versions: BTreeMap<u64, Vec<CEdge>>,
    dead_nodes: BTreeSet<u64>,
    dead_edges: BTreeSet<u64>,
}

impl Model {
    fn same_state(&self, o: &Model) -> bool {
        self.nodes == o.nodes && self.edges == o.edges
    }
    fn canon(&self) -> String {
        format!("{:?}|{:?}", self.nodes, self.edges)
    }
}

#[derive(Clone, Debug)]
enum Op {
    CreateNode { id: u64, labels: Vec<String>, props: Map<String, Value> },
    CreateEdge { id: u64, src: u64, dst: u64, ty: String, props: Map<String, Value> },
    UpdateNode { id: u64, full: Map<String, Value> },
    UpdateEdge { id: u64, full: Map<String, Value>, version: u64 },
    DeleteNode { id: u64 },
    DeleteEdge { id: u64 },
    /// batch load: the creations, in order (each a CreateNode / CreateEdge)
    Bulk { creates: Vec<Op> },
    Flush,
    Checkpoint,
    Restart,
}

impl Op {
    fn kind(&self) -> &'static str {
        match self {
            Op::CreateNode { .. } => "create_node",
            Op::CreateEdge { .. } => "create_edge",
            Op::UpdateNode { .. } => "update_node",
            Op::UpdateEdge { .. } => "update_edge",
            Op::DeleteNode { .. } => "delete_node",
            Op::DeleteEdge { .. } => "delete_edge",
            Op::Bulk { .. } => "bulk",
            Op::Flush => "flush",
            Op::Checkpoint => "checkpoint",
            Op::Restart => "restart",
        }
    }
}

fn obj(v: &Value) -> Map<String, Value> {
    v.as_object().cloned().unwrap_or_default()
}

/// Turn a generated event into a concrete operation against the current model state.
/// Entities are referred to by rank modulo what exists, so events stay meaningful when
/// others are deleted by the shrinker.
fn resolve(ev: &Value, m: &Model, pool: &[u64]) -> Option<(Op, String)> {
    match op(ev) {
        "create_node" => {
            let free: Vec<u64> = pool.iter().cloned().filter(|i| !m.nodes.contains_key(i)).collect();
            let id = pick(&free, u(ev, "id"))?;
            let labels: Vec<String> = ev["labels"].as_array().map(|a| a.iter().map(|x| LABELS[(x.as_u64().unwrap_or(0) % 3) as usize].to_string()).collect()).unwrap_or_default();
            let reused = if m.dead_nodes.contains(&id) { "r" } else { "" };
            Some((Op::CreateNode { id, labels, props: obj(&ev["props"]) }, format!("{reused}")))
        }
        "create_edge" => {
            let free: Vec<u64> = pool.iter().cloned().filter(|i| !m.edges.contains_key(i)).collect();
            let id = pick(&free, u(ev, "id"))?;
            let live: Vec<u64> = m.nodes.keys().cloned().collect();
            let src = pick(&live, u(ev, "s"))?;
            let dst = pick(&live, u(ev, "t"))?;
            let ty = TYPES[(u(ev, "type") % 2) as usize].to_string();
            let rank = |x: u64| live.iter().position(|y| *y == x).unwrap_or(0);
            Some((Op::CreateEdge { id, src, dst, ty: ty.clone(), props: obj(&ev["props"]) }, format!("{}>{}:{ty}", rank(src), rank(dst))))
        }
        "update_node" => {
            let live: Vec<u64> = m.nodes.keys().cloned().collect();
            let id = pick(&live, u(ev, "n"))?;
            // the full property map after the update: under either reading of "new
            // properties to set" (merge or replace) the entity ends with exactly this map
            let mut full = m.node_pj.get(&id).cloned().unwrap_or_default();
            for (k, v) in obj(&ev["set"]) {
                full.insert(k, v);
            }
            Some((Op::UpdateNode { id, full }, format!("{}", live.iter().position(|y| *y == id).unwrap_or(0))))
        }
        "update_edge" => {
            let live: Vec<u64> = m.edges.keys().cloned().collect();
            let id = pick(&live, u(ev, "e"))?;
            let mut full = m.edge_pj.get(&id).cloned().unwrap_or_default();
            for (k, v) in obj(&ev["set"]) {
                full.insert(k, v);
            }
            Some((Op::UpdateEdge { id, full, version: u(ev, "version") }, format!("{}", live.iter().position(|y| *y == id).unwrap_or(0))))
        }
        "delete_node" => {
            let live: Vec<u64> = m.nodes.keys().cloned().collect();
            let id = pick(&live, u(ev, "n"))?;
            Some((Op::DeleteNode { id }, format!("{}", live.iter().position(|y| *y == id).unwrap_or(0))))
        }
        "delete_edge" => {
            let live: Vec<u64> = m.edges.keys().cloned().collect();
            let id = pick(&live, u(ev, "e"))?;
            Some((Op::DeleteEdge { id }, format!("{}", live.iter().position(|y| *y == id).unwrap_or(0))))
        }
        "bulk" => {
            // `count` nodes with the first free ids from BULK_BASE on, each with an integer
            // property and (len > 0) a string of `len` characters that differs per node;
            // then `edges` relationships chaining them
            let count = u(ev, "count").clamp(1, BULK_MAX);
            let len = u(ev, "len").min(4000) as usize;
            let n_edges = u(ev, "edges").min(count.saturating_sub(1));
            let ch = u(ev, "ch");
            let mut creates = Vec::new();
            let mut ids = Vec::new();
            let mut id = BULK_BASE;
            while (ids.len() as u64) < count {
                if !m.nodes.contains_key(&id) {
                    ids.push(id);
                }
                id += 1;
            }
            for (i, id) in ids.iter().enumerate() {
                let mut props = Map::new();
                props.insert("k".into(), json!({"i": i as u64}));
                if len > 0 {
                    let c = (b'a' + ((ch + i as u64) % 26) as u8) as char;
                    props.insert("z".into(), json!({"s": format!("{i}:{}", c.to_string().repeat(len))}));
                }
                creates.push(Op::CreateNode { id: *id, labels: vec![LABELS[i % 3].to_string()], props });
            }
            let mut eid = BULK_BASE;
            for j in 0..n_edges as usize {
                while m.edges.contains_key(&eid) {
                    eid += 1;
                }
                let mut props = Map::new();
                props.insert("m".into(), json!({"i": j as u64}));
                creates.push(Op::CreateEdge { id: eid, src: ids[j], dst: ids[j + 1], ty: TYPES[j % 2].to_string(), props });
                eid += 1;
            }
            let shape = if len >= 1024 { "big" } else { "small" };
            Some((Op::Bulk { creates }, format!("{shape}{}", if n_edges > 0 { "+e" } else { "" })))
        }
        "flush" => Some((Op::Flush, String::new())),
        "checkpoint" => Some((Op::Checkpoint, String::new())),
        "restart" => Some((Op::Restart, String::new())),
        _ => None,
    }
}

fn apply(o: &Op, m: &mut Model) {
    match o {
        Op::CreateNode { id, labels, props } => {
            let (_, bm) = props_from(&Value::Object(props.clone()));
            m.nodes.insert(*id, CNode { labels: labels.iter().cloned().collect(), props: bm });
            m.node_pj.insert(*id, props.clone());
            m.node_versions.insert(*id, Vec::new());
        }
        Op::CreateEdge { id, src, dst, ty, props } => {
            let (_, bm) = props_from(&Value::Object(props.clone()));
            m.edges.insert(*id, CEdge { src: *src, dst: *dst, ty: ty.clone(), props: bm });
            m.edge_pj.insert(*id, props.clone());
            m.edge_versions.insert(*id, Vec::new());
        }
        Op::UpdateNode { id, full } => {
            let (_, bm) = props_from(&Value::Object(full.clone()));
            if let Some(n) = m.nodes.get_mut(id) {
                m.node_versions.entry(*id).or_default().push(n.clone());
                n.props = bm;
            }
            m.node_pj.insert(*id, full.clone());
        }
        Op::UpdateEdge { id, full, .. } => {
            let (_, bm) = props_from(&Value::Object(full.clone()));
            if let Some(e) = m.edges.get_mut(id) {
                m.edge_versions.entry(*id).or_default().push(e.clone());
                e.props = bm;
            }
            m.edge_pj.insert(*id, full.clone());
        }
        Op::DeleteNode { id } => {
            m.nodes.remove(id);
            m.node_pj.remove(id);
            m.node_versions.remove(id);
            m.dead_nodes.insert(*id);
        }
        Op::DeleteEdge { id } => {
            m.edges.remove(id);
            m.edge_pj.remove(id);
            m.edge_versions.remove(id);
            m.dead_edges.insert(*id);
        }
        Op::Bulk { creates } => {
            for c in creates {
                apply(c, m);
            }
        }
        Op::Flush | Op::Checkpoint | Op::Restart => {}
    }
}

fn exec(o: &Op, pm: &PersistenceManager, tenant: &str) -> Result<(), String> {
    let r = match o {
        Op::CreateNode { id, labels, props } => {
            let (pmap, _) = props_from(&Value::Object(props.clone()));
            pm.persist_create_node(tenant, &mk_node(*id, labels, pmap))
        }
        Op::CreateEdge { id, src, dst, ty, props } => {
            let (pmap, _) = props_from(&Value::Object(props.clone()));
            pm.persist_create_edge(tenant, &mk_edge(*id, *src, *dst, ty, pmap))
        }
        Op::UpdateNode { id, full } => {
            let (pmap, _) = props_from(&Value::Object(full.clone()));
            pm.persist_update_node_properties(tenant, *id, &pmap)
        }
        Op::UpdateEdge { id, full, version } => {
            let (pmap, _) = props_from(&Value::Object(full.clone()));
            pm.persist_update_edge_properties(tenant, *id, &pmap, *version)
        }
        Op::DeleteNode { id } => pm.persist_delete_node(tenant, *id),
        Op::DeleteEdge { id } => pm.persist_delete_edge(tenant, *id),
        Op::Bulk { creates } => {
            for c in creates {
                exec(c, pm, tenant)?;
            }
            return Ok(());
        }
        Op::Flush => pm.flush(),
        Op::Checkpoint => pm.checkpoint(),
        Op::Restart => Ok(()),
    };
    r.map_err(|e| e.to_string())
}

fn open(dir: &Path, tenant: &str) -> Result<PersistenceManager, String> {
    let pm = PersistenceManager::new(dir).map_err(|e| format!("open: {e}"))?;
    if tenant != "default" {
        // the tenant registry is in-memory only: a restarted process registers it again
        pm.tenants().create_tenant(tenant.to_string(), tenant.to_string(), Some(ResourceQuotas::unlimited())).map_err(|e| format!("create_tenant: {e}"))?;
    }
    Ok(pm)
}

/// Differences between what `recover` returned and one candidate state, each as
/// (signature suffix, detail).
fn diffs(want: &Model, hist: &[&Model], got_n: &BTreeMap<u64, Vec<CNode>>, got_e: &BTreeMap<u64, Vec<CEdge>>) -> Vec<(String, String)> {
    let mut out = Vec::new();
    let ever_dead_n = |id: &u64| hist.iter().any(|h| h.dead_nodes.contains(id));
    let ever_dead_e = |id: &u64| hist.iter().any(|h| h.dead_edges.contains(id));
    for (id, w) in &want.nodes {
        match got_n.get(id) {
            None => out.push(("node/missing".to_string(), format!("node {id} acknowledged as persisted, recover does not return it"))),
            Some(v) if v.len() > 1 => out.push(("node/duplicate".to_string(), format!("node {id} returned {} times", v.len()))),
            Some(v) => {
                let g = &v[0];
                if g != w {
                    let stale = hist.iter().any(|h| h.node_versions.get(id).map(|vs| vs.contains(g)).unwrap_or(false));
                    let class = if g.labels != w.labels {
                        "node/wrong_labels"
                    } else if stale {
                        "node/stale_properties_after_update"
                    } else {
                        "node/wrong_properties"
                    };
                    out.push((class.to_string(), format!("node {id}: recovered {:?}, acknowledged state {:?}", g, w)));
                }
            }
        }
    }
    for id in got_n.keys() {
        if !want.nodes.contains_key(id) {
            let class = if ever_dead_n(id) { "node/resurrected" } else { "node/phantom" };
            out.push((class.to_string(), format!("node {id} returned by recover but not part of the acknowledged state")));
        }
    }
    for (id, w) in &want.edges {
        match got_e.get(id) {
            None => out.push(("edge/missing".to_string(), format!("edge {id} acknowledged as persisted, recover does not return it"))),
            Some(v) if v.len() > 1 => out.push(("edge/duplicate".to_string(), format!("edge {id} returned {} times", v.len()))),
            Some(v) => {
                let g = &v[0];
                if g != w {
                    let stale = hist.iter().any(|h| h.edge_versions.get(id).map(|vs| vs.contains(g)).unwrap_or(false));
                    let class = if g.src != w.src || g.dst != w.dst || g.ty != w.ty {
                        "edge/wrong_shape"
                    } else if stale {
                        "edge/stale_properties_after_update"
                    } else {
                        "edge/wrong_properties"
                    };
                    out.push((class.to_string(), format!("edge {id}: recovered {:?}, acknowledged state {:?}", g, w)));
                }
            }
        }
    }
    for id in got_e.keys() {
        if !want.edges.contains_key(id) {
            let class = if ever_dead_e(id) { "edge/resurrected" } else { "edge/phantom" };
            out.push((class.to_string(), format!("edge {id} returned by recover but not part of the acknowledged state")));
        }
    }
    out
}

/// The ids of this case (knob `ids`; cases recorded before the knob existed: 1..5).
fn id_pool(case: &Case) -> Vec<u64> {
    let mut v: Vec<u64> = case.knobs.get("ids").and_then(|x| x.as_array()).map(|a| a.iter().filter_map(|x| x.as_u64()).collect()).unwrap_or_default();
    v.sort();
    v.dedup();
    if v.is_empty() {
        v = (1..=MAX_ID).collect();
    }
    v
}

fn has_hex_letter(id: u64) -> bool {
    format!("{id:x}").bytes().any(|b| b.is_ascii_alphabetic())
}

/// What the newest file of the samyama log looks like on disk (read by the harness with a
/// reader of its own, before the directory is reopened): `Some(true)` = it ends inside a
/// record (a length prefix whose body is not, or not completely, in the file),
/// `Some(false)` = it holds only whole records (at least one), `None` = no or empty file.
fn wal_tail_torn(dir: &Path) -> Option<bool> {
    let mut newest: Option<(u64, std::path::PathBuf)> = None;
    for e in std::fs::read_dir(dir.join("wal")).ok()?.flatten() {
        let name = e.file_name().to_string_lossy().to_string();
        let Some(seq) = name.strip_prefix("wal-").and_then(|x| x.strip_suffix(".log")).and_then(|x| u64::from_str_radix(x, 16).ok()) else { continue };
        if newest.as_ref().map(|n| seq >= n.0).unwrap_or(true) {
            newest = Some((seq, e.path()));
        }
    }
    let bytes = std::fs::read(newest?.1).ok()?;
    if bytes.is_empty() {
        return None;
    }
    let mut pos = 0usize;
    while pos < bytes.len() {
        if pos + 4 > bytes.len() {
            return Some(true);
        }
        let len = u32::from_le_bytes([bytes[pos], bytes[pos + 1], bytes[pos + 2], bytes[pos + 3]]) as usize;
        if pos + 4 + len > bytes.len() {
            return Some(true);
        }
        pos += 4 + len;
    }
    Some(false)
}

#[derive(Clone, Copy, Debug, PartialEq)]
enum Crash {
    None,
    AtPoint(u64),
    /// after the j-th executed operation (1-based) has been acknowledged
    AfterOp(u64),
}

impl Crash {
    fn pin(&self, kill: bool) -> Value {
        let how = if kill { "kill" } else { "unwind" };
        match self {
            Crash::None => json!({"crash":"none"}),
            Crash::AtPoint(k) => json!({"crash":"point","k":k,"how":how}),
            Crash::AfterOp(j) => json!({"crash":"after_op","j":j,"how":how}),
        }
    }
    fn from_pin(p: &Value) -> (Crash, bool) {
        let kill = p.get("how").and_then(|x| x.as_str()) == Some("kill");
        match p.get("crash").and_then(|x| x.as_str()) {
            Some("point") => (Crash::AtPoint(u(p, "k")), kill),
            Some("after_op") => (Crash::AfterOp(u(p, "j")), kill),
            _ => (Crash::None, false),
        }
    }
}

// ------------------------------------------------------------------------------------
// The simulated process as a real child process (see kit::forkproc)

/// Point handler of the child: reports every point, dies at the chosen one.
struct KillAt {
    rep: Report,
    seen: AtomicU64,
    at: Option<u64>,
    /// inside a `bulk` step: points are neither counted nor crash positions
    paused: AtomicBool,
}

impl samyama::verif::PointHandler for KillAt {
    fn at(&self, name: &str) {
        if self.paused.load(Ordering::SeqCst) {
            return;
        }
        let i = self.seen.fetch_add(1, Ordering::SeqCst);
        if self.at == Some(i) {
            self.rep.line(&format!("kill {name}"));
            self.rep.die(forkproc::KILLED);
        }
        self.rep.line(&format!("point {name}"));
    }
}

/// Body of the child: open, run the history, die at the crash position WITHOUT closing
/// anything.  Records: `opened`, `restarted <step>`, `begin <step>`, `ack <step>`,
/// `err <step> <msg>`, `panic <step> <msg>`, `point <name>`, `kill <name>`, `openerr <msg>`,
/// `end`.  An `ack` is written after the operation returned Ok and before anything else
/// happens, so the set of `ack` records is exactly the set of acknowledged operations.
fn child_process(case: &Case, crash: Crash, dir: &Path, tenant: &str, rep: Report) -> ! {
    let h = Arc::new(KillAt { rep, seen: AtomicU64::new(0), at: if let Crash::AtPoint(k) = crash { Some(k) } else { None }, paused: AtomicBool::new(false) });
    samyama::verif::set_point_handler(Some(h.clone() as Arc<dyn samyama::verif::PointHandler>));
    let pool = id_pool(case);
    let mut pm = match open(dir, tenant) {
        Ok(p) => p,
        Err(e) => {
            rep.line(&format!("openerr {e}"));
            rep.die(0)
        }
    };
    rep.line("opened");
    let mut m = Model::default();
    let mut ops_done = 0u64;
    for (step, ev) in case.events.iter().enumerate() {
        let Some((o, _)) = resolve(ev, &m, &pool) else { continue };
        if let Op::Restart = o {
            drop(pm); // clean shutdown inside the child
            pm = match open(dir, tenant) {
                Ok(p) => p,
                Err(e) => {
                    rep.line(&format!("openerr {e}"));
                    rep.die(0)
                }
            };
            rep.line(&format!("restarted {step}"));
            continue;
        }
        rep.line(&format!("begin {step}"));
        h.paused.store(matches!(o, Op::Bulk { .. }), Ordering::SeqCst);
        let res = std::panic::catch_unwind(std::panic::AssertUnwindSafe(|| exec(&o, &pm, tenant)));
        h.paused.store(false, Ordering::SeqCst);
        match res {
            Ok(Ok(())) => {
                apply(&o, &mut m);
                ops_done += 1;
                rep.line(&format!("ack {step}"));
                if crash == Crash::AfterOp(ops_done) {
                    rep.die(forkproc::KILLED);
                }
            }
            Ok(Err(e)) => {
                rep.line(&format!("err {step} {e}"));
                rep.die(0)
            }
            Err(_) => {
                rep.line(&format!("panic {step} {}", crate::kit::runner::last_panic()));
                rep.die(forkproc::PANICKED)
            }
        }
    }
    rep.line("end");
    rep.die(0) // the manager is still open: this too is a kill, after the last operation
}

/// What the parent knows about the dead child.
#[derive(Default)]
struct ChildLog {
    opened: bool,
    open_err: Option<String>,
    restarted: BTreeSet<usize>,
    acked: BTreeSet<usize>,
    errs: BTreeMap<usize, String>,
    panics: BTreeMap<usize, String>,
    /// step in flight when the child died, and the point at which it was killed
    in_flight: Option<(usize, Option<String>)>,
    points: Vec<String>,
    ended: bool,
    end: Option<End>,
    raw: String,
}

fn parse_child(lines: &[String], end: End) -> ChildLog {
    let mut l = ChildLog { end: Some(end), raw: lines.join(" | "), ..Default::default() };
    let mut begun: Option<usize> = None;
    for line in lines {
        let mut it = line.splitn(3, ' ');
        let tag = it.next().unwrap_or("");
        let a = it.next().unwrap_or("");
        let rest = it.next().unwrap_or("");
        let step = a.parse::<usize>().ok();
        match tag {
            "opened" => l.opened = true,
            "openerr" => l.open_err = Some(format!("{a} {rest}")),
            "restarted" => {
                if let Some(s) = step {
                    l.restarted.insert(s);
                }
            }
            "begin" => begun = step,
            "ack" => {
                if let Some(s) = step {
                    l.acked.insert(s);
                }
                begun = None;
            }
            "err" => {
                if let Some(s) = step {
                    l.errs.insert(s, rest.to_string());
                }
                begun = None;
            }
            "panic" => {
                if let Some(s) = step {
                    l.panics.insert(s, rest.to_string());
                }
                begun = None;
            }
            "point" => l.points.push(a.to_string()),
            "kill" => {
                l.points.push(a.to_string());
                if let Some(s) = begun {
                    l.in_flight = Some((s, Some(a.to_string())));
                }
            }
            "end" => l.ended = true,
            _ => {}
        }
    }
    if l.in_flight.is_none() {
        if let Some(s) = begun {
            l.in_flight = Some((s, None)); // died inside an operation without our kill
        }
    }
    l
}

#[derive(Default)]
struct Sub {
    violations: Vec<Violation>,
    points: Vec<String>,
    ops_done: u64,
    steps: u64,
    crashed_at: Option<String>,
    probes: Vec<&'static str>,
    summary: String,
    sig_parts: Vec<String>,
    had_pointed_op: bool,
    /// the crash of this sub-execution was a real kill of a child process
    kill: bool,
}

struct Runner<'a> {
    dir: &'a Path,
    tenant: &'a str,
    pm: Option<PersistenceManager>,
    sub: Sub,
    crash: Crash,
    kill: bool,
}

impl<'a> Runner<'a> {
    fn fail(&mut self, sig: String, detail: String, step: usize) {
        if self.sub.violations.len() < 6 {
            // batch-loaded entities carry KiB-sized strings: keep the report readable
            let detail = if detail.len() > 900 {
                let mut cut = 900;
                while !detail.is_char_boundary(cut) {
                    cut -= 1;
                }
                format!("{} … [{} bytes]", &detail[..cut], detail.len())
            } else {
                detail
            };
            self.sub.violations.push(Violation::new(sig, detail, step).with_pin(self.crash.pin(self.kill)));
        }
    }

    /// Drop the process' manager, reopen, recover, compare with the candidate states.
    /// Returns the index of the matching candidate.
    fn restart_and_check(&mut self, how: &str, candidates: &[&Model], step: usize) -> Option<usize> {
        // state class of the signature: what preceded this recovery
        let after = if how.starts_with("real kill") { "/after_real_kill" } else { "" };
        self.pm = None; // releases RocksDB's LOCK
        // what the dead / closed process left of its log, seen by the harness' own reader
        let mut log_state = "";
        match wal_tail_torn(self.dir) {
            Some(true) => {
                log_state = " (the newest log file ends inside a record)";
                self.sub.probes.push(if after.is_empty() { "reopen_with_log_ending_inside_record" } else { "reopen_after_real_kill_with_log_ending_inside_record" });
            }
            Some(false) if !after.is_empty() => self.sub.probes.push("reopen_after_real_kill_with_log_partly_on_disk"),
            _ => {}
        }
        match open(self.dir, self.tenant) {
            Ok(pm) => self.pm = Some(pm),
            Err(e) => {
                self.fail(format!("C16/reopen/error{after}"), format!("{how}: reopening the persistence directory failed{log_state}: {e}"), step);
                return None;
            }
        }
        let pm = self.pm.as_ref().unwrap();
        self.sub.steps += 1;
        let (nodes, edges) = match pm.recover(self.tenant) {
            Ok(x) => x,
            Err(e) => {
                self.fail("C16/recover/error".into(), format!("{how}: recover failed: {e}"), step);
                return None;
            }
        };
        let gn = index_nodes(&nodes);
        let ge = index_edges(&edges);
        // which part of the id / size domain this comparison covers (the acknowledged state
        // recover is held against; counted whether or not the comparison succeeds)
        if let Some(c) = candidates.last() {
            let ids = || c.nodes.keys().chain(c.edges.keys());
            if ids().any(|id| has_hex_letter(*id)) {
                self.sub.probes.push("recovered_entity_with_hex_letter_id");
            }
            if ids().any(|id| *id > u32::MAX as u64) {
                self.sub.probes.push("recovered_entity_with_id_above_u32");
            }
            if c.nodes.len() + c.edges.len() >= 100 {
                self.sub.probes.push("recovered_100_or_more_entities");
            }
        }
        let mut best: Option<((usize, usize), Vec<(String, String)>)> = None;
        for (i, c) in candidates.iter().enumerate() {
            let d = diffs(c, candidates, &gn, &ge);
            if d.is_empty() {
                return Some(i);
            }
            // report against the closest candidate: first the one that agrees best on
            // which entities exist (the primary effect of create/delete), then the one
            // with the fewest differences; ties: the later (fully applied) state
            let presence = d.iter().filter(|(c, _)| c.ends_with("/missing") || c.ends_with("/resurrected") || c.ends_with("/phantom")).count();
            let score = (presence, d.len());
            if best.as_ref().map(|b| score <= b.0).unwrap_or(true) {
                best = Some((score, d));
            }
        }
        let d = best.map(|b| b.1).unwrap_or_default();
        let mut seen = BTreeSet::new();
        for (class, detail) in d {
            if seen.insert(class.clone()) {
                let extra = if candidates.len() > 1 { " (neither the state before nor after the operation in flight matches)" } else { "" };
                self.fail(format!("C16/recover/{class}{after}"), format!("{how}: {detail}{extra}"), step);
            }
        }
        None
    }
}

/// Result of one operation of the simulated process.
enum Done {
    /// returned Ok / Err
    Ret(Result<(), String>),
    /// the process died inside the operation, at this point (empty = unknown)
    Died(String),
}

fn run_history(case: &Case, crash: Crash, kill: bool, dir: &Path) -> Sub {
    let tenant_s = TENANTS[(case.knob_u64("tenant", 0) % 2) as usize].to_string();
    let continue_after = case.knob_bool("continue_after_crash", false);
    let kill = kill && crash != Crash::None;
    let word = if kill { "real kill" } else { "crash" };
    let mut r = Runner { dir, tenant: &tenant_s, pm: None, sub: Sub { kill, ..Sub::default() }, crash, kill };
    // ---- real kill: everything up to the crash happens in a child process, now
    let mut child: Option<ChildLog> = None;
    if kill {
        let dead = match forkproc::run_killable(|rep| child_process(case, crash, dir, &tenant_s, rep)) {
            Ok(d) => d,
            Err(e) => panic!("C16 harness: {e}"),
        };
        if dead.forks > 1 {
            r.sub.probes.push("fork_repeated_child_not_ready");
        }
        let log = parse_child(&dead.lines, dead.end.clone());
        match &dead.end {
            End::Exited(0) | End::Exited(forkproc::KILLED) => {}
            End::Exited(forkproc::PANICKED) if !log.panics.is_empty() => {
                let (_, msg) = log.panics.iter().next().unwrap();
                panic!("{msg}"); // same treatment as a panic of the code under test in this process
            }
            other => panic!("C16 harness: forked process ended unexpectedly ({other:?}); it reported: {}", log.raw),
        }
        if let Some(e) = &log.open_err {
            let sig = if log.opened { "C16/reopen/error" } else { "C16/open/error" };
            r.fail(sig.into(), format!("in the child process: {e}"), 0);
            return r.sub;
        }
        if !log.opened {
            panic!("C16 harness: forked process did not open the manager; it reported: {}", log.raw);
        }
        child = Some(log);
    }
    let ctl = PointCtl::new();
    ctl.install();
    if let (Crash::AtPoint(k), false) = (crash, kill) {
        ctl.set_crash(Some(k));
    }
    let mut m = Model::default();
    let pool = id_pool(case);
    let mut crashed = false;
    // operations acknowledged since the storage was last flushed / closed cleanly
    let mut unflushed = 0u64;
    if !kill {
        match open(dir, &tenant_s) {
            Ok(pm) => r.pm = Some(pm),
            Err(e) => {
                r.fail("C16/open/error".into(), e, 0);
                PointCtl::uninstall();
                return r.sub;
            }
        }
    }
    'hist: for (step, ev) in case.events.iter().enumerate() {
        let Some((o, resolved)) = resolve(ev, &m, &pool) else { continue };
        // while the child's part of the history lasts, its report stands for the execution
        let in_child = kill && !crashed;
        r.sub.sig_parts.push(format!("{}{}", o.kind(), resolved));
        r.sub.steps += 1;
        if let Op::Restart = o {
            r.sub.probes.push("restart_mid_history");
            unflushed = 0;
            if in_child {
                if !child.as_ref().unwrap().restarted.contains(&step) {
                    panic!("C16 harness: forked process did not reach the restart at step {step}; it reported: {}", child.as_ref().unwrap().raw);
                }
                continue; // the clean restart happened inside the child (checked by the unwind kind and the crash-free execution)
            }
            if r.restart_and_check("clean restart", &[&m], step).is_none() {
                break 'hist;
            }
            continue;
        }
        if let Op::CreateNode { id, .. } = &o {
            if m.dead_nodes.contains(id) {
                r.sub.probes.push("node_id_reused_after_delete");
            }
        }
        if let Op::Bulk { creates } = &o {
            r.sub.probes.push("bulk_load");
            r.sub.probes.push(if creates.len() >= 100 { "bulk_load_many_small_entities" } else { "bulk_load_few_large_entities" });
        }
        let before = m.clone();
        let mut after = m.clone();
        apply(&o, &mut after);
        let hits_before = ctl.hit_count();
        let res: Done = if in_child {
            let log = child.as_ref().unwrap();
            if log.acked.contains(&step) {
                Done::Ret(Ok(()))
            } else if let Some(e) = log.errs.get(&step) {
                Done::Ret(Err(e.clone()))
            } else if let Some((s, at)) = &log.in_flight {
                if *s != step {
                    panic!("C16 harness: forked process was in step {s}, expected {step}; it reported: {}", log.raw);
                }
                match at {
                    Some(p) => Done::Died(p.clone()),
                    None => panic!("C16 harness: forked process died inside step {step} without being killed ({:?}); it reported: {}", log.end, log.raw),
                }
            } else {
                panic!("C16 harness: forked process never reached step {step}; it reported: {}", log.raw);
            }
        } else {
            let pm = r.pm.as_ref().unwrap();
            if let Op::Bulk { .. } = o {
                // the points inside a batch load are not crash positions: not even counted
                PointCtl::uninstall();
                let x = exec(&o, pm, &tenant_s);
                ctl.install();
                Done::Ret(x)
            } else {
                match points::run_process(|| exec(&o, pm, &tenant_s)) {
                    Ok(x) => Done::Ret(x),
                    Err(()) => Done::Died(ctl.crashed_at().unwrap_or_default()),
                }
            }
        };
        if ctl.hit_count() > hits_before {
            r.sub.had_pointed_op = true;
        }
        match res {
            Done::Ret(Ok(())) => {
                m = after;
                r.sub.ops_done += 1;
                if matches!(o, Op::Flush | Op::Checkpoint) {
                    unflushed = 0;
                } else {
                    unflushed += 1;
                }
                if !crashed && crash == Crash::AfterOp(r.sub.ops_done) {
                    crashed = true;
                    r.sub.crashed_at = Some(format!("after {}", o.kind()));
                    if matches!(o, Op::UpdateNode { .. } | Op::UpdateEdge { .. }) {
                        r.sub.probes.push("crash_right_after_acknowledged_update");
                    }
                    if kill {
                        r.sub.probes.push("real_kill_between_operations");
                        if unflushed > 0 {
                            r.sub.probes.push("real_kill_with_unflushed_acknowledged_writes");
                        }
                    }
                    if r.restart_and_check(&format!("{word} after acknowledged {}", o.kind()), &[&m], step).is_none() {
                        break 'hist;
                    }
                    if !continue_after {
                        r.sub.summary = format!("b{}:{}", r.sub.ops_done, m.canon());
                        r.sub.points = ctl.hits();
                        PointCtl::uninstall();
                        return r.sub;
                    }
                }
            }
            Done::Ret(Err(e)) => {
                r.fail(format!("C16/op_refused/{}", o.kind()), format!("{} returned an error in a fault-free configuration: {e}", o.kind()), step);
                break 'hist;
            }
            Done::Died(at) => {
                crashed = true;
                r.sub.crashed_at = Some(at.clone());
                r.sub.probes.push("crash_inside_persist");
                if at.ends_with(".after_wal") {
                    r.sub.probes.push("crash_between_wal_and_storage_write");
                }
                if kill {
                    r.sub.probes.push("real_kill_inside_persist");
                    if unflushed > 0 {
                        r.sub.probes.push("real_kill_with_unflushed_acknowledged_writes");
                    }
                }
                let how = format!("{word} at {at} inside {}", o.kind());
                match r.restart_and_check(&how, &[&before, &after], step) {
                    None => break 'hist,
                    Some(i) => {
                        if before.same_state(&after) {
                            r.sub.probes.push("in_flight_without_effect");
                        } else if i == 0 {
                            r.sub.probes.push("in_flight_not_applied");
                        } else {
                            r.sub.probes.push("in_flight_applied");
                        }
                        m = if i == 0 { before } else { after };
                    }
                }
                unflushed = 0;
                if !continue_after {
                    r.sub.summary = format!("p@{at}:{}", m.canon());
                    r.sub.points = ctl.hits();
                    PointCtl::uninstall();
                    return r.sub;
                }
                r.sub.probes.push("history_continued_after_crash");
            }
        }
    }
    if r.sub.violations.is_empty() {
        if kill && !crashed {
            // the child ran the whole history and died with the manager open
            if !child.as_ref().map(|l| l.ended).unwrap_or(false) {
                panic!("C16 harness: forked process did not finish the history; it reported: {}", child.as_ref().unwrap().raw);
            }
            r.sub.crashed_at = Some("after last operation".into());
            r.sub.probes.push("real_kill_after_last_operation");
            if unflushed > 0 {
                r.sub.probes.push("real_kill_with_unflushed_acknowledged_writes");
            }
            r.restart_and_check("real kill after the last operation", &[&m], case.events.len());
        } else {
            // end of history: clean shutdown, restart, recover
            r.restart_and_check("clean restart at end of history", &[&m], case.events.len());
        }
    }
    r.pm = None;
    r.sub.summary = format!("end:{}", m.canon());
    r.sub.points = ctl.hits();
    PointCtl::uninstall();
    r.sub
}

/// The id pool of a case: 5 distinct ids.  One case in four keeps the old domain 1..5;
/// otherwise each id is small (1..9), a two-hex-digit number (10..255) or a large one
/// around the places where a width / radix / signedness mistake would show.
fn gen_id_pool(k: &mut Rng) -> Vec<u64> {
    if k.chance(1, 4) {
        return (1..=MAX_ID).collect();
    }
    let mut ids: BTreeSet<u64> = BTreeSet::new();
    while ids.len() < 5 {
        let id = match k.weighted(&[3, 4, 3]) {
            0 => k.range(1, 9) as u64,
            1 => k.range(10, 255) as u64,
            _ => match k.below(8) {
                0 => 0xabcdef,
                1 => 0xdead_beef_u64 + k.below(16),
                2 => (1u64 << 32) + k.below(4096),
                3 => u32::MAX as u64 - k.below(3),
                4 => (1u64 << 63) + k.below(256),
                5 => i64::MAX as u64 - k.below(3),
                6 => u64::MAX - k.below(4),
                _ => ((k.range(1, 0xffff) as u64) << 40) | k.below(1 << 20),
            },
        };
        ids.insert(id);
    }
    ids.into_iter().collect()
}

fn gen_props(r: &mut Rng, boundary: bool, max: usize) -> Map<String, Value> {
    let mut props = Map::new();
    for k in KEYS.iter().take(max) {
        if r.chance(1, 2) {
            let v = if boundary && r.chance(1, 2) { gen_boundary_value(r, 0) } else { gen_small_value(r) };
            if v.get("n").is_some() {
                continue; // Null-valued properties are not generated (C16 is not about them)
            }
            props.insert(k.to_string(), v);
        }
    }
    props
}

impl Scenario for C16 {
    fn id(&self) -> &'static str {
        "C16"
    }
    fn level(&self) -> &'static str {
        "fault_enumeration"
    }
    fn runs(&self, tier: Tier) -> u64 {
        match tier {
            Tier::Quick => 32,
            Tier::Thorough => 6000,
        }
    }
    fn rule(&self) -> &'static str {
        "history = PRNG-generated sequence (1..8 ops, 3 labels, 2 types, 3 keys; ids from a per-case pool of 5 drawn from small 1..9 / two hex digits 10..255 / large such as 0xabcdef, 2^32+x, 2^63+x, u64::MAX-k, one case in four the pool 1..5) of persist_create_node/edge, persist_delete_*, persist_update_*_properties (always the full property map, so merge and replace readings agree), flush, checkpoint and clean restart for one tenant; executed once crash-free and then once per crash position: every H4 point passed (process crash inside the operation) and every boundary between operations; each sub-execution = crash, reopen, recover(tenant), compare with the model (in-flight op applied wholly or not at all), optionally continue the history on the restarted manager and compare again at the end. The crash is, per case (knob real_kill, 1 in 4), either an unwind at the position + drop of the manager, or a REAL kill: the process up to the crash position runs in a fork()ed child that _exits there with the manager open (nothing closed or flushed) and reports its acknowledged operations through a pipe; the real-kill kind also has the position 'after the last operation'. A minority of the cases (half of the real-kill ones, one in eight of the others) contain a `bulk` step: a batch load of 100..300 small nodes or 6..10 nodes with a 2-3 KiB string (plus relationships chaining them) through the same persist_* calls, acknowledged as a whole, not crashed inside (its H4 points are not positions), so that the crash positions behind it are reached with 10-30 KiB of log appended since the last flush; before every reopen the harness reads the newest log file itself and records whether it ends inside a record. Non-trivial = at least one operation with H4 points ran and at least one crash fired inside an operation. Distinct = hash of the sequence of (op kind, resolved entity ranks)."
    }
    fn real_components(&self) -> Vec<&'static str> {
        vec![
            "samyama::persistence::PersistenceManager (persist_*, flush, checkpoint, recover)",
            "samyama::persistence::PersistentStorage over real RocksDB on tmpfs",
            "samyama::persistence::Wal through verif::fs in passthrough mode (real files)",
            "samyama::persistence::TenantManager",
            "process death in the real-kill kind: a real child process (fork) that ends by _exit with every file still open",
        ]
    }
    fn stub_components(&self) -> Vec<&'static str> {
        vec![
            "unwind kind of crash (three cases in four): process kill = unwind at an H4 point + drop of the PersistenceManager (RocksDB and the WAL close cleanly, memtables are flushed); it exercises atomicity of the in-flight operation but only ASSUMES that a completed put/delete survives a kill",
            "real-kill kind (one case in four): the kill is real (_exit of a fork()ed child with the manager open), the machine is not: power loss / loss of the page cache is not modelled for RocksDB-backed state",
        ]
    }
    fn assumptions(&self) -> Vec<&'static str> {
        vec![
            "unwind kind only: recover() never reads the samyama WAL (verified by reading PersistenceManager::recover: storage.scan_nodes/scan_edges only), so the WAL's BufWriter being flushed by Drop instead of lost does not change what recover returns. The real-kill kind does not need this: nothing is flushed by the dying process, whatever recover reads",
            "real-kill kind: 'a completed storage write survives a process crash' is no longer assumed, it is exercised — the child dies without closing RocksDB, so a write that lived only in process memory (memtable without RocksDB-WAL record, user-space buffer) is lost and shows as C16/recover/*/after_real_kill. What IS assumed: the child after fork() behaves like a freshly started process (it runs on the only thread that exists in it; the parent retires RocksDB's idle process-wide background threads before the fork so the child inherits empty pools, see kit::forkproc), and the clean restarts inside the child's part of the history are not checked there (the crash-free execution and the unwind kind check them)",
            "acknowledged = the child wrote its `ack` record to the pipe (write(2) returned) after persist_* returned Ok and before doing anything else; the parent's model is built from these records only",
            "between two adjacent H4 points / operation boundaries nothing observable to recover happens (each persist_* performs at most one RocksDB write, which is atomic)",
            "property updates carry the full resulting property map, so the merge-or-replace ambiguity of 'new properties to set' does not enter the oracle; removal of a property is never generated",
            "timestamps (created_at/updated_at) and the version field are ignored",
            "persist_delete_node does not cascade to relationships at this layer; the model does not either",
            "the tenant registry is in-memory only: the harness registers the tenant again after every restart, as the server's start-up would",
        ]
    }
    fn required_probes(&self, _tier: Tier) -> Vec<&'static str> {
        vec![
            "crash_inside_persist",
            "crash_between_wal_and_storage_write",
            "in_flight_applied",
            "in_flight_not_applied",
            "crash_right_after_acknowledged_update",
            "restart_mid_history",
            "history_continued_after_crash",
            "op_delete_node",
            "op_delete_edge",
            "op_update_node",
            "op_update_edge",
            "op_checkpoint",
            "op_flush",
            "node_id_reused_after_delete",
            "real_kill_inside_persist",
            "real_kill_between_operations",
            "real_kill_after_last_operation",
            "real_kill_with_unflushed_acknowledged_writes",
            "recovered_entity_with_hex_letter_id",
            "recovered_entity_with_id_above_u32",
            "recovered_100_or_more_entities",
            "bulk_load_many_small_entities",
            "bulk_load_few_large_entities",
            "reopen_after_real_kill_with_log_ending_inside_record",
        ]
    }
    fn generate(&self, s: &mut Streams, _run_index: u64, _tier: Tier) -> Case {
        let mut case = Case::new("C16");
        let n = s.knobs.short_len(1, 8);
        let boundary = s.knobs.chance(1, 4);
        let allow_restart = s.knobs.chance(1, 4);
        case.knobs.insert("tenant".into(), json!(s.knobs.below(2)));
        case.knobs.insert("continue_after_crash".into(), json!(s.knobs.chance(1, 4)));
        case.knobs.insert("boundary_values".into(), json!(boundary));
        let real_kill = s.knobs.chance(1, 4);
        case.knobs.insert("real_kill".into(), json!(real_kill));
        // (drawn after the older knobs, from the knob stream: the rest of a case is what it was)
        case.knobs.insert("ids".into(), json!(gen_id_pool(&mut s.knobs)));
        let bulk: Option<(usize, Value)> = if s.knobs.chance(1, if real_kill { 2 } else { 8 }) {
            let k = &mut s.knobs;
            let ev = if k.chance(1, 2) {
                let count = k.range(100, 300);
                json!({"op":"bulk","count":count,"len":k.below(3) * 20,"edges":if k.chance(1, 2) { k.range(1, 60) } else { 0 },"ch":k.below(26)})
            } else {
                let count = k.range(6, 10);
                json!({"op":"bulk","count":count,"len":k.range(2000, 3000),"edges":k.below(4),"ch":k.below(26)})
            };
            // mostly early in the history, so that most crash positions lie behind it
            let pos = if k.chance(2, 3) { k.below(2) } else { k.below(8) };
            Some((pos as usize, ev))
        } else {
            None
        };
        let r = &mut s.workload;
        // a node first, so that updates and relationships are possible early
        if r.chance(3, 4) {
            case.events.push(json!({"op":"create_node","id":r.below(8),"labels":[r.below(3)],"props":gen_props(r, boundary, 2)}));
        }
        if !case.events.is_empty() && r.chance(1, 2) {
            case.events.push(json!({"op":"create_edge","id":r.below(8),"s":r.below(8),"t":r.below(8),"type":r.below(2),"props":gen_props(r, boundary, 2)}));
        }
        for _ in 0..n {
            let w: [u32; 9] = [4, 4, 4, 3, 3, 3, 1, 1, if allow_restart { 1 } else { 0 }];
            let ev = match r.weighted(&w) {
                0 => {
                    let nl = r.below(3);
                    let labels: Vec<u64> = (0..nl).map(|_| r.below(3)).collect();
                    json!({"op":"create_node","id":r.below(8),"labels":labels,"props":gen_props(r, boundary, 3)})
                }
                1 => json!({"op":"create_edge","id":r.below(8),"s":r.below(8),"t":r.below(8),"type":r.below(2),"props":gen_props(r, boundary, 2)}),
                2 => {
                    let mut set = gen_props(r, boundary, 3);
                    if set.is_empty() {
                        set.insert("k".into(), json!({"i": r.range(0, 9)}));
                    }
                    json!({"op":"update_node","n":r.below(8),"set":set})
                }
                3 => {
                    let mut set = gen_props(r, boundary, 3);
                    if set.is_empty() {
                        set.insert("k".into(), json!({"i": r.range(0, 9)}));
                    }
                    json!({"op":"update_edge","e":r.below(8),"set":set,"version":r.below(3)})
                }
                4 => json!({"op":"delete_node","n":r.below(8)}),
                5 => json!({"op":"delete_edge","e":r.below(8)}),
                6 => json!({"op":"flush"}),
                7 => json!({"op":"checkpoint"}),
                _ => json!({"op":"restart"}),
            };
            case.events.push(ev);
        }
        if let Some((pos, ev)) = bulk {
            let at = pos.min(case.events.len());
            case.events.insert(at, ev);
        }
        case
    }
    fn shrink_event(&self, ev: &Value) -> Vec<Value> {
        let mut out = Vec::new();
        match op(ev) {
            "create_node" => out.push(json!({"op":"create_node","id":0,"labels":[0],"props":{}})),
            "create_edge" => {
                let mut e = ev.clone();
                e["props"] = json!({});
                out.push(e);
            }
            "update_node" | "update_edge" => {
                let mut e = ev.clone();
                e["set"] = json!({"k":{"i":7}});
                out.push(e);
            }
            "checkpoint" | "restart" => out.push(json!({"op":"flush"})),
            "bulk" => {
                let count = u(ev, "count");
                if u(ev, "edges") > 0 {
                    let mut e = ev.clone();
                    e["edges"] = json!(0);
                    out.push(e);
                }
                for c in [1, count / 2, count.saturating_sub(1)] {
                    if c >= 1 && c < count {
                        let mut e = ev.clone();
                        e["count"] = json!(c);
                        e["edges"] = json!(u(ev, "edges").min(c - 1));
                        out.push(e);
                    }
                }
                if u(ev, "len") > 0 {
                    let mut e = ev.clone();
                    e["len"] = json!(0);
                    out.push(e);
                }
            }
            _ => {}
        }
        out
    }
    fn execute(&self, case: &Case) -> Outcome {
        let mut o = Outcome::new();
        let rd = RunDir::new("c16", case.run_index);
        let mut summaries: Vec<String> = Vec::new();
        let mut seen_sigs: BTreeSet<String> = BTreeSet::new();
        let mut absorb = |o: &mut Outcome, sub: Sub, summaries: &mut Vec<String>| {
            o.steps += sub.steps;
            for p in &sub.probes {
                o.probe(p);
            }
            if let Some(at) = &sub.crashed_at {
                let kind = if sub.kill { "process_kill" } else { "process_crash" };
                if at == "after last operation" {
                    o.fault(&format!("{kind}.after_last_operation"));
                } else if at.starts_with("after ") {
                    o.fault(&format!("{kind}.between_operations"));
                } else {
                    o.fault(&format!("{kind}.{at}"));
                }
            }
            summaries.push(format!("{}{}", if sub.kill { "K" } else { "" }, sub.summary));
            for v in sub.violations {
                if seen_sigs.insert(v.signature.clone()) {
                    o.violate(v);
                }
            }
        };
        if let Some(p) = case.pin() {
            let (crash, kill) = Crash::from_pin(p);
            let sub = run_history(case, crash, kill, &rd.sub("pin"));
            o.class_key = hash_str(&sub.sig_parts.join(","));
            o.nontrivial = sub.had_pointed_op;
            absorb(&mut o, sub, &mut summaries);
            o.state_hash = hash_str(&summaries.join("#"));
            return o;
        }
        // crash-free execution: also lists the points passed and counts the operations
        let kill = case.knob_bool("real_kill", false);
        let dry = run_history(case, Crash::None, false, &rd.sub("dry"));
        rd.remove_sub("dry");
        for part in &dry.sig_parts {
            for kind in ["delete_node", "delete_edge", "update_node", "update_edge", "create_edge", "checkpoint", "flush", "bulk"] {
                if part.starts_with(kind) {
                    o.probe(&format!("op_{kind}"));
                }
            }
        }
        let n_points = dry.points.len() as u64;
        let n_ops = dry.ops_done;
        let had_pointed = dry.had_pointed_op;
        o.class_key = hash_str(&dry.sig_parts.join(","));
        let dry_failed_early = dry.violations.iter().any(|v| v.signature.starts_with("C16/op_refused") || v.signature.starts_with("C16/open"));
        absorb(&mut o, dry, &mut summaries);
        let mut evals = 1u64;
        let mut crashes_in_op = 0u64;
        if !dry_failed_early {
            for k in 0..n_points {
                let name = format!("p{k}");
                let sub = run_history(case, Crash::AtPoint(k), kill, &rd.sub(&name));
                rd.remove_sub(&name);
                if sub.crashed_at.is_some() {
                    crashes_in_op += 1;
                }
                absorb(&mut o, sub, &mut summaries);
                evals += 1;
            }
            // boundaries between operations; the boundary after the last one is the
            // crash-free run for the unwind kind (unwind + drop there IS a clean shutdown),
            // but a position of its own for a real kill
            let last = if kill { n_ops + 1 } else { n_ops };
            for j in 1..last {
                let name = format!("b{j}");
                if kill && j == n_ops {
                    o.probe("real_kill_after_last_operation");
                }
                let sub = run_history(case, Crash::AfterOp(j), kill, &rd.sub(&name));
                rd.remove_sub(&name);
                absorb(&mut o, sub, &mut summaries);
                evals += 1;
            }
        }
        o.evaluations = evals;
        o.nontrivial = had_pointed && crashes_in_op > 0;
        o.state_hash = hash_str(&summaries.join("#"));
        o
    }
}
