//! C16 — recovery returns exactly the acknowledged persisted state.
//!
//! Sim: one simulated process = one `PersistenceManager` (RocksDB real on tmpfs, the
//! samyama WAL through the `verif::fs` facade in passthrough mode).  A history of
//! `persist_*` operations for one tenant with `flush` / `checkpoint` / clean `restart`
//! events is executed once without a crash (which also lists the H4 points it passes) and
//! then once per crash position: at every H4 point inside an operation and after every
//! operation.  A crash = unwind at the point, drop the manager, reopen on the same
//! directory, `recover(tenant)`.  Oracle: a ModelKv of the acknowledged operations; the
//! operation in flight at the crash may be applied wholly or not at all.

use crate::kit::core::*;
use crate::kit::model::*;
use crate::kit::pers::*;
use crate::kit::points::{self, PointCtl};
use crate::kit::rng::{Rng, Streams};
use samyama::persistence::{PersistenceManager, ResourceQuotas};
use serde_json::{json, Map, Value};
use std::collections::{BTreeMap, BTreeSet};
use std::path::Path;

pub struct C16;

const LABELS: [&str; 3] = ["A", "B", "C"];
const TYPES: [&str; 2] = ["T", "U"];
const KEYS: [&str; 3] = ["k", "m", "z"];
const MAX_ID: u64 = 5;
const TENANTS: [&str; 2] = ["default", "t1"];

#[derive(Clone, Default)]
struct Model {
    nodes: BTreeMap<u64, CNode>,
    edges: BTreeMap<u64, CEdge>,
    /// property maps in trace (JSON) encoding, to build the full map of an update
    node_pj: BTreeMap<u64, Map<String, Value>>,
    edge_pj: BTreeMap<u64, Map<String, Value>>,
    /// earlier acknowledged contents of the current incarnation of an entity
    node_versions: BTreeMap<u64, Vec<CNode>>,
    edge_versions: BTreeMap<u64, Vec<CEdge>>,
    dead_nodes: BTreeSet<u64>,
    dead_edges: BTreeSet<u64>,
}

impl Model {
    fn same_state(&self, o: &Model) -> bool {
        self.nodes == o.nodes && self.edges == o.edges
    }
    fn canon(&self) -> String {
        format!("{:?}|{:?}", self.nodes, self.edges)
    }
}

#[derive(Clone, Debug)]
enum Op {
    CreateNode { id: u64, labels: Vec<String>, props: Map<String, Value> },
    CreateEdge { id: u64, src: u64, dst: u64, ty: String, props: Map<String, Value> },
    UpdateNode { id: u64, full: Map<String, Value> },
    UpdateEdge { id: u64, full: Map<String, Value>, version: u64 },
    DeleteNode { id: u64 },
    DeleteEdge { id: u64 },
    Flush,
    Checkpoint,
    Restart,
}

impl Op {
    fn kind(&self) -> &'static str {
        match self {
            Op::CreateNode { .. } => "create_node",
            Op::CreateEdge { .. } => "create_edge",
            Op::UpdateNode { .. } => "update_node",
            Op::UpdateEdge { .. } => "update_edge",
            Op::DeleteNode { .. } => "delete_node",
            Op::DeleteEdge { .. } => "delete_edge",
            Op::Flush => "flush",
            Op::Checkpoint => "checkpoint",
            Op::Restart => "restart",
        }
    }
}

fn obj(v: &Value) -> Map<String, Value> {
    v.as_object().cloned().unwrap_or_default()
}

/// Turn a generated event into a concrete operation against the current model state.
/// Entities are referred to by rank modulo what exists, so events stay meaningful when
/// others are deleted by the shrinker.
fn resolve(ev: &Value, m: &Model) -> Option<(Op, String)> {
    match op(ev) {
        "create_node" => {
            let free: Vec<u64> = (1..=MAX_ID).filter(|i| !m.nodes.contains_key(i)).collect();
            let id = pick(&free, u(ev, "id"))?;
            let labels: Vec<String> = ev["labels"].as_array().map(|a| a.iter().map(|x| LABELS[(x.as_u64().unwrap_or(0) % 3) as usize].to_string()).collect()).unwrap_or_default();
            let reused = if m.dead_nodes.contains(&id) { "r" } else { "" };
            Some((Op::CreateNode { id, labels, props: obj(&ev["props"]) }, format!("{reused}")))
        }
        "create_edge" => {
            let free: Vec<u64> = (1..=MAX_ID).filter(|i| !m.edges.contains_key(i)).collect();
            let id = pick(&free, u(ev, "id"))?;
            let live: Vec<u64> = m.nodes.keys().cloned().collect();
            let src = pick(&live, u(ev, "s"))?;
            let dst = pick(&live, u(ev, "t"))?;
            let ty = TYPES[(u(ev, "type") % 2) as usize].to_string();
            let rank = |x: u64| live.iter().position(|y| *y == x).unwrap_or(0);
            Some((Op::CreateEdge { id, src, dst, ty: ty.clone(), props: obj(&ev["props"]) }, format!("{}>{}:{ty}", rank(src), rank(dst))))
        }
        "update_node" => {
            let live: Vec<u64> = m.nodes.keys().cloned().collect();
            let id = pick(&live, u(ev, "n"))?;
            // the full property map after the update: under either reading of "new
            // properties to set" (merge or replace) the entity ends with exactly this map
            let mut full = m.node_pj.get(&id).cloned().unwrap_or_default();
            for (k, v) in obj(&ev["set"]) {
                full.insert(k, v);
            }
            Some((Op::UpdateNode { id, full }, format!("{}", live.iter().position(|y| *y == id).unwrap_or(0))))
        }
        "update_edge" => {
            let live: Vec<u64> = m.edges.keys().cloned().collect();
            let id = pick(&live, u(ev, "e"))?;
            let mut full = m.edge_pj.get(&id).cloned().unwrap_or_default();
            for (k, v) in obj(&ev["set"]) {
                full.insert(k, v);
            }
            Some((Op::UpdateEdge { id, full, version: u(ev, "version") }, format!("{}", live.iter().position(|y| *y == id).unwrap_or(0))))
        }
        "delete_node" => {
            let live: Vec<u64> = m.nodes.keys().cloned().collect();
            let id = pick(&live, u(ev, "n"))?;
            Some((Op::DeleteNode { id }, format!("{}", live.iter().position(|y| *y == id).unwrap_or(0))))
        }
        "delete_edge" => {
            let live: Vec<u64> = m.edges.keys().cloned().collect();
            let id = pick(&live, u(ev, "e"))?;
            Some((Op::DeleteEdge { id }, format!("{}", live.iter().position(|y| *y == id).unwrap_or(0))))
        }
        "flush" => Some((Op::Flush, String::new())),
        "checkpoint" => Some((Op::Checkpoint, String::new())),
        "restart" => Some((Op::Restart, String::new())),
        _ => None,
    }
}

fn apply(o: &Op, m: &mut Model) {
    match o {
        Op::CreateNode { id, labels, props } => {
            let (_, bm) = props_from(&Value::Object(props.clone()));
            m.nodes.insert(*id, CNode { labels: labels.iter().cloned().collect(), props: bm });
            m.node_pj.insert(*id, props.clone());
            m.node_versions.insert(*id, Vec::new());
        }
        Op::CreateEdge { id, src, dst, ty, props } => {
            let (_, bm) = props_from(&Value::Object(props.clone()));
            m.edges.insert(*id, CEdge { src: *src, dst: *dst, ty: ty.clone(), props: bm });
            m.edge_pj.insert(*id, props.clone());
            m.edge_versions.insert(*id, Vec::new());
        }
        Op::UpdateNode { id, full } => {
            let (_, bm) = props_from(&Value::Object(full.clone()));
            if let Some(n) = m.nodes.get_mut(id) {
                m.node_versions.entry(*id).or_default().push(n.clone());
                n.props = bm;
            }
            m.node_pj.insert(*id, full.clone());
        }
        Op::UpdateEdge { id, full, .. } => {
            let (_, bm) = props_from(&Value::Object(full.clone()));
            if let Some(e) = m.edges.get_mut(id) {
                m.edge_versions.entry(*id).or_default().push(e.clone());
                e.props = bm;
            }
            m.edge_pj.insert(*id, full.clone());
        }
        Op::DeleteNode { id } => {
            m.nodes.remove(id);
            m.node_pj.remove(id);
            m.node_versions.remove(id);
            m.dead_nodes.insert(*id);
        }
        Op::DeleteEdge { id } => {
            m.edges.remove(id);
            m.edge_pj.remove(id);
            m.edge_versions.remove(id);
            m.dead_edges.insert(*id);
        }
        Op::Flush | Op::Checkpoint | Op::Restart => {}
    }
}

fn exec(o: &Op, pm: &PersistenceManager, tenant: &str) -> Result<(), String> {
    let r = match o {
        Op::CreateNode { id, labels, props } => {
            let (pmap, _) = props_from(&Value::Object(props.clone()));
            pm.persist_create_node(tenant, &mk_node(*id, labels, pmap))
        }
        Op::CreateEdge { id, src, dst, ty, props } => {
            let (pmap, _) = props_from(&Value::Object(props.clone()));
            pm.persist_create_edge(tenant, &mk_edge(*id, *src, *dst, ty, pmap))
        }
        Op::UpdateNode { id, full } => {
            let (pmap, _) = props_from(&Value::Object(full.clone()));
            pm.persist_update_node_properties(tenant, *id, &pmap)
        }
        Op::UpdateEdge { id, full, version } => {
            let (pmap, _) = props_from(&Value::Object(full.clone()));
            pm.persist_update_edge_properties(tenant, *id, &pmap, *version)
        }
        Op::DeleteNode { id } => pm.persist_delete_node(tenant, *id),
        Op::DeleteEdge { id } => pm.persist_delete_edge(tenant, *id),
        Op::Flush => pm.flush(),
        Op::Checkpoint => pm.checkpoint(),
        Op::Restart => Ok(()),
    };
    r.map_err(|e| e.to_string())
}

fn open(dir: &Path, tenant: &str) -> Result<PersistenceManager, String> {
    let pm = PersistenceManager::new(dir).map_err(|e| format!("open: {e}"))?;
    if tenant != "default" {
        // the tenant registry is in-memory only: a restarted process registers it again
        pm.tenants().create_tenant(tenant.to_string(), tenant.to_string(), Some(ResourceQuotas::unlimited())).map_err(|e| format!("create_tenant: {e}"))?;
    }
    Ok(pm)
}

/// Differences between what `recover` returned and one candidate state, each as
/// (signature suffix, detail).
fn diffs(want: &Model, hist: &[&Model], got_n: &BTreeMap<u64, Vec<CNode>>, got_e: &BTreeMap<u64, Vec<CEdge>>) -> Vec<(String, String)> {
    let mut out = Vec::new();
    let ever_dead_n = |id: &u64| hist.iter().any(|h| h.dead_nodes.contains(id));
    let ever_dead_e = |id: &u64| hist.iter().any(|h| h.dead_edges.contains(id));
    for (id, w) in &want.nodes {
        match got_n.get(id) {
            None => out.push(("node/missing".to_string(), format!("node {id} acknowledged as persisted, recover does not return it"))),
            Some(v) if v.len() > 1 => out.push(("node/duplicate".to_string(), format!("node {id} returned {} times", v.len()))),
            Some(v) => {
                let g = &v[0];
                if g != w {
                    let stale = hist.iter().any(|h| h.node_versions.get(id).map(|vs| vs.contains(g)).unwrap_or(false));
                    let class = if g.labels != w.labels {
                        "node/wrong_labels"
                    } else if stale {
                        "node/stale_properties_after_update"
                    } else {
                        "node/wrong_properties"
                    };
                    out.push((class.to_string(), format!("node {id}: recovered {:?}, acknowledged state {:?}", g, w)));
                }
            }
        }
    }
    for id in got_n.keys() {
        if !want.nodes.contains_key(id) {
            let class = if ever_dead_n(id) { "node/resurrected" } else { "node/phantom" };
            out.push((class.to_string(), format!("node {id} returned by recover but not part of the acknowledged state")));
        }
    }
    for (id, w) in &want.edges {
        match got_e.get(id) {
            None => out.push(("edge/missing".to_string(), format!("edge {id} acknowledged as persisted, recover does not return it"))),
            Some(v) if v.len() > 1 => out.push(("edge/duplicate".to_string(), format!("edge {id} returned {} times", v.len()))),
            Some(v) => {
                let g = &v[0];
                if g != w {
                    let stale = hist.iter().any(|h| h.edge_versions.get(id).map(|vs| vs.contains(g)).unwrap_or(false));
                    let class = if g.src != w.src || g.dst != w.dst || g.ty != w.ty {
                        "edge/wrong_shape"
                    } else if stale {
                        "edge/stale_properties_after_update"
                    } else {
                        "edge/wrong_properties"
                    };
                    out.push((class.to_string(), format!("edge {id}: recovered {:?}, acknowledged state {:?}", g, w)));
                }
            }
        }
    }
    for id in got_e.keys() {
        if !want.edges.contains_key(id) {
            let class = if ever_dead_e(id) { "edge/resurrected" } else { "edge/phantom" };
            out.push((class.to_string(), format!("edge {id} returned by recover but not part of the acknowledged state")));
        }
    }
    out
}

#[derive(Clone, Copy, Debug, PartialEq)]
enum Crash {
    None,
    AtPoint(u64),
    /// after the j-th executed operation (1-based) has been acknowledged
    AfterOp(u64),
}

impl Crash {
    fn pin(&self) -> Value {
        match self {
            Crash::None => json!({"crash":"none"}),
            Crash::AtPoint(k) => json!({"crash":"point","k":k}),
            Crash::AfterOp(j) => json!({"crash":"after_op","j":j}),
        }
    }
    fn from_pin(p: &Value) -> Crash {
        match p.get("crash").and_then(|x| x.as_str()) {
            Some("point") => Crash::AtPoint(u(p, "k")),
            Some("after_op") => Crash::AfterOp(u(p, "j")),
            _ => Crash::None,
        }
    }
}

#[derive(Default)]
struct Sub {
    violations: Vec<Violation>,
    points: Vec<String>,
    ops_done: u64,
    steps: u64,
    crashed_at: Option<String>,
    probes: Vec<&'static str>,
    summary: String,
    sig_parts: Vec<String>,
    had_pointed_op: bool,
}

struct Runner<'a> {
    dir: &'a Path,
    tenant: &'a str,
    pm: Option<PersistenceManager>,
    sub: Sub,
    crash: Crash,
}

impl<'a> Runner<'a> {
    fn fail(&mut self, sig: String, detail: String, step: usize) {
        if self.sub.violations.len() < 6 {
            self.sub.violations.push(Violation::new(sig, detail, step).with_pin(self.crash.pin()));
        }
    }

    /// Drop the process' manager, reopen, recover, compare with the candidate states.
    /// Returns the index of the matching candidate.
    fn restart_and_check(&mut self, how: &str, candidates: &[&Model], step: usize) -> Option<usize> {
        self.pm = None; // releases RocksDB's LOCK
        match open(self.dir, self.tenant) {
            Ok(pm) => self.pm = Some(pm),
            Err(e) => {
                self.fail("C16/reopen/error".into(), format!("{how}: reopen failed: {e}"), step);
                return None;
            }
        }
        let pm = self.pm.as_ref().unwrap();
        self.sub.steps += 1;
        let (nodes, edges) = match pm.recover(self.tenant) {
            Ok(x) => x,
            Err(e) => {
                self.fail("C16/recover/error".into(), format!("{how}: recover failed: {e}"), step);
                return None;
            }
        };
        let gn = index_nodes(&nodes);
        let ge = index_edges(&edges);
        let mut best: Option<((usize, usize), Vec<(String, String)>)> = None;
        for (i, c) in candidates.iter().enumerate() {
            let d = diffs(c, candidates, &gn, &ge);
            if d.is_empty() {
                return Some(i);
            }
            // report against the closest candidate: first the one that agrees best on
            // which entities exist (the primary effect of create/delete), then the one
            // with the fewest differences; ties: the later (fully applied) state
            let presence = d.iter().filter(|(c, _)| c.ends_with("/missing") || c.ends_with("/resurrected") || c.ends_with("/phantom")).count();
            let score = (presence, d.len());
            if best.as_ref().map(|b| score <= b.0).unwrap_or(true) {
                best = Some((score, d));
            }
        }
        let d = best.map(|b| b.1).unwrap_or_default();
        let mut seen = BTreeSet::new();
        for (class, detail) in d {
            if seen.insert(class.clone()) {
                let extra = if candidates.len() > 1 { " (neither the state before nor after the operation in flight matches)" } else { "" };
                self.fail(format!("C16/recover/{class}"), format!("{how}: {detail}{extra}"), step);
            }
        }
        None
    }
}

fn run_history(case: &Case, crash: Crash, dir: &Path) -> Sub {
    let tenant_s = TENANTS[(case.knob_u64("tenant", 0) % 2) as usize].to_string();
    let continue_after = case.knob_bool("continue_after_crash", false);
    let ctl = PointCtl::new();
    ctl.install();
    if let Crash::AtPoint(k) = crash {
        ctl.set_crash(Some(k));
    }
    let mut r = Runner { dir, tenant: &tenant_s, pm: None, sub: Sub::default(), crash };
    let mut m = Model::default();
    let mut crashed = false;
    match open(dir, &tenant_s) {
        Ok(pm) => r.pm = Some(pm),
        Err(e) => {
            r.fail("C16/open/error".into(), e, 0);
            PointCtl::uninstall();
            return r.sub;
        }
    }
    'hist: for (step, ev) in case.events.iter().enumerate() {
        let Some((o, resolved)) = resolve(ev, &m) else { continue };
        r.sub.sig_parts.push(format!("{}{}", o.kind(), resolved));
        r.sub.steps += 1;
        if let Op::Restart = o {
            r.sub.probes.push("restart_mid_history");
            if r.restart_and_check("clean restart", &[&m], step).is_none() {
                break 'hist;
            }
            continue;
        }
        if let Op::CreateNode { id, .. } = &o {
            if m.dead_nodes.contains(id) {
                r.sub.probes.push("node_id_reused_after_delete");
            }
        }
        let before = m.clone();
        let mut after = m.clone();
        apply(&o, &mut after);
        let hits_before = ctl.hit_count();
        let res = {
            let pm = r.pm.as_ref().unwrap();
            points::run_process(|| exec(&o, pm, &tenant_s))
        };
        if ctl.hit_count() > hits_before {
            r.sub.had_pointed_op = true;
        }
        match res {
            Ok(Ok(())) => {
                m = after;
                r.sub.ops_done += 1;
                if !crashed && crash == Crash::AfterOp(r.sub.ops_done) {
                    crashed = true;
                    r.sub.crashed_at = Some(format!("after {}", o.kind()));
                    if matches!(o, Op::UpdateNode { .. } | Op::UpdateEdge { .. }) {
                        r.sub.probes.push("crash_right_after_acknowledged_update");
                    }
                    if r.restart_and_check(&format!("crash after acknowledged {}", o.kind()), &[&m], step).is_none() {
                        break 'hist;
                    }
                    if !continue_after {
                        r.sub.summary = format!("b{}:{}", r.sub.ops_done, m.canon());
                        r.sub.points = ctl.hits();
                        PointCtl::uninstall();
                        return r.sub;
                    }
                }
            }
            Ok(Err(e)) => {
                r.fail(format!("C16/op_refused/{}", o.kind()), format!("{} returned an error in a fault-free configuration: {e}", o.kind()), step);
                break 'hist;
            }
            Err(()) => {
                crashed = true;
                let at = ctl.crashed_at().unwrap_or_default();
                r.sub.crashed_at = Some(at.clone());
                r.sub.probes.push("crash_inside_persist");
                if at.ends_with(".after_wal") {
                    r.sub.probes.push("crash_between_wal_and_storage_write");
                }
                let how = format!("crash at {at} inside {}", o.kind());
                match r.restart_and_check(&how, &[&before, &after], step) {
                    None => break 'hist,
                    Some(i) => {
                        if before.same_state(&after) {
                            r.sub.probes.push("in_flight_without_effect");
                        } else if i == 0 {
                            r.sub.probes.push("in_flight_not_applied");
                        } else {
                            r.sub.probes.push("in_flight_applied");
                        }
                        m = if i == 0 { before } else { after };
                    }
                }
                if !continue_after {
                    r.sub.summary = format!("p@{at}:{}", m.canon());
                    r.sub.points = ctl.hits();
                    PointCtl::uninstall();
                    return r.sub;
                }
                r.sub.probes.push("history_continued_after_crash");
            }
        }
    }
    if r.sub.violations.is_empty() {
        // end of history: clean shutdown, restart, recover
        r.restart_and_check("clean restart at end of history", &[&m], case.events.len());
    }
    r.pm = None;
    r.sub.summary = format!("end:{}", m.canon());
    r.sub.points = ctl.hits();
    PointCtl::uninstall();
    r.sub
}

fn gen_props(r: &mut Rng, boundary: bool, max: usize) -> Map<String, Value> {
    let mut props = Map::new();
    for k in KEYS.iter().take(max) {
        if r.chance(1, 2) {
            let v = if boundary && r.chance(1, 2) { gen_boundary_value(r, 0) } else { gen_small_value(r) };
            if v.get("n").is_some() {
                continue; // Null-valued properties are not generated (C16 is not about them)
            }
            props.insert(k.to_string(), v);
        }
    }
    props
}

impl Scenario for C16 {
    fn id(&self) -> &'static str {
        "C16"
    }
    fn level(&self) -> &'static str {
        "fault_enumeration"
    }
    fn runs(&self, tier: Tier) -> u64 {
        match tier {
            Tier::Quick => 96,
            Tier::Thorough => 6000,
        }
    }
    fn rule(&self) -> &'static str {
        "history = PRNG-generated sequence (1..8 ops, ids 1..5, 3 labels, 2 types, 3 keys) of persist_create_node/edge, persist_delete_*, persist_update_*_properties (always the full property map, so merge and replace readings agree), flush, checkpoint and clean restart for one tenant; executed once crash-free and then once per crash position: every H4 point passed (process crash inside the operation) and every boundary between operations; each sub-execution = crash, drop manager, reopen, recover(tenant), compare with the model (in-flight op applied wholly or not at all), optionally continue the history on the restarted manager and compare again at the end. Non-trivial = at least one operation with H4 points ran and at least one crash fired inside an operation. Distinct = hash of the sequence of (op kind, resolved entity ranks)."
    }
    fn real_components(&self) -> Vec<&'static str> {
        vec![
            "samyama::persistence::PersistenceManager (persist_*, flush, checkpoint, recover)",
            "samyama::persistence::PersistentStorage over real RocksDB on tmpfs",
            "samyama::persistence::Wal through verif::fs in passthrough mode (real files)",
            "samyama::persistence::TenantManager",
        ]
    }
    fn stub_components(&self) -> Vec<&'static str> {
        vec!["process kill = unwind at an H4 point + drop of the PersistenceManager (RocksDB closes its files; a completed put_cf/delete_cf survives exactly as it survives kill -9); power loss is not modelled for RocksDB-backed state"]
    }
    fn assumptions(&self) -> Vec<&'static str> {
        vec![
            "recover() never reads the samyama WAL (verified by reading PersistenceManager::recover: storage.scan_nodes/scan_edges only), so the WAL's BufWriter being flushed by Drop instead of lost does not change what recover returns",
            "between two adjacent H4 points / operation boundaries nothing observable to recover happens (each persist_* performs at most one RocksDB write, which is atomic)",
            "property updates carry the full resulting property map, so the merge-or-replace ambiguity of 'new properties to set' does not enter the oracle; removal of a property is never generated",
            "timestamps (created_at/updated_at) and the version field are ignored",
            "persist_delete_node does not cascade to relationships at this layer; the model does not either",
            "the tenant registry is in-memory only: the harness registers the tenant again after every restart, as the server's start-up would",
        ]
    }
    fn required_probes(&self, _tier: Tier) -> Vec<&'static str> {
        vec![
            "crash_inside_persist",
            "crash_between_wal_and_storage_write",
            "in_flight_applied",
            "in_flight_not_applied",
            "crash_right_after_acknowledged_update",
            "restart_mid_history",
            "history_continued_after_crash",
            "op_delete_node",
            "op_delete_edge",
            "op_update_node",
            "op_update_edge",
            "op_checkpoint",
            "op_flush",
            "node_id_reused_after_delete",
        ]
    }
    fn generate(&self, s: &mut Streams, _run_index: u64, _tier: Tier) -> Case {
        let mut case = Case::new("C16");
        let n = s.knobs.short_len(1, 8);
        let boundary = s.knobs.chance(1, 4);
        let allow_restart = s.knobs.chance(1, 3);
        case.knobs.insert("tenant".into(), json!(s.knobs.below(2)));
        case.knobs.insert("continue_after_crash".into(), json!(s.knobs.chance(1, 3)));
        case.knobs.insert("boundary_values".into(), json!(boundary));
        let r = &mut s.workload;
        // a node first, so that updates and relationships are possible early
        if r.chance(3, 4) {
            case.events.push(json!({"op":"create_node","id":r.below(8),"labels":[r.below(3)],"props":gen_props(r, boundary, 2)}));
        }
        if !case.events.is_empty() && r.chance(1, 2) {
            case.events.push(json!({"op":"create_edge","id":r.below(8),"s":r.below(8),"t":r.below(8),"type":r.below(2),"props":gen_props(r, boundary, 2)}));
        }
        for _ in 0..n {
            let w: [u32; 9] = [4, 4, 4, 3, 3, 3, 1, 1, if allow_restart { 1 } else { 0 }];
            let ev = match r.weighted(&w) {
                0 => {
                    let nl = r.below(3);
                    let labels: Vec<u64> = (0..nl).map(|_| r.below(3)).collect();
                    json!({"op":"create_node","id":r.below(8),"labels":labels,"props":gen_props(r, boundary, 3)})
                }
                1 => json!({"op":"create_edge","id":r.below(8),"s":r.below(8),"t":r.below(8),"type":r.below(2),"props":gen_props(r, boundary, 2)}),
                2 => {
                    let mut set = gen_props(r, boundary, 3);
                    if set.is_empty() {
                        set.insert("k".into(), json!({"i": r.range(0, 9)}));
                    }
                    json!({"op":"update_node","n":r.below(8),"set":set})
                }
                3 => {
                    let mut set = gen_props(r, boundary, 3);
                    if set.is_empty() {
                        set.insert("k".into(), json!({"i": r.range(0, 9)}));
                    }
                    json!({"op":"update_edge","e":r.below(8),"set":set,"version":r.below(3)})
                }
                4 => json!({"op":"delete_node","n":r.below(8)}),
                5 => json!({"op":"delete_edge","e":r.below(8)}),
                6 => json!({"op":"flush"}),
                7 => json!({"op":"checkpoint"}),
                _ => json!({"op":"restart"}),
            };
            case.events.push(ev);
        }
        case
    }
    fn shrink_event(&self, ev: &Value) -> Vec<Value> {
        let mut out = Vec::new();
        match op(ev) {
            "create_node" => out.push(json!({"op":"create_node","id":0,"labels":[0],"props":{}})),
            "create_edge" => {
                let mut e = ev.clone();
                e["props"] = json!({});
                out.push(e);
            }
            "update_node" | "update_edge" => {
                let mut e = ev.clone();
                e["set"] = json!({"k":{"i":7}});
                out.push(e);
            }
            "checkpoint" | "restart" => out.push(json!({"op":"flush"})),
            _ => {}
        }
        out
    }
    fn execute(&self, case: &Case) -> Outcome {
        let mut o = Outcome::new();
        let rd = RunDir::new("c16", case.run_index);
        let mut summaries: Vec<String> = Vec::new();
        let mut seen_sigs: BTreeSet<String> = BTreeSet::new();
        let mut absorb = |o: &mut Outcome, sub: Sub, summaries: &mut Vec<String>| {
            o.steps += sub.steps;
            for p in &sub.probes {
                o.probe(p);
            }
            if let Some(at) = &sub.crashed_at {
                if at.starts_with("after ") {
                    o.fault("process_crash.between_operations");
                } else {
                    o.fault(&format!("process_crash.{at}"));
                }
            }
            summaries.push(sub.summary.clone());
            for v in sub.violations {
                if seen_sigs.insert(v.signature.clone()) {
                    o.violate(v);
                }
            }
        };
        if let Some(p) = case.pin() {
            let crash = Crash::from_pin(p);
            let sub = run_history(case, crash, &rd.sub("pin"));
            o.class_key = hash_str(&sub.sig_parts.join(","));
            o.nontrivial = sub.had_pointed_op;
            absorb(&mut o, sub, &mut summaries);
            o.state_hash = hash_str(&summaries.join("#"));
            return o;
        }
        // crash-free execution: also lists the points passed and counts the operations
        let dry = run_history(case, Crash::None, &rd.sub("dry"));
        rd.remove_sub("dry");
        for part in &dry.sig_parts {
            for kind in ["delete_node", "delete_edge", "update_node", "update_edge", "create_edge", "checkpoint", "flush"] {
                if part.starts_with(kind) {
                    o.probe(&format!("op_{kind}"));
                }
            }
        }
        let n_points = dry.points.len() as u64;
        let n_ops = dry.ops_done;
        let had_pointed = dry.had_pointed_op;
        o.class_key = hash_str(&dry.sig_parts.join(","));
        let dry_failed_early = dry.violations.iter().any(|v| v.signature.starts_with("C16/op_refused") || v.signature.starts_with("C16/open"));
        absorb(&mut o, dry, &mut summaries);
        let mut evals = 1u64;
        let mut crashes_in_op = 0u64;
        if !dry_failed_early {
            for k in 0..n_points {
                let name = format!("p{k}");
                let sub = run_history(case, Crash::AtPoint(k), &rd.sub(&name));
                rd.remove_sub(&name);
                if sub.crashed_at.is_some() {
                    crashes_in_op += 1;
                }
                absorb(&mut o, sub, &mut summaries);
                evals += 1;
            }
            // boundaries between operations (the boundary after the last one is the crash-free run)
            for j in 1..n_ops {
                let name = format!("b{j}");
                let sub = run_history(case, Crash::AfterOp(j), &rd.sub(&name));
                rd.remove_sub(&name);
                absorb(&mut o, sub, &mut summaries);
                evals += 1;
            }
        }
        o.evaluations = evals;
        o.nontrivial = had_pointed && crashes_in_op > 0;
        o.state_hash = hash_str(&summaries.join("#"));
        o
    }
}
