//! C11 — unique constraints reject exactly the duplicates.
//!
//! Sim: one client issues a generated history of Cypher write statements (CREATE one or
//! two nodes, SET / SET += / multi-row SET, REMOVE, SET = null, DELETE, SET n:L, REMOVE n:L)
//! over one constrained pair (:A, p), an unconstrained label :B and a 3-value domain, so
//! collisions are constant.  `CREATE CONSTRAINT` (three spellings) is an event at a
//! PRNG-chosen point; it is issued only when the model holds no duplicate (backfill
//! path) and may be re-issued later.  Node ids are reused by the store's free list
//! (delete then create).
//!
//! Oracle: reference multiset of live (label, value).  With the constraint in place a
//! statement is refused ⇔ applying it to the model would leave two live :A nodes with the
//! same `p`; after every step no two live holders exist in the real store, and an accepted
//! write has its effect on (labels, p).

use crate::kit::core::*;
use crate::kit::cy::*;
use crate::kit::dump::dump;
use crate::kit::model::*;
use crate::kit::rng::{Rng, Streams};
use samyama::graph::GraphStore;
use samyama::query::QueryEngine;
use serde_json::{json, Value};
use std::collections::{BTreeMap, BTreeSet};

pub struct C11;

const LABELS: [&str; 2] = ["A", "B"];

#[derive(Clone, Debug, PartialEq, Eq)]
struct MNode {
    labels: BTreeSet<String>,
    p: Option<String>, // canonical value
}

#[derive(Clone, Default)]
struct Model {
    nodes: BTreeMap<i64, MNode>, // by k
    constraint: bool,
    /// value -> how its last holder under the constraint gave it up
    freed: BTreeMap<String, &'static str>,
}

impl Model {
    fn live(&self) -> Vec<i64> {
        self.nodes.keys().cloned().collect()
    }
    fn holders(&self, v: &str) -> Vec<i64> {
        self.nodes.iter().filter(|(_, n)| n.labels.contains("A") && n.p.as_deref() == Some(v)).map(|(k, _)| *k).collect()
    }
    fn duplicate(&self) -> Option<String> {
        let mut seen = BTreeSet::new();
        for n in self.nodes.values() {
            if n.labels.contains("A") {
                if let Some(v) = &n.p {
                    if !seen.insert(v.clone()) {
                        return Some(v.clone());
                    }
                }
            }
        }
        None
    }
}

fn domain(kind: &str) -> Vec<Value> {
    match kind {
        "str" => vec![json!({"s":"a"}), json!({"s":"b"}), json!({"s":"c"})],
        _ => vec![json!({"i":1}), json!({"i":2}), json!({"i":3})],
    }
}

fn labels_of(mask: u64) -> Vec<&'static str> {
    let mut v = Vec::new();
    if mask & 1 != 0 {
        v.push("A");
    }
    if mask & 2 != 0 {
        v.push("B");
    }
    v
}

fn label_str(ls: &[&str]) -> String {
    ls.iter().map(|l| format!(":{l}")).collect::<String>()
}

fn gen_event(r: &mut Rng) -> Value {
    // label masks are biased to contain A
    let mask = |r: &mut Rng| [1u64, 1, 1, 3, 3, 2, 0][r.usize_below(7)];
    match r.weighted(&[20, 18, 4, 8, 8, 8, 7, 4, 5, 3]) {
        0 => json!({"op":"create","labels":mask(r),"val":r.below(4)}),
        1 => json!({"op":"set","n":r.below(64),"val":r.below(3),"form":r.below(3)}),
        2 => json!({"op":"set_all","label":r.below(2),"val":r.below(3)}),
        3 => json!({"op":"unset","n":r.below(64),"form":r.below(2)}),
        4 => json!({"op":"delete","n":r.below(64),"detach":r.chance(1,2)}),
        5 => json!({"op":"add_label","n":r.below(64),"label":r.below(3) / 2}),
        6 => json!({"op":"remove_label","n":r.below(64),"label":r.below(3) / 2}),
        7 => json!({"op":"create2","labels":[mask(r), mask(r)],"vals":[r.below(3), r.below(3)]}),
        8 => json!({"op":"constraint","syntax":r.below(3)}),
        _ => json!({"op":"index"}),
    }
}

fn pick(list: &[i64], i: u64) -> Option<i64> {
    if list.is_empty() {
        None
    } else {
        Some(list[(i as usize) % list.len()])
    }
}

/// What the real store holds, in model terms (nodes without `k` get negative keys).
fn observe(g: &GraphStore) -> (BTreeMap<i64, MNode>, BTreeMap<i64, u64>) {
    let d = dump(g);
    let mut out = BTreeMap::new();
    let mut ids = BTreeMap::new();
    for (id, n) in &d.nodes {
        let k = n.props.get("k").and_then(|s| s.strip_prefix("I:")).and_then(|s| s.parse::<i64>().ok()).unwrap_or(-(*id as i64));
        // two nodes with the same k would collide: keep both visible
        let k = if out.contains_key(&k) { -(*id as i64) - 1_000_000 } else { k };
        out.insert(k, MNode { labels: n.labels.clone(), p: n.props.get("p").cloned() });
        ids.insert(k, *id);
    }
    (out, ids)
}

impl Scenario for C11 {
    fn id(&self) -> &'static str {
        "C11"
    }
    fn runs(&self, tier: Tier) -> u64 {
        match tier {
            Tier::Quick => 16_000,
            Tier::Thorough => 400_000,
        }
    }
    fn rule(&self) -> &'static str {
        "history = PRNG-generated sequence of <=16 Cypher write statements (CREATE 1-2 nodes, SET / SET += / multi-row SET, REMOVE, SET = null, DELETE, SET n:L, REMOVE n:L) over labels A (constrained on p) and B, values from a 3-value domain, with CREATE CONSTRAINT (3 spellings) and CREATE INDEX as events at PRNG-chosen points. Non-trivial = the constraint was created and afterwards at least one statement wrote a value that was held, or had been held and given up, by an :A node. Distinct = hash of the sequence of (statement kind, resolved node ranks, values)."
    }
    fn real_components(&self) -> Vec<&'static str> {
        vec!["samyama::query::QueryEngine (parser, planner, MutQueryExecutor, write operators)", "GraphStore write path (set_node_property, remove_node_property, delete_node, add_label_to_node, remove_label_from_node)", "IndexManager constraint indexes and CreateConstraintOperator backfill"]
    }
    fn assumptions(&self) -> Vec<&'static str> {
        vec![
            "equality of constrained values is only exercised within one type (3 integers or 3 strings): whether 1 and 1.0 are 'equal values' is not decided here",
            "a CREATE CONSTRAINT issued while the model holds a duplicate is skipped (the statement says nothing about DDL over existing duplicates)",
            "after a refused statement the model is re-synchronised from the store: what a failed statement leaves behind is C05's subject, only the no-two-holders invariant is still checked",
            "MERGE is not part of the history (the property quantifies over CREATE/SET/REMOVE/DELETE statements)",
        ]
    }
    fn required_probes(&self, _tier: Tier) -> Vec<&'static str> {
        vec!["constraint_created", "backfill_nonempty", "duplicate_write_attempted", "freed_value_rewritten", "node_id_reused", "label_added_to_value_holder"]
    }
    fn stack_mb(&self) -> usize {
        16
    }
    fn generate(&self, s: &mut Streams, _run_index: u64, _tier: Tier) -> Case {
        let mut case = Case::new("C11");
        case.knobs.insert("domain".into(), json!(if s.knobs.chance(1, 3) { "str" } else { "int" }));
        let n = s.knobs.short_len(3, 16);
        // where the first CREATE CONSTRAINT goes: start, or somewhere inside
        let at = if s.knobs.chance(1, 3) { 0 } else { s.knobs.usize_below(n.max(1)) };
        for i in 0..n {
            if i == at {
                case.events.push(json!({"op":"constraint","syntax":s.workload.below(3)}));
            }
            case.events.push(gen_event(&mut s.workload));
        }
        case
    }
    fn shrink_event(&self, ev: &Value) -> Vec<Value> {
        let mut out = Vec::new();
        match op(ev) {
            "create" => {
                let mut e = ev.clone();
                e["labels"] = json!(1);
                out.push(e);
            }
            "set" => {
                let mut e = ev.clone();
                e["form"] = json!(0);
                out.push(e);
            }
            "constraint" => out.push(json!({"op":"constraint","syntax":0})),
            "delete" => {
                let mut e = ev.clone();
                e["detach"] = json!(false);
                out.push(e);
            }
            _ => {}
        }
        out
    }
    fn execute(&self, case: &Case) -> Outcome {
        let mut o = Outcome::new();
        let eng = QueryEngine::new();
        let mut g = GraphStore::new();
        let mut m = Model::default();
        let dom = domain(&case.knob_str("domain", "int"));
        let canon = |i: u64| pv_canon(&pv_from_json(&dom[(i % 3) as usize]));
        let litv = |i: u64| lit(&dom[(i % 3) as usize]);
        let mut next_k: i64 = 1;
        let mut dead_ids: BTreeSet<u64> = BTreeSet::new();
        let mut prev_ids: BTreeSet<u64> = BTreeSet::new();
        let mut sig_parts: Vec<String> = Vec::new();
        let mut interesting = false;

        for (step, ev) in case.events.iter().enumerate() {
            let kind = op(ev).to_string();
            let live = m.live();
            let rank = |k: i64| live.iter().position(|x| *x == k).unwrap_or(0);
            // ---- render the statement and apply it to a copy of the model
            let mut post = m.clone();
            let q: String;
            let mut written: Vec<String> = Vec::new(); // values this statement tries to give to an :A node
            let opname: String;
            let resolved: String;
            match kind.as_str() {
                "create" => {
                    let ls = labels_of(u(ev, "labels"));
                    let v = u(ev, "val");
                    let k = next_k;
                    next_k += 1;
                    let p = if v < 3 { Some(canon(v)) } else { None };
                    q = if v < 3 { format!("CREATE (n{} {{k: {k}, p: {}}})", label_str(&ls), litv(v)) } else { format!("CREATE (n{} {{k: {k}}})", label_str(&ls)) };
                    if ls.contains(&"A") {
                        written.extend(p.clone());
                    }
                    post.nodes.insert(k, MNode { labels: ls.iter().map(|s| s.to_string()).collect(), p });
                    opname = "create".into();
                    resolved = format!("{:?}{v}", ls);
                }
                "create2" => {
                    let masks: Vec<u64> = ev["labels"].as_array().map(|a| a.iter().map(|x| x.as_u64().unwrap_or(1)).collect()).unwrap_or_default();
                    let vals: Vec<u64> = ev["vals"].as_array().map(|a| a.iter().map(|x| x.as_u64().unwrap_or(0)).collect()).unwrap_or_default();
                    let mut parts = Vec::new();
                    for i in 0..2 {
                        let ls = labels_of(*masks.get(i).unwrap_or(&1));
                        let v = *vals.get(i).unwrap_or(&0);
                        let k = next_k;
                        next_k += 1;
                        parts.push(format!("(n{i}{} {{k: {k}, p: {}}})", label_str(&ls), litv(v)));
                        if ls.contains(&"A") {
                            written.push(canon(v));
                        }
                        post.nodes.insert(k, MNode { labels: ls.iter().map(|s| s.to_string()).collect(), p: Some(canon(v)) });
                    }
                    q = format!("CREATE {}", parts.join(", "));
                    opname = "create_two_nodes".into();
                    resolved = format!("{masks:?}{vals:?}");
                }
                "set" => {
                    let Some(k) = pick(&live, u(ev, "n")) else { continue };
                    let v = u(ev, "val");
                    let form = u(ev, "form");
                    q = match form {
                        0 => format!("MATCH (n {{k: {k}}}) SET n.p = {}", litv(v)),
                        1 => format!("MATCH (n {{k: {k}}}) SET n += {{p: {}}}", litv(v)),
                        _ => format!("MATCH (n {{k: {k}}}) SET n.q = 1, n.p = {}", litv(v)),
                    };
                    let n = post.nodes.get_mut(&k).unwrap();
                    if n.labels.contains("A") {
                        written.push(canon(v));
                    }
                    n.p = Some(canon(v));
                    opname = ["set", "set_plus_map", "set_two_items"][form.min(2) as usize].into();
                    resolved = format!("{}={v}", rank(k));
                }
                "set_all" => {
                    let l = LABELS[(u(ev, "label") % 2) as usize];
                    let v = u(ev, "val");
                    q = format!("MATCH (n:{l}) SET n.p = {}", litv(v));
                    let mut any = false;
                    for n in post.nodes.values_mut() {
                        if n.labels.contains(l) {
                            if n.labels.contains("A") {
                                written.push(canon(v));
                            }
                            n.p = Some(canon(v));
                            any = true;
                        }
                    }
                    if !any {
                        continue;
                    }
                    opname = "set_multi_row".into();
                    resolved = format!("{l}={v}");
                }
                "unset" => {
                    let Some(k) = pick(&live, u(ev, "n")) else { continue };
                    let form = u(ev, "form");
                    q = if form == 0 { format!("MATCH (n {{k: {k}}}) REMOVE n.p") } else { format!("MATCH (n {{k: {k}}}) SET n.p = null") };
                    post.nodes.get_mut(&k).unwrap().p = None;
                    opname = if form == 0 { "remove_property".into() } else { "set_null".into() };
                    resolved = format!("{}", rank(k));
                }
                "delete" => {
                    let Some(k) = pick(&live, u(ev, "n")) else { continue };
                    q = if ev["detach"].as_bool().unwrap_or(false) { format!("MATCH (n {{k: {k}}}) DETACH DELETE n") } else { format!("MATCH (n {{k: {k}}}) DELETE n") };
                    post.nodes.remove(&k);
                    opname = "delete".into();
                    resolved = format!("{}", rank(k));
                }
                "add_label" | "remove_label" => {
                    let Some(k) = pick(&live, u(ev, "n")) else { continue };
                    let l = LABELS[(u(ev, "label") % 2) as usize];
                    let n = post.nodes.get_mut(&k).unwrap();
                    if kind == "add_label" {
                        q = format!("MATCH (n {{k: {k}}}) SET n:{l}");
                        if l == "A" && !n.labels.contains("A") {
                            if let Some(p) = &n.p {
                                written.push(p.clone());
                                o.probe("label_added_to_value_holder");
                            }
                        }
                        n.labels.insert(l.to_string());
                        opname = "add_label".into();
                    } else {
                        q = format!("MATCH (n {{k: {k}}}) REMOVE n:{l}");
                        n.labels.remove(l);
                        opname = "remove_label".into();
                    }
                    resolved = format!("{}:{l}", rank(k));
                }
                "constraint" => {
                    if m.duplicate().is_some() {
                        continue;
                    }
                    q = match u(ev, "syntax") % 3 {
                        0 => "CREATE CONSTRAINT ON (n:A) ASSERT n.p IS UNIQUE".to_string(),
                        1 => "CREATE CONSTRAINT FOR (n:A) REQUIRE n.p IS UNIQUE".to_string(),
                        _ => "CREATE CONSTRAINT c1 IF NOT EXISTS FOR (n:A) REQUIRE n.p IS UNIQUE".to_string(),
                    };
                    opname = "create_constraint".into();
                    resolved = String::new();
                }
                "index" => {
                    q = "CREATE INDEX ON :A(p)".to_string();
                    opname = "create_index".into();
                    resolved = String::new();
                }
                _ => continue,
            }
            o.steps += 1;
            sig_parts.push(format!("{opname}{resolved}"));

            let run = exec_mut(&eng, &mut g, &q);
            if let Run::Panic(p) = &run {
                o.violate(Violation::new(format!("C11/panic/{opname}"), format!("{q}: {p}"), step));
                break;
            }

            // ---- DDL
            if kind == "constraint" || kind == "index" {
                if kind == "constraint" {
                    if run.is_ok() {
                        if !m.constraint {
                            o.probe("constraint_created");
                            if m.nodes.values().any(|n| n.labels.contains("A") && n.p.is_some()) {
                                o.probe("backfill_nonempty");
                            }
                        }
                        m.constraint = true;
                    } else if !m.constraint {
                        o.probe("constraint_ddl_refused_without_duplicate");
                    }
                }
                continue;
            }

            // ---- the decision: refused <=> would create a second live holder
            let would_dup = m.constraint && post.duplicate().is_some();
            let touches_freed: Option<&'static str> = written.iter().filter_map(|v| m.freed.get(v).copied()).next();
            if m.constraint && !written.is_empty() {
                if would_dup {
                    o.probe("duplicate_write_attempted");
                    interesting = true;
                }
                if touches_freed.is_some() && !would_dup {
                    o.probe("freed_value_rewritten");
                    interesting = true;
                }
            }
            match (&run, would_dup) {
                (Run::Ok(_), true) => {
                    o.violate(Violation::new(
                        format!("C11/duplicate_accepted/{opname}"),
                        format!("`{q}` was accepted although it leaves two live :A nodes with p={:?}; before: {:?}", post.duplicate(), m.nodes),
                        step,
                    ));
                }
                (Run::Err(e), false) => {
                    let class = match touches_freed {
                        Some(how) => format!("value_freed_by_{how}"),
                        None if !m.constraint => "no_constraint".to_string(),
                        None => "value_never_held".to_string(),
                    };
                    o.violate(Violation::new(
                        format!("C11/legal_write_refused/{opname}/{class}"),
                        format!("`{q}` was refused ({e}) although no other live :A node holds the value; live: {:?}", m.nodes),
                        step,
                    ));
                }
                _ => {}
            }

            // ---- state after the statement
            let (real, ids) = observe(&g);
            if run.is_ok() {
                if real != post.nodes && o.violations.is_empty() {
                    o.violate(Violation::new(
                        format!("C11/accepted_write_effect_differs/{opname}"),
                        format!("after accepted `{q}`: store {:?}, model {:?}", real, post.nodes),
                        step,
                    ));
                }
            } else if real != m.nodes {
                o.probe("partial_effect_after_refusal");
            }
            // invariant on the real store
            if m.constraint {
                let mut seen: BTreeMap<&String, i64> = BTreeMap::new();
                for (k, n) in &real {
                    if n.labels.contains("A") {
                        if let Some(v) = &n.p {
                            if let Some(other) = seen.insert(v, *k) {
                                if !o.violations.iter().any(|v| v.signature.starts_with("C11/duplicate_accepted")) {
                                    o.violate(Violation::new(
                                        format!("C11/two_live_holders/{opname}"),
                                        format!("after `{q}`: nodes k={other} and k={k} both carry :A and p={v}"),
                                        step,
                                    ));
                                }
                            }
                        }
                    }
                }
            }
            if !o.violations.is_empty() {
                break;
            }
            // ---- bookkeeping: freed values, id reuse; resync the model from the store
            if m.constraint {
                for (k, before) in &m.nodes {
                    if !before.labels.contains("A") {
                        continue;
                    }
                    let Some(v) = &before.p else { continue };
                    let still = real.get(k).map(|n| n.labels.contains("A") && n.p.as_ref() == Some(v)).unwrap_or(false);
                    if !still {
                        let how: &'static str = match opname.as_str() {
                            "delete" => "delete",
                            "remove_property" | "set_null" => "remove",
                            "remove_label" => "remove_label",
                            _ => "set",
                        };
                        m.freed.insert(v.clone(), how);
                    }
                }
                // a value that is held again is no longer "freed"
                for n in real.values() {
                    if n.labels.contains("A") {
                        if let Some(v) = &n.p {
                            m.freed.remove(v);
                        }
                    }
                }
            }
            for (k, id) in &ids {
                if !m.nodes.contains_key(k) && dead_ids.contains(id) {
                    o.probe("node_id_reused");
                }
            }
            let now: BTreeSet<u64> = ids.values().cloned().collect();
            for gone in prev_ids.difference(&now) {
                dead_ids.insert(*gone);
            }
            prev_ids = now;
            m.nodes = real;
        }
        o.nontrivial = m.constraint && interesting;
        o.class_key = hash_str(&sig_parts.join(","));
        o.state_hash = hash_str(&format!("{:?}|{}", m.nodes, m.constraint));
        o
    }
}

