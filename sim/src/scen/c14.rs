//! C14 — imported snapshots survive restart and crashes during persistence.
//!
//! Sim: one server "process" = a live `GraphStore` + the snapshot directory on
//! `kit::simfs::SimFs` (hook H2).  A history is 1–3 `import` events (a small generated
//! graph, exported with the real `export_tenant_with_compression`, then uploaded) with
//! optional clean `restart` events in between.  An upload does exactly what
//! `restore_snapshot_handler` does (`import_tenant_with_dedup` into the live store, then
//! `persist_snapshot(data_path, bytes)`) — either by calling the two functions in that order
//! (`via_http = false`) or by sending a multipart request through the real axum router
//! (`HttpServer::router()` + tower `oneshot`, polled by `kit::exec::block_on`).
//!
//! Fault enumeration, per import event: the file-system calls of `persist_snapshot` are
//! counted on a fork of the disk; then for every crash point (before each call, every torn
//! offset of the write, and "after the last call") × reboot mode the process is killed
//! there, the disk rebooted and a fresh process restarts:
//!   process_crash        everything a completed call did survives;
//!   power_loss_journal   ext4-like: an fsync commits all earlier namespace ops; afterwards a
//!                        *prefix* of the uncommitted ops survives (every prefix enumerated);
//!   power_loss_posix     bare POSIX: nothing but a directory fsync makes a directory entry
//!                        durable; any *subset* of the uncommitted ops survives (all subsets up
//!                        to 4 pending ops, else none/all + 14 sampled).
//! Restart = `restore_persisted_snapshots` into a fresh `GraphStore` (mirrors main.rs).
//!
//! Rejected uploads (`upload_bad` events, 0–2 per history, anywhere in it): a well-formed export
//! damaged the way uploads get damaged in practice (cut short, a flipped byte, not a snapshot
//! at all, JSON cut mid-record inside an intact gzip, a relationship to a node the file does
//! not contain, an unsupported version) is sent the same way.  Whether it *is* rejected is
//! read off the answer, never assumed: 200 `"status":"ok"` = acknowledged import (treated like
//! any other), everything else = not acknowledged.  A rejected upload is not an import: after
//! it — clean restart, or a crash at any file-system call it made, under every reboot mode —
//! the restored graph must still be the graph as of the acknowledged imports.
//!
//! The history goes on after a crash: for every distinct state a crash inside an acknowledged
//! upload leaves on disk (any reboot mode), the restarted server — serving what it restored —
//! takes further uploads: the client *retries the byte-identical upload* it never got an answer
//! for, and one more new upload follows (both orders).  After each a clean restart must restore
//! the live graph of that server; the retry, when it comes first, is itself killed before each of
//! its file-system calls (restart: graph before or after it).
//!
//! Oracle: the restored graph (canonical dump, ids do not matter) must equal the live graph
//! as of the last acknowledged import, or as of the in-flight one; after a clean restart it
//! must equal the live graph.  Everything else is classified (nothing restored / only the
//! last upload / an older state / restore error / partial or corrupt).

use crate::kit::core::*;
use crate::kit::crashpoints::{crash_points, describe};
use crate::kit::dump::dump;
use crate::kit::exec::block_on;
use crate::kit::model::*;
use crate::kit::rng::{Rng, Streams};
use crate::kit::simfs::{run_process, CrashPoint, OpRec, Reboot, SimFs};
use samyama::graph::{GraphStore, Label, NodeId, PropertyMap};
use samyama::http::HttpServer;
use samyama::snapshot::persist::{persist_snapshot, restore_persisted_snapshots};
use serde_json::{json, Value};
use std::collections::{BTreeMap, BTreeSet};
use std::io::{Read, Write};
use std::path::Path;
use std::sync::Arc;
use tokio::sync::RwLock;

pub struct C14;

const DATA: &str = "/sim/data";
const LABELS: [&str; 2] = ["A", "B"];
const TYPES: [&str; 2] = ["T", "U"];
const KEYS: [&str; 2] = ["k", "m"];
const BAD_KINDS: [&str; 6] = ["truncate_bytes", "truncate_text", "dangling_edge", "garbage", "flip_byte", "bad_version"];

// ------------------------------------------------------------------ snapshots

/// Build the graph of an import event in a scratch store and export it with the real exporter.
/// Every node carries `imp = ordinal` so that two uploads never restore to the same graph.
fn build_snapshot(ev: &Value, ordinal: u64) -> Vec<u8> {
    let mut g = GraphStore::new();
    let mut ids: Vec<NodeId> = Vec::new();
    for n in ev["nodes"].as_array().cloned().unwrap_or_default() {
        let labels: Vec<Label> = n["l"].as_array().map(|a| a.iter().map(|x| Label::new(LABELS[(x.as_u64().unwrap_or(0) % 2) as usize])).collect()).unwrap_or_default();
        let mut pm = PropertyMap::new();
        if let Some(o) = n["p"].as_object() {
            for (k, v) in o {
                pm.insert(k.clone(), pv_from_json(v));
            }
        }
        pm.insert("imp".into(), samyama::graph::PropertyValue::Integer(ordinal as i64));
        ids.push(g.create_node_with_properties("default", labels, pm));
    }
    if !ids.is_empty() {
        for e in ev["edges"].as_array().cloned().unwrap_or_default() {
            let s = ids[(u(&e, "s") as usize) % ids.len()];
            let t = ids[(u(&e, "t") as usize) % ids.len()];
            let mut pm = PropertyMap::new();
            if let Some(o) = e["p"].as_object() {
                for (k, v) in o {
                    pm.insert(k.clone(), pv_from_json(v));
                }
            }
            let _ = g.create_edge_with_properties(s, t, TYPES[(u(&e, "ty") % 2) as usize], pm);
        }
    }
    let level = (u(ev, "gz") % 10) as u32;
    let mut buf = Vec::new();
    samyama::snapshot::export_tenant_with_compression(&g, &mut buf, level).expect("export of a small graph");
    // The bytes (and with them the number of torn-write crash points) must be a pure function
    // of the case: the header carries `created_at: Utc::now()`, and JSON key order / label
    // order / relationship order follow HashMap iteration order inside the exporter, which
    // depends on how many maps the process created before (lazy statics of the first case in
    // a worker).  Re-write the export in a canonical form: constant timestamp, sorted keys
    // (serde_json's map is ordered), sorted label arrays, records sorted by kind and id.
    let mut text = String::new();
    flate2::read::GzDecoder::new(&buf[..]).read_to_string(&mut text).expect("gunzip own export");
    let mut lines = text.lines();
    let mut h: Value = serde_json::from_str(lines.next().unwrap_or("{}")).expect("header json");
    h["created_at"] = json!("2000-01-01T00:00:00+00:00");
    let mut recs: Vec<(u8, u64, String)> = Vec::new();
    for l in lines.filter(|l| !l.is_empty()) {
        let mut v: Value = serde_json::from_str(l).expect("record json");
        if let Some(a) = v.get_mut("labels").and_then(|x| x.as_array_mut()) {
            a.sort_by(|x, y| x.as_str().cmp(&y.as_str()));
        }
        let kind = match v["t"].as_str() {
            Some("h") => 0,
            Some("n") => 1,
            _ => 2,
        };
        // Like the exporter, write the discriminator `"t"` first (the importer recognises a record
        // by that prefix and only otherwise parses for a top-level `t`; a line it cannot classify
        // is skipped, one it can classify but not parse is an error — damaged uploads should meet
        // the same path as a damaged real export), the other keys sorted.
        let id = v["id"].as_u64().unwrap_or(0);
        let tag = v["t"].as_str().unwrap_or("").to_string();
        if let Some(m) = v.as_object_mut() {
            m.remove("t");
        }
        let rest = serde_json::to_string(&v).unwrap();
        let line = if rest.len() > 2 { format!("{{\"t\":\"{tag}\",{}", &rest[1..]) } else { format!("{{\"t\":\"{tag}\"}}") };
        recs.push((kind, id, line));
    }
    recs.sort();
    let mut enc = flate2::write::GzEncoder::new(Vec::new(), flate2::Compression::new(level));
    enc.write_all(serde_json::to_string(&h).unwrap().as_bytes()).unwrap();
    enc.write_all(b"\n").unwrap();
    for (_, _, l) in recs {
        enc.write_all(l.as_bytes()).unwrap();
        enc.write_all(b"\n").unwrap();
    }
    enc.finish().unwrap()
}

fn gunzip(b: &[u8]) -> Vec<u8> {
    let mut out = Vec::new();
    flate2::read::GzDecoder::new(b).read_to_end(&mut out).expect("gunzip own export");
    out
}

fn gzip(b: &[u8], level: u32) -> Vec<u8> {
    let mut enc = flate2::write::GzEncoder::new(Vec::new(), flate2::Compression::new(level));
    enc.write_all(b).unwrap();
    enc.finish().unwrap()
}

/// Bytes of an `upload_bad` event: the well-formed export `good`, damaged.  A pure function of
/// the event.  Nothing here decides that the server *must* reject the result — some damage is
/// harmless (a flipped bit in the gzip header's mtime, JSON cut exactly at a line end) and the
/// server may well accept it; the harness goes by the answer.
fn mangle(good: &[u8], ev: &Value) -> Vec<u8> {
    let at = u(ev, "at");
    let level = (u(ev, "gz") % 10) as u32;
    match s(ev, "kind") {
        // connection dropped / client bug: a strict prefix of the file (possibly empty)
        "truncate_bytes" => good[..(at as usize) % good.len().max(1)].to_vec(),
        // one damaged byte
        "flip_byte" => {
            let mut b = good.to_vec();
            if !b.is_empty() {
                let i = (at as usize) % b.len();
                b[i] ^= 1 + ((at >> 32) % 255) as u8;
            }
            b
        }
        // not a snapshot at all
        "garbage" => {
            let n = 1 + (at % 96) as usize;
            let mut x = at | 1;
            (0..n)
                .map(|_| {
                    x = x.wrapping_mul(6364136223846793005).wrapping_add(1442695040888963407);
                    (x >> 56) as u8
                })
                .collect()
        }
        // exporter died mid-record, the gzip stream itself is intact
        "truncate_text" => {
            let text = gunzip(good);
            gzip(&text[..(at as usize) % text.len().max(1)], level)
        }
        // intact file whose import fails part-way: a relationship to a node that is not in it,
        // inserted after the header and `at % lines` further records
        "dangling_edge" => {
            let text = String::from_utf8_lossy(&gunzip(good)).to_string();
            let mut lines: Vec<String> = text.lines().map(|l| l.to_string()).collect();
            let first_node = lines.iter().skip(1).filter_map(|l| serde_json::from_str::<Value>(l).ok()).find(|v| v["t"] == "n").map(|v| v["id"].as_u64().unwrap_or(0)).unwrap_or(0);
            let unknown = (1u64 << 40) + at % 1000;
            let (src, tgt) = if at & 1 == 0 { (first_node, unknown) } else { (unknown, first_node) };
            let pos = 1 + (at as usize >> 1) % lines.len().max(1);
            lines.insert(pos.min(lines.len()), json!({"t":"e","id":(1u64 << 40),"src":src,"tgt":tgt,"type":TYPES[(at % 2) as usize],"props":{}}).to_string());
            gzip((lines.join("\n") + "\n").as_bytes(), level)
        }
        // a file from a newer release
        "bad_version" => {
            let text = String::from_utf8_lossy(&gunzip(good)).to_string();
            let mut lines: Vec<String> = text.lines().map(|l| l.to_string()).collect();
            if let Some(h) = lines.first_mut() {
                let mut v: Value = serde_json::from_str(h).unwrap_or(json!({}));
                v["version"] = json!(3 + at % 5);
                *h = v.to_string();
            }
            gzip((lines.join("\n") + "\n").as_bytes(), level)
        }
        _ => good.to_vec(),
    }
}

fn canon_of(g: &GraphStore) -> String {
    dump(g).canonical()
}

fn import_into(g: &mut GraphStore, data: &[u8]) -> Result<(), String> {
    samyama::snapshot::import_tenant_with_dedup(g, std::io::Cursor::new(data), &[]).map(|_| ()).map_err(|e| e.to_string())
}

fn store_from(recipe: &[Vec<u8>]) -> GraphStore {
    let mut g = GraphStore::new();
    for b in recipe {
        let _ = import_into(&mut g, b);
    }
    g
}

/// POST /api/snapshot/import through the real router. Returns (status, body).
fn http_upload(store: Arc<RwLock<GraphStore>>, data: &[u8]) -> (u16, String) {
    use http_body_util::BodyExt;
    use tower::ServiceExt;
    let router = HttpServer::new(store, 0).with_data_path(Some(DATA.to_string())).router();
    let b = "----simrunBoundary7MA4YWxkTrZu0gW";
    let mut body: Vec<u8> = Vec::new();
    body.extend_from_slice(format!("--{b}\r\nContent-Disposition: form-data; name=\"file\"; filename=\"s.sgsnap\"\r\nContent-Type: application/octet-stream\r\n\r\n").as_bytes());
    body.extend_from_slice(data);
    body.extend_from_slice(format!("\r\n--{b}--\r\n").as_bytes());
    let req = axum::http::Request::builder()
        .method("POST")
        .uri("/api/snapshot/import")
        .header("content-type", format!("multipart/form-data; boundary={b}"))
        .header("content-length", body.len().to_string())
        .body(axum::body::Body::from(body))
        .unwrap();
    let resp = block_on(router.oneshot(req)).unwrap();
    let status = resp.status().as_u16();
    let bytes = block_on(resp.into_body().collect()).map(|c| c.to_bytes().to_vec()).unwrap_or_default();
    (status, String::from_utf8_lossy(&bytes).to_string())
}

// ------------------------------------------------------------------ restart

#[derive(Clone, Debug)]
enum Restored {
    /// restore returned Ok: canonical dump of the store the server would serve
    Graph(String),
    /// restore returned Err (main.rs logs it and serves whatever is in the store): message, canonical dump
    Error(String, String),
    Panic(String),
}

/// A fresh process starts on this disk.  Mirrors `/repo/src/main.rs` lines 527-540 (block
/// "HA-08: If no RocksDB recovery happened, replay the last committed .sgsnap"):
///     if !recovered { if let Some(path) = &config.data_path {
///         match restore_persisted_snapshots(path, &mut graph) { Ok(Some(_)) | Ok(None) => .., Err(e) => eprintln!(..) } } }
/// with `recovered == false` (snapshot imports bypass the PersistenceManager, so RocksDB
/// lists no tenant: main.rs 476-503) and `graph` the empty store created at start-up.
fn restart(fs: &Arc<SimFs>) -> (Restored, GraphStore) {
    fs.install();
    let mut g = GraphStore::new();
    let r = std::panic::catch_unwind(std::panic::AssertUnwindSafe(|| restore_persisted_snapshots(DATA, &mut g).map(|s| s.is_some()).map_err(|e| e.to_string())));
    let out = match r {
        Ok(Ok(_)) => Restored::Graph(canon_of(&g)),
        Ok(Err(e)) => Restored::Error(e, canon_of(&g)),
        Err(_) => Restored::Panic(crate::kit::runner::last_panic()),
    };
    (out, g)
}

/// What a restart can see of one path: absent / directory / file with this content.
fn path_state(fs: &SimFs, p: &Path) -> u64 {
    match fs.read_file(p) {
        Some(d) => crate::kit::rng::fnv1a(&d) ^ (d.len() as u64).rotate_left(40) ^ 0x5555,
        None if fs.is_dir(p) => {
            // a directory: its listing
            let mut s = String::from("dir:");
            for (f, _) in fs.files() {
                if f.parent() == Some(p) {
                    s.push_str(&f.to_string_lossy());
                    s.push(';');
                }
            }
            hash_str(&s)
        }
        None => 0,
    }
}

// ------------------------------------------------------------------ one pass over a history

#[derive(Clone, Copy, PartialEq, Debug)]
enum Pass {
    /// file system commits namespace ops at every fsync; sub-executions: process_crash, power_loss_journal
    Journal,
    /// bare POSIX; sub-executions: power_loss_posix
    Posix,
}

impl Pass {
    fn name(&self) -> &'static str {
        match self {
            Pass::Journal => "journal",
            Pass::Posix => "posix",
        }
    }
}

struct Ctx {
    vios: Vec<Violation>,
    sigs: BTreeSet<String>,
    probes: BTreeMap<String, u64>,
    faults: BTreeMap<String, u64>,
    evals: u64,
    steps: u64,
    memo: Vec<(Vec<(String, u64)>, Restored)>,
    /// crash states (import event x what the crash left on disk) whose history was already continued
    followed: BTreeSet<u64>,
    stop: bool,
}

impl Ctx {
    fn probe(&mut self, p: &str) {
        *self.probes.entry(p.to_string()).or_insert(0) += 1;
    }
    fn violate(&mut self, sig: String, detail: String, step: usize, mut pin: Value) {
        if !self.sigs.insert(sig.clone()) || self.vios.len() >= 10 {
            return;
        }
        pin["sig"] = json!(sig);
        self.vios.push(Violation::new(sig, detail, step).with_pin(pin));
    }
    /// `restart` is a deterministic function of what the file system answers, so its result is
    /// cached under the state of exactly the paths it looked at (taken from the op log of the
    /// run that produced the entry).  Disks that differ only in files the restart never
    /// touches (the torn tmp file) share an entry.
    fn restart_memo(&mut self, fs: &Arc<SimFs>) -> Restored {
        for (deps, r) in &self.memo {
            if deps.iter().all(|(p, st)| path_state(fs, Path::new(p)) == *st) {
                return r.clone();
            }
        }
        fs.reset_ops();
        let (r, _) = restart(fs);
        let mut deps: Vec<(String, u64)> = Vec::new();
        for o in fs.ops() {
            if !deps.iter().any(|(p, _)| *p == o.path) {
                let st = path_state(fs, Path::new(&o.path));
                deps.push((o.path, st));
            }
        }
        self.memo.push((deps, r.clone()));
        r
    }
}

/// What the history has established so far (for classifying a wrong restore).
struct Known {
    /// canonical live graph after each acknowledged import / restart, oldest first (starts with the empty graph)
    states: Vec<String>,
    /// canonical graph each acknowledged upload restores to *on its own*, oldest first
    alone: Vec<String>,
    empty: String,
    /// bytes of every upload the server answered with an error (never acknowledged), plus the
    /// in-flight one while its crash points are enumerated
    rejected: Vec<Vec<u8>>,
}

/// Does the snapshot file a restart would read hold the bytes of a *rejected* upload?
fn committed_is_rejected(fs: &SimFs, known: &Known) -> bool {
    match fs.read_file(Path::new(&format!("{DATA}/snapshots/default.sgsnap"))) {
        Some(b) => known.rejected.iter().any(|r| *r == b),
        None => false,
    }
}

fn classify(r: &Restored, allowed: &[&String], known: &Known, inflight_alone: Option<&String>, disk: &SimFs) -> Option<(&'static str, String)> {
    let (class, detail) = classify_restored(r, allowed, known, inflight_alone)?;
    // whatever the wrong restore looks like (error, nothing, garbage): if the file the restart
    // read is an upload the server had *refused*, that is the defect to name
    if committed_is_rejected(disk, known) {
        return Some(("rejected_upload_replaced_committed_snapshot", format!("snapshots/default.sgsnap holds the bytes of an upload that was answered with an error (never acknowledged); {detail}")));
    }
    Some((class, detail))
}

fn classify_restored(r: &Restored, allowed: &[&String], known: &Known, inflight_alone: Option<&String>) -> Option<(&'static str, String)> {
    match r {
        Restored::Panic(m) => Some(("restore_panicked", format!("restore panicked: {m}"))),
        Restored::Error(e, left) => Some(("restore_error", format!("restore_persisted_snapshots failed: {e} (a snapshot that cannot be read was committed); the store it leaves behind: {}", left.replace('\n', " ")))),
        Restored::Graph(c) => {
            if allowed.iter().any(|a| *a == c) {
                return None;
            }
            let n_acked = known.alone.len();
            // "only the last upload" comes first: an acknowledged upload may hold no nodes at all
            // (a header-only file is a valid snapshot), and then restoring it alone restores nothing
            let class = if known.alone.last() == Some(c) || inflight_alone == Some(c) {
                "only_last_import_kept"
            } else if *c == known.empty {
                "nothing_restored"
            } else if known.states.iter().any(|s| s == c) {
                "older_state"
            } else if known.alone.iter().any(|s| s == c) {
                "older_import_alone"
            } else {
                "partial_or_corrupt"
            };
            Some((class, format!("{n_acked} import(s) acknowledged; restart restored: {}", c.replace('\n', " "))))
        }
    }
}

fn sig_for(when: &str, mode: &str, class: &str) -> String {
    if class == "only_last_import_kept" {
        // the disk mechanism worked; the *content* policy (one file, last upload only) loses data
        "C14/restart/only_last_import_kept".to_string()
    } else if class == "rejected_upload_replaced_committed_snapshot" {
        // same defect whether the restart is clean or follows a crash inside the rejected upload
        "C14/restart/rejected_upload_replaced_committed_snapshot".to_string()
    } else if when == "clean_restart" {
        format!("C14/clean_restart/{class}")
    } else {
        format!("C14/crash/{mode}/{class}")
    }
}

struct Opts {
    /// a fixed one-node snapshot uploaded after a crash + restart
    followup: Vec<u8>,
    via_http: bool,
    max_enum_write: usize,
    samples: Vec<u64>,
    do_crash: bool,
    do_clean: bool,
}

/// What a crash left in the snapshot directory, as far as the next process can tell apart:
/// per file its name and whether it is empty / holds exactly the bytes of the upload that was in
/// flight / (tmp file) some other part of them / something else (by content).
fn disk_shape(d: &SimFs, inflight: &[u8]) -> String {
    let mut out = String::new();
    for (p, l) in d.files() {
        let b = d.read_file(&p).unwrap_or_default();
        let name = p.to_string_lossy().to_string();
        let what = if l == 0 {
            "empty".to_string()
        } else if b == inflight {
            "inflight".to_string()
        } else if name.ends_with(".tmp") {
            "part".to_string()
        } else {
            format!("{:016x}", crate::kit::rng::fnv1a(&b))
        };
        out.push_str(&format!("{name}={what};"));
    }
    out
}

enum UploadErr {
    Refused(String),
    PersistFailed(String),
}

/// One upload to the running server: through the router, or the handler's two steps directly.
fn upload(via_http: bool, live: &Arc<RwLock<GraphStore>>, data: &[u8]) -> Result<(), UploadErr> {
    if via_http {
        let (status, body) = http_upload(live.clone(), data);
        if status == 200 && body.contains("\"status\":\"ok\"") {
            Ok(())
        } else {
            Err(UploadErr::Refused(format!("{status} {body}")))
        }
    } else {
        let mut g = live.try_write().expect("uncontended");
        import_into(&mut g, data).map_err(UploadErr::Refused)?;
        persist_snapshot(DATA, data).map_err(|e| UploadErr::PersistFailed(e.to_string()))
    }
}

/// Where a continued history branched off.
struct Cont<'a> {
    step: usize,
    /// reboot mode of the crash the history continues after
    mode: &'a str,
    origin: String,
    pin: Value,
}

/// The history continues after a crash: a new server process came up on `d2` and serves the graph
/// `c0` it restored.  The client, which never got an answer for the upload that was in flight,
/// *retries it* (the byte-identical file) and another upload follows — in both orders.  After
/// each of these acknowledged uploads a clean restart must restore the live graph; the retry, when
/// it comes first, is also killed before each of its file-system calls (restart: the graph before or after it).
/// Restoring the last acknowledged / the in-flight upload alone is the listed finding.
fn continue_after_crash(cx: &mut Ctx, o: &Opts, d2: &Arc<SimFs>, c0: &String, empty: &String, inflight: &[u8], w: &Cont) {
    let snap = format!("{DATA}/snapshots/default.sgsnap");
    let marker = format!("{snap}.committed");
    // the restored store, rebuilt from the file the restart read
    let recipe0: Vec<Vec<u8>> = match d2.read_file(Path::new(&snap)) {
        Some(b) if c0 != empty => vec![b],
        _ => vec![],
    };
    if cx.vios.len() >= 10 {
        return;
    }
    if w.mode != "process_crash" {
        cx.probe("history_continued_after_power_loss");
    }
    for chain in [["retried", "next"], ["next", "retried"]] {
        let disk = d2.fork();
        let live: Arc<RwLock<GraphStore>> = Arc::new(RwLock::new(store_from(&recipe0)));
        let mut recipe = recipe0.clone();
        let mut prev = c0.clone();
        let mut told = w.origin.clone();
        for (i, which) in chain.iter().enumerate() {
            let x: &[u8] = if *which == "retried" { inflight } else { &o.followup };
            told.push_str(if *which == "retried" { ", the client retried the same upload" } else { ", next upload (one new node)" });
            if *which == "retried" {
                cx.probe("retry_after_crash");
                if disk.read_file(Path::new(&snap)).as_deref() == Some(inflight) && disk.read_file(Path::new(&marker)).is_none() {
                    // the crashed attempt got as far as putting the complete file in place, uncommitted
                    cx.probe("retry_onto_uncommitted_identical_snapshot");
                }
            } else {
                cx.probe("followup_upload_after_crash");
            }
            let pre = disk.fork();
            disk.install();
            disk.reset_ops();
            let verdict = upload(o.via_http, &live, x);
            let ops2: Vec<OpRec> = disk.ops();
            cx.evals += 1;
            cx.steps += 1;
            match verdict {
                Ok(()) => {}
                Err(UploadErr::Refused(e)) => {
                    cx.violate(format!("C14/after_crash/{}/{which}_upload_refused", w.mode), format!("{told}: a valid snapshot was refused: {}", e.replace('\n', " ")), w.step, w.pin.clone());
                    break;
                }
                Err(UploadErr::PersistFailed(e)) => {
                    cx.violate(format!("C14/after_crash/{}/{which}_persist_failed", w.mode), format!("{told}: persist_snapshot failed: {e}"), w.step, w.pin.clone());
                    break;
                }
            }
            let want = canon_of(&live.try_read().expect("uncontended"));
            let alone = canon_of(&store_from(&[x.to_vec()]));
            // ---- acknowledged; clean restart
            let f = disk.fork();
            f.reboot(Reboot::ProcessCrash, &[]);
            let r3 = cx.restart_memo(&f);
            cx.evals += 1;
            cx.steps += 1;
            let files = |d: &SimFs| d.files().iter().map(|(p, l)| format!("{}({l})", p.file_name().map(|x| x.to_string_lossy().to_string()).unwrap_or_default())).collect::<Vec<_>>();
            let mut bad = true;
            match &r3 {
                Restored::Graph(c) if *c == want => {
                    bad = false;
                    if *which == "retried" {
                        cx.probe("retried_upload_restored");
                    }
                }
                Restored::Graph(c) if *c == alone => cx.violate(sig_for("crash", w.mode, "only_last_import_kept"), format!("{told} acknowledged; the following clean restart restored only that upload"), w.step, w.pin.clone()),
                Restored::Graph(c) => {
                    let class = if c == empty {
                        "nothing"
                    } else if *c == prev {
                        "the graph as before this upload"
                    } else {
                        "a partial or corrupt graph"
                    };
                    cx.violate(
                        format!("C14/after_crash/{}/{which}_upload_not_restored", w.mode),
                        format!("{told} acknowledged; the following clean restart restored {class} ({}); expected {}; files: {:?}", c.replace('\n', " "), want.replace('\n', " "), files(&f)),
                        w.step,
                        w.pin.clone(),
                    )
                }
                Restored::Error(e, _) => cx.violate(format!("C14/after_crash/{}/restore_error", w.mode), format!("{told} acknowledged; the following clean restart failed: {e}"), w.step, w.pin.clone()),
                Restored::Panic(m) => cx.violate(format!("C14/after_crash/{}/restore_panicked", w.mode), format!("{told}: {m}"), w.step, w.pin.clone()),
            }
            // ---- the same upload killed before each of its file-system calls
            if i == 0 && *which == "retried" {
                // (op boundaries and one torn offset per write: the torn states of the tmp file were
                // enumerated for this very file when it was first uploaded)
                let pts: Vec<CrashPoint> = crash_points(&ops2, 0, &[]).into_iter().filter(|c| c.partial.is_none() || c.partial == ops2.get(c.op as usize).map(|o| o.len / 2)).collect();
                for cp in pts {
                    let d = pre.fork();
                    d.install();
                    d.set_crash(Some(cp));
                    let fired = if o.via_http {
                        let throwaway = Arc::new(RwLock::new(store_from(&recipe)));
                        run_process(|| http_upload(throwaway, x)).is_err()
                    } else {
                        run_process(|| persist_snapshot(DATA, x)).is_err()
                    };
                    if fired {
                        cx.probe("crash_inside_upload_after_crash");
                    }
                    d.reboot(Reboot::ProcessCrash, &[]);
                    let r4 = cx.restart_memo(&d);
                    cx.evals += 1;
                    cx.steps += 1;
                    let at = format!("{told}, killed {} [process_crash]", describe(&ops2, &cp));
                    match &r4 {
                        Restored::Graph(c) if *c == want || *c == prev => {}
                        Restored::Graph(c) if *c == alone => cx.violate(sig_for("crash", w.mode, "only_last_import_kept"), format!("{at}; the following restart restored only that upload"), w.step, w.pin.clone()),
                        Restored::Graph(c) => {
                            let class = if c == empty { "nothing_restored" } else { "partial_or_corrupt" };
                            cx.violate(
                                format!("C14/after_crash/{}/crash_in_{which}_upload/{class}", w.mode),
                                format!("{at}; the following restart restored {}; expected {} or {}; files: {:?}", c.replace('\n', " "), prev.replace('\n', " "), want.replace('\n', " "), files(&d)),
                                w.step,
                                w.pin.clone(),
                            )
                        }
                        Restored::Error(e, _) => cx.violate(format!("C14/after_crash/{}/crash_in_{which}_upload/restore_error", w.mode), format!("{at}; the following restart failed: {e}"), w.step, w.pin.clone()),
                        Restored::Panic(m) => cx.violate(format!("C14/after_crash/{}/crash_in_{which}_upload/restore_panicked", w.mode), format!("{at}: {m}"), w.step, w.pin.clone()),
                    }
                }
                disk.install();
            }
            if bad {
                break;
            }
            // the server keeps running
            prev = want;
            recipe.push(x.to_vec());
        }
    }
}

fn run_pass(case: &Case, pass: Pass, o: &Opts, cx: &mut Ctx) {
    let disk = SimFs::new();
    disk.set_journal_mode(pass == Pass::Journal);
    let live: Arc<RwLock<GraphStore>> = Arc::new(RwLock::new(GraphStore::new()));
    let empty = canon_of(&GraphStore::new());
    let mut known = Known { states: vec![empty.clone()], alone: vec![], empty, rejected: vec![] };
    // snapshots whose import, in order, into an empty store gives the live store
    let mut recipe: Vec<Vec<u8>> = Vec::new();
    let mut ordinal = 0u64;
    let end = json!({"op":"restart","final":true});
    for (step, ev) in case.events.iter().chain(std::iter::once(&end)).enumerate() {
        if cx.stop {
            break;
        }
        match op(ev) {
            "import" | "upload_bad" => {
                ordinal += 1;
                let bad = op(ev) == "upload_bad";
                let data = if bad { mangle(&build_snapshot(ev, ordinal), ev) } else { build_snapshot(ev, ordinal) };
                let canon_prev = known.states.last().unwrap().clone();
                let pre = disk.fork();
                // ---- the fault-free upload on the main disk; the answer says whether it is acknowledged
                disk.install();
                disk.reset_ops();
                let verdict: Result<(), String> = if o.via_http {
                    let (status, body) = http_upload(live.clone(), &data);
                    if status == 200 && body.contains("\"status\":\"ok\"") {
                        Ok(())
                    } else {
                        Err(format!("{status} {body}"))
                    }
                } else {
                    // restore_snapshot_handler (src/http/handler.rs 752-773): import into the live store; only if that succeeded, persist
                    let mut g = live.try_write().expect("uncontended");
                    match import_into(&mut g, &data) {
                        Err(e) => Err(e),
                        Ok(()) => {
                            if let Err(e) = persist_snapshot(DATA, &data) {
                                cx.violate("C14/persist/error_on_healthy_disk".into(), format!("persist_snapshot failed: {e}"), step, json!({"phase":"base","pass":pass.name()}));
                                cx.stop = true;
                                break;
                            }
                            Ok(())
                        }
                    }
                };
                let acked = verdict.is_ok();
                if let (false, Err(e)) = (bad, &verdict) {
                    let sig = if o.via_http { "C14/import/http/rejected_valid_snapshot" } else { "C14/import/rejected_valid_snapshot" };
                    cx.violate(sig.into(), format!("upload of an exported snapshot was refused: {e}"), step, json!({"phase":"base","pass":pass.name()}));
                    cx.stop = true;
                    break;
                }
                let ops: Vec<OpRec> = disk.ops();
                if acked && !ops.iter().any(|x| x.kind == "write") {
                    cx.violate("C14/persist/nothing_written".into(), format!("the upload was acknowledged but no snapshot bytes were written (ops: {})", ops.len()), step, json!({"phase":"base","pass":pass.name()}));
                    cx.stop = true;
                    break;
                }
                let canon_new = canon_of(&live.try_read().expect("uncontended"));
                // what this upload restores to on its own (only an acknowledged one can be "the last import")
                let alone_new: Option<String> = if acked { Some(canon_of(&store_from(&[data.clone()]))) } else { None };
                cx.steps += 1;
                cx.evals += 1;
                if bad && acked {
                    // harmless damage (e.g. a flipped bit in the gzip header): an import like any other
                    cx.probe("damaged_upload_accepted");
                    cx.probe(&format!("accepted.{}", s(ev, "kind")));
                }
                if !acked {
                    cx.probe("rejected_upload");
                    cx.probe(&format!("rejected.{}", s(ev, "kind")));
                    if o.via_http {
                        cx.probe("rejected_upload_via_http");
                    }
                    if !known.alone.is_empty() {
                        cx.probe("rejected_after_acknowledged_import");
                    }
                    if !ops.is_empty() {
                        cx.probe("rejected_upload_touched_disk");
                    }
                    if canon_new != canon_prev {
                        // The refused upload changed the *live* graph.  C14 speaks about what a restart
                        // restores, not about the live graph of a refused import (that is the import's
                        // own all-or-nothing contract), and "the graph as of the acknowledged imports"
                        // is no longer something the live store can tell us: end this history here.
                        cx.probe("rejected_upload_changed_live_graph");
                        SimFs::uninstall();
                        break;
                    }
                    known.rejected.push(data.clone());
                    // ---- clean restart right after the refusal: still the acknowledged imports
                    if o.do_clean {
                        let d = disk.fork();
                        d.reboot(Reboot::ProcessCrash, &[]);
                        let r = cx.restart_memo(&d);
                        cx.evals += 1;
                        cx.steps += 1;
                        cx.probe("restart_after_rejected_upload");
                        if let Some((class, detail)) = classify(&r, &[&canon_prev], &known, None, &d) {
                            let pin = json!({"phase":"clean","pass":pass.name(),"event":step});
                            cx.violate(sig_for("clean_restart", "clean", class), format!("upload #{ordinal} ({}) was answered with an error ({}); clean restart: {detail}; expected the graph as of the acknowledged imports {}", s(ev, "kind"), verdict.as_ref().err().map(|e| e.replace('\n', " ")).unwrap_or_default(), canon_prev.replace('\n', " ")), step, pin);
                        }
                        disk.install();
                    }
                }

                // ---- crash enumeration on forks of the pre-upload disk
                if o.do_crash {
                    let modes: &[&str] = if pass == Pass::Journal { &["process_crash", "power_loss_journal"] } else { &["power_loss_posix"] };
                    for mode in modes {
                        let full_torn = *mode == "process_crash" && !o.via_http;
                        let mut pts = crash_points(&ops, if full_torn { o.max_enum_write } else { 0 }, if full_torn { &o.samples } else { &o.samples[..o.samples.len().min(4)] });
                        pts.push(CrashPoint { op: ops.len() as u64, partial: None });
                        for cp in pts {
                            let d = pre.fork();
                            d.install();
                            d.set_crash(Some(cp));
                            let fired = if o.via_http {
                                let throwaway = Arc::new(RwLock::new(store_from(&recipe)));
                                run_process(|| http_upload(throwaway, &data)).is_err()
                            } else if acked {
                                run_process(|| persist_snapshot(DATA, &data)).is_err()
                            } else {
                                // the import failed: the handler's error branch never reaches persist_snapshot
                                false
                            };
                            if fired && acked {
                                cx.probe("crash_inside_persist");
                            } else if fired {
                                cx.probe("crash_inside_rejected_upload");
                            }
                            for (k, v) in d.faults_fired() {
                                *cx.faults.entry(k).or_insert(0) += v;
                            }
                            let pending = d.pending_ns();
                            // power-loss decisions: namespace choices first, then one number per unsynced file
                            let data_choices: Vec<u64> = if *mode != "process_crash" && d.unsynced_files() > 0 { vec![0, u64::MAX, o.samples.first().cloned().unwrap_or(7)] } else { vec![0] };
                            let ns_choices: Vec<Vec<u64>> = match *mode {
                                "process_crash" => vec![vec![]],
                                "power_loss_journal" => (0..=pending.len() as u64).map(|k| vec![k]).collect(),
                                _ => {
                                    let p = pending.len();
                                    let masks: Vec<u64> = if p <= 4 {
                                        (0..(1u64 << p)).collect()
                                    } else {
                                        let mut m: BTreeSet<u64> = [0u64, (1u64 << p) - 1].into_iter().collect();
                                        for s in o.samples.iter().take(14) {
                                            m.insert(s % (1u64 << p));
                                        }
                                        m.into_iter().collect()
                                    };
                                    masks.into_iter().map(|m| (0..p).map(|i| (m >> i) & 1).collect()).collect()
                                }
                            };
                            for ns in &ns_choices {
                                for dc in &data_choices {
                                    let d2 = d.fork();
                                    let mut choices = ns.clone();
                                    choices.extend(std::iter::repeat(*dc).take(8));
                                    let report = match *mode {
                                        "process_crash" => d2.reboot(Reboot::ProcessCrash, &[]),
                                        "power_loss_journal" => d2.reboot(Reboot::PowerLoss { prefix_ns: true }, &choices),
                                        _ => d2.reboot(Reboot::PowerLoss { prefix_ns: false }, &choices),
                                    };
                                    for (k, v) in d2.faults_fired() {
                                        *cx.faults.entry(k).or_insert(0) += v;
                                    }
                                    let r = cx.restart_memo(&d2);
                                    cx.evals += 1;
                                    cx.steps += 1;
                                    if let (true, Restored::Graph(c)) = (acked, &r) {
                                        if *c == canon_new && fired {
                                            cx.probe("crashed_upload_survives");
                                        } else if *c == canon_prev && fired {
                                            cx.probe("crashed_upload_rolled_back");
                                        }
                                    }
                                    // ---- the history goes on: the restarted server serves what it restored, the client
                                    // retries the upload it never got an answer for / sends further uploads, next restart
                                    if fired && acked {
                                        if let Restored::Graph(c0) = &r {
                                            // once per (import event, what the crash left on disk)
                                            if cx.followed.insert(hash_str(&format!("{step}/{}", disk_shape(&d2, &data)))) {
                                                let pin = json!({"phase":"crash","pass":pass.name(),"event":step,"op":cp.op,"partial":cp.partial,"mode":mode,"choices":choices});
                                                let w = Cont { step, mode: *mode, origin: format!("upload #{ordinal} killed {} [{mode}], server restarted", describe(&ops, &cp)), pin };
                                                continue_after_crash(cx, o, &d2, c0, &known.empty, &data, &w);
                                            }
                                        }
                                    }
                                    // acknowledged upload in flight: previous or new state; an upload the server goes on
                                    // to refuse has no "new" state: previous only
                                    let allowed: Vec<&String> = if acked { vec![&canon_prev, &canon_new] } else { vec![&canon_prev] };
                                    if let Some((class, detail)) = classify(&r, &allowed, &known, alone_new.as_ref(), &d2) {
                                        let pin = json!({"phase":"crash","pass":pass.name(),"event":step,"op":cp.op,"partial":cp.partial,"mode":mode,"choices":choices});
                                        let d = format!(
                                            "upload #{ordinal}{} killed {} [{mode}{}]: {detail}; files after reboot: {:?}",
                                            if acked { String::new() } else { format!(" ({}, answered with an error when not killed)", s(ev, "kind")) },
                                            describe(&ops, &cp),
                                            if report.is_empty() { String::new() } else { format!("; lost: {}", report.join(", ")) },
                                            d2.files().iter().map(|(p, l)| format!("{}({l})", p.file_name().map(|x| x.to_string_lossy().to_string()).unwrap_or_default())).collect::<Vec<_>>()
                                        );
                                        cx.violate(sig_for("crash", mode, class), d, step, pin);
                                    }
                                }
                            }
                        }
                    }
                }
                // ---- acknowledged
                if let Some(alone) = alone_new {
                    known.states.push(canon_new);
                    known.alone.push(alone);
                    recipe.push(data);
                }
                SimFs::uninstall();
            }
            "restart" => {
                // clean stop + start of the server process (the OS keeps running)
                disk.reboot(Reboot::ProcessCrash, &[]);
                let (r, g) = restart(&disk);
                cx.evals += 1;
                cx.steps += 1;
                let cur = known.states.last().unwrap().clone();
                if o.do_clean {
                    if let Some((class, detail)) = classify(&r, &[&cur], &known, None, &disk) {
                        let pin = json!({"phase":"clean","pass":pass.name(),"event":step});
                        cx.violate(sig_for("clean_restart", "clean", class), format!("clean restart: {detail}; expected the live graph {}", cur.replace('\n', " ")), step, pin);
                    }
                }
                if known.alone.len() >= 2 {
                    cx.probe("restart_after_several_imports");
                }
                // the new process serves what it restored
                let c = canon_of(&g);
                *live.try_write().expect("uncontended") = g;
                known.states.push(c);
                recipe = match disk.read_file(Path::new(&format!("{DATA}/snapshots/default.sgsnap"))) {
                    Some(b) if matches!(r, Restored::Graph(ref x) if *x != known.empty) => vec![b],
                    _ => vec![],
                };
                SimFs::uninstall();
            }
            _ => {}
        }
    }
    SimFs::uninstall();
}

// ------------------------------------------------------------------ scenario

fn gen_graph(r: &mut Rng) -> Value {
    let nn = 1 + r.usize_below(4);
    let mut nodes = Vec::new();
    for _ in 0..nn {
        let labels: Vec<u64> = match r.below(4) {
            0 => vec![],
            1 => vec![0],
            2 => vec![1],
            _ => vec![0, 1],
        };
        let mut p = serde_json::Map::new();
        for k in KEYS {
            if r.chance(1, 2) {
                p.insert(k.to_string(), gen_small_value(r));
            }
        }
        nodes.push(json!({"l":labels,"p":p}));
    }
    let ne = r.usize_below(4);
    let mut edges = Vec::new();
    for _ in 0..ne {
        let mut p = serde_json::Map::new();
        if r.chance(1, 3) {
            p.insert("w".into(), gen_small_value(r));
        }
        edges.push(json!({"s":r.below(8),"t":r.below(8),"ty":r.below(2),"p":p}));
    }
    let gz = [0u64, 1, 3, 6, 9][r.usize_below(5)];
    json!({"op":"import","nodes":nodes,"edges":edges,"gz":gz})
}

impl Scenario for C14 {
    fn id(&self) -> &'static str {
        "C14"
    }
    fn level(&self) -> &'static str {
        "fault_enumeration"
    }
    fn runs(&self, tier: Tier) -> u64 {
        match tier {
            Tier::Quick => 360,
            Tier::Thorough => 12_000,
        }
    }
    fn rule(&self) -> &'static str {
        "history = 1..3 import events (generated graph of 1-4 nodes / 0-3 relationships, 2 labels, 2 types, small values, exported at gzip level 0/1/3/6/9 by the real exporter) with clean restart events between them (p=1/3 each gap) and an implicit final clean restart, plus 0-2 damaged uploads (upload_bad, half of the runs: file cut short / JSON cut inside an intact gzip / relationship to a node not in the file / random bytes / one flipped byte / unsupported version) inserted anywhere; an upload answered with anything but 200 status ok is not acknowledged and must leave every later restart (clean restart right after it, and a kill at every file-system call it made, all reboot modes) at the graph as of the acknowledged imports; upload = import_tenant_with_dedup + persist_snapshot directly or (knob via_http, 1/3 of the runs without and 2/3 of the runs with a damaged upload) a multipart POST through HttpServer::router(); each case runs twice (journalling file system / bare POSIX) and per import enumerates every crash point of persist_snapshot (before each FS call, every torn offset of the write under process_crash, sampled torn offsets under power loss, and after the last call) x {process_crash, power_loss_journal: every surviving prefix of uncommitted namespace ops, power_loss_posix: every subset up to 4 pending ops else none/all/14 sampled} x {none / all / a sampled part of unsynced file data}; after every distinct on-disk state a crash inside an acknowledged upload leaves (all reboot modes) the history continues on the restarted server (live store = what it restored): a retry of the byte-identical in-flight upload then a new one-node upload, and the other order, each followed by a clean restart (must restore that server's live graph), the retry when it comes first also killed before each of its file-system calls and inside its write (restart: before or after). Non-trivial = at least 2 imports, or 1 import whose graph has a relationship. Distinct = hash of (event kinds incl. kind of damage, node/edge counts, gzip level, via_http)."
    }
    fn real_components(&self) -> Vec<&'static str> {
        vec![
            "samyama::snapshot::persist::{persist_snapshot, restore_persisted_snapshots}",
            "samyama::snapshot::{export_tenant_with_compression, import_tenant_with_dedup}",
            "samyama::http::handler::restore_snapshot_handler behind HttpServer::router() (axum multipart extraction, tokio RwLock) in via_http runs",
            "GraphStore",
        ]
    }
    fn stub_components(&self) -> Vec<&'static str> {
        vec![
            "file system: kit::simfs::SimFs behind samyama::verif::fs",
            "start-up wiring of src/main.rs lines 527-540 (restore_persisted_snapshots into the empty start-up store when no RocksDB tenant was recovered) is mirrored by the harness; main.rs itself is a binary",
            "no tokio runtime: the router future is polled by kit::exec::block_on",
        ]
    }
    fn assumptions(&self) -> Vec<&'static str> {
        vec![
            "the live store holds nothing but imported snapshots (no RocksDB-persisted tenant data), so main.rs takes the snapshot-restore branch",
            "uploads carry no dedup_key (the restart path never uses one)",
            "'graph as of import k' = the live store after the k-th acknowledged upload (cumulative); graphs are compared by an isomorphism-invariant canonical dump",
            "weaker reading at the crash point 'after the last call of persist_snapshot': the upload may still count as unacknowledged (previous or new state allowed)",
            "directories themselves are durable as soon as created; power loss drops file data beyond the last fsync image and uncommitted create/rename/unlink entries only",
            "the export header's created_at is replaced by a constant before upload (bytes must be a function of the case)",
        ]
    }
    fn required_probes(&self, _tier: Tier) -> Vec<&'static str> {
        vec!["crash_inside_persist", "followup_upload_after_crash", "retry_after_crash", "retry_onto_uncommitted_identical_snapshot", "retried_upload_restored", "crash_inside_upload_after_crash", "history_continued_after_power_loss", "crashed_upload_survives", "crashed_upload_rolled_back", "restart_after_several_imports", "crash.torn_write", "power_loss.ns_op_lost", "via_http_runs", "rejected_upload_via_http", "rejected_after_acknowledged_import", "restart_after_rejected_upload", "rejected.truncate_bytes", "rejected.truncate_text", "rejected.dangling_edge", "rejected.garbage"]
    }
    fn generate(&self, s: &mut Streams, _run_index: u64, tier: Tier) -> Case {
        let mut case = Case::new("C14");
        let n = 1 + s.knobs.weighted(&[4, 4, 3]);
        case.knobs.insert("via_http".into(), json!(s.knobs.chance(1, 3)));
        case.knobs.insert("samples".into(), json!((0..16).map(|_| s.fault.next_u64() >> 1).collect::<Vec<_>>()));
        case.knobs.insert("max_enum_write".into(), json!(if tier == Tier::Quick { 600 } else { 4096 }));
        for i in 0..n {
            case.events.push(gen_graph(&mut s.workload));
            if i + 1 < n && s.workload.chance(1, 3) {
                case.events.push(json!({"op":"restart"}));
            }
        }
        // uploads the server should refuse, anywhere in the history (also first and last); drawn
        // after the imports so that the acknowledged part of a run is what it was without them
        let n_bad = s.workload.weighted(&[5, 4, 1]);
        for _ in 0..n_bad {
            let mut ev = gen_graph(&mut s.workload);
            ev["op"] = json!("upload_bad");
            ev["kind"] = json!(BAD_KINDS[s.workload.weighted(&[4, 3, 3, 2, 2, 1])]);
            ev["at"] = json!(s.workload.next_u64() >> 1);
            let pos = s.workload.usize_below(case.events.len() + 1);
            case.events.insert(pos, ev);
        }
        // the order "import, then persist" is the handler's own only behind the router
        if n_bad > 0 && !case.knob_bool("via_http", false) && s.knobs.chance(1, 2) {
            case.knobs.insert("via_http".into(), json!(true));
        }
        case
    }
    fn shrink_event(&self, ev: &Value) -> Vec<Value> {
        match op(ev) {
            "import" => vec![json!({"op":"import","nodes":[{"l":[0],"p":{}}],"edges":[],"gz":0}), {
                let mut e = ev.clone();
                e["edges"] = json!([]);
                e
            }],
            "upload_bad" => {
                let mut small = json!({"op":"upload_bad","nodes":[{"l":[0],"p":{}}],"edges":[],"gz":0});
                small["kind"] = ev["kind"].clone();
                small["at"] = ev["at"].clone();
                let mut no_edges = ev.clone();
                no_edges["edges"] = json!([]);
                vec![small, no_edges]
            }
            _ => vec![],
        }
    }
    fn execute(&self, case: &Case) -> Outcome {
        // Draw this thread's HashMap keys from the (re-seeded) shim *now*: the snapshot bytes
        // depend on HashMap/HashSet iteration order inside the exporter, and a once-per-process
        // lazy initialisation that also asks the OS for entropy would otherwise shift the keys
        // of whichever case happens to run first in a worker process.
        let _keys_first = std::collections::HashMap::<u8, u8>::new();
        let mut out = Outcome::new();
        let pin = case.pin().cloned();
        let via_http = case.knob_bool("via_http", false);
        let samples: Vec<u64> = case.knobs.get("samples").and_then(|v| v.as_array()).map(|a| a.iter().filter_map(|x| x.as_u64()).collect()).unwrap_or_else(|| vec![3, 11, 29, 71]);
        let mut cx = Ctx { vios: vec![], sigs: BTreeSet::new(), probes: BTreeMap::new(), faults: BTreeMap::new(), evals: 0, steps: 0, memo: Vec::new(), followed: BTreeSet::new(), stop: false };
        let followup = build_snapshot(&json!({"op":"import","nodes":[{"l":[1],"p":{"k":{"i":7}}}],"edges":[],"gz":1}), 99);
        for pass in [Pass::Journal, Pass::Posix] {
            let (do_crash, do_clean) = match &pin {
                None => (true, pass == Pass::Journal),
                Some(p) => {
                    if s(p, "pass") != pass.name() {
                        continue;
                    }
                    (s(p, "phase") == "crash", s(p, "phase") == "clean")
                }
            };
            let o = Opts { followup: followup.clone(), via_http, max_enum_write: case.knob_u64("max_enum_write", 600) as usize, samples: samples.clone(), do_crash, do_clean };
            run_pass(case, pass, &o, &mut cx);
        }
        if via_http {
            cx.probe("via_http_runs");
        }
        out.evaluations = cx.evals.max(1);
        out.steps = cx.steps;
        out.probes = cx.probes;
        out.faults = cx.faults;
        out.violations = cx.vios;
        let imports: Vec<&Value> = case.events.iter().filter(|e| op(e) == "import").collect();
        out.nontrivial = imports.len() >= 2 || imports.iter().any(|e| e["edges"].as_array().map(|a| !a.is_empty()).unwrap_or(false));
        let key: Vec<String> = case.events.iter().map(|e| format!("{}{}:{}:{}:{}", op(e), s(e, "kind"), e["nodes"].as_array().map(|a| a.len()).unwrap_or(0), e["edges"].as_array().map(|a| a.len()).unwrap_or(0), u(e, "gz"))).collect();
        out.class_key = hash_str(&format!("{}|{via_http}", key.join(",")));
        // final observable state: what a restart of the fault-free history restores (both passes agree)
        let mut h = String::new();
        for (deps, v) in &cx.memo {
            h.push_str(&format!("{:016x}:{};", hash_str(&format!("{deps:?}")), match v {
                Restored::Graph(c) => format!("{:016x}", hash_str(c)),
                Restored::Error(e, _) => format!("E{:016x}", hash_str(e)),
                Restored::Panic(_) => "P".into(),
            }));
        }
        out.state_hash = hash_str(&h);
        out
    }
}
