//! C19 — writes acknowledged by the server survive a restart.
//!
//! Sim: one server "process" (kit::server mirrors main.rs::start_server) with persistence
//! on a per-run directory; 1-3 clients whose write statements are interleaved in the event
//! list, each sent through `GRAPH.QUERY` (RESP command handler) or `POST /api/query` (axum
//! router); the background indexer is a task polled at `indexer` events; `restart` events
//! stop the process (everything dropped, RocksDB closed) and start it again through the
//! mirrored recovery path; optionally the process is killed at the n-th H4 point inside
//! `PersistenceManager::persist_*` (unwind, drop, restart).
//!
//! Oracle: full-graph dump just before the process stops == dump served after recovery,
//! restricted to entities last changed by a statement that was acknowledged without error
//! (entities touched by a failed or killed statement may have either state).  Every
//! difference is attributed to the acknowledged statement that last changed the entity:
//! signature `C19/<front end>/lost/<statement kind>`.

use crate::kit::core::*;
use crate::kit::dump::{dump, Dump, GEdge, GNode};
use crate::kit::model::*;
use crate::kit::rng::{Rng, Streams};
use crate::kit::server::Server;
use samyama::protocol::resp::RespValue;
use serde_json::{json, Value};
use std::collections::{BTreeMap, BTreeSet};
use std::sync::atomic::{AtomicU64, Ordering};
use std::sync::Arc;

pub struct C19;

/// (kind, returns every entity it changes — i.e. expected to be persisted by RESP today)
const KINDS: &[(&str, bool)] = &[
    ("create_node_no_return", false),
    ("create_node_return_node", true),
    ("create_node_return_scalar", false),
    ("create_path_return_all", true),
    ("create_path_return_rel", false),
    ("create_path_no_return", false),
    ("match_create_rel_return_rel", true),
    ("match_create_rel_return_all", true),
    ("match_create_rel_no_return", false),
    ("set_prop_return_node", true),
    ("set_prop_no_return", false),
    ("set_label_return_node", true),
    ("set_label_no_return", false),
    ("remove_prop_return_node", true),
    ("remove_label_no_return", false),
    ("set_rel_prop_return_rel", true),
    ("set_rel_prop_no_return", false),
    ("delete_rel", false),
    ("detach_delete_node", false),
    ("delete_node", false),
    ("merge_node_return_node", true),
    ("merge_node_no_return", false),
    ("merge_on_create_on_match_return_node", true),
    // one statement, several result rows holding the SAME entity, changed differently per row
    // (every changed entity is returned, so these belong to the part that works today)
    ("unwind_set_same_node_return_node", true),
    ("unwind_set_same_rel_return_rel", true),
    ("match_rels_set_both_ends_return_both", true),
    ("match_rels_set_all_return_all", true),
];

fn kind_index(k: &str) -> usize {
    KINDS.iter().position(|x| x.0 == k).unwrap_or(0)
}

struct Ctx {
    node_uids: Vec<i64>,
    edge_eids: Vec<i64>,
    next_uid: i64,
}

fn pick<T: Copy>(xs: &[T], i: u64) -> Option<T> {
    if xs.is_empty() {
        None
    } else {
        Some(xs[(i as usize) % xs.len()])
    }
}

/// Build the statement text of one event against what currently exists.
fn build(ev: &Value, c: &mut Ctx) -> Option<String> {
    let kind = s(ev, "kind");
    let (a, b, v) = (u(ev, "a"), u(ev, "b"), u(ev, "v") as i64);
    let l = ["L", "M"][(u(ev, "label") % 2) as usize];
    let mut fresh = || {
        c.next_uid += 1;
        c.next_uid
    };
    Some(match kind {
        "create_node_no_return" => format!("CREATE (n:{l} {{uid: {}, k: {v}}})", fresh()),
        "create_node_return_node" => format!("CREATE (n:{l} {{uid: {}, k: {v}}}) RETURN n", fresh()),
        "create_node_return_scalar" => format!("CREATE (n:{l} {{uid: {}, k: {v}}}) RETURN n.uid", fresh()),
        "create_path_return_all" => {
            let (x, y, e) = (fresh(), fresh(), fresh());
            format!("CREATE (a:{l} {{uid: {x}}})-[r:T {{eid: {e}, w: {v}}}]->(b:L {{uid: {y}}}) RETURN a, r, b")
        }
        "create_path_return_rel" => {
            let (x, y, e) = (fresh(), fresh(), fresh());
            format!("CREATE (a:{l} {{uid: {x}}})-[r:T {{eid: {e}, w: {v}}}]->(b:L {{uid: {y}}}) RETURN r")
        }
        "create_path_no_return" => {
            let (x, y, e) = (fresh(), fresh(), fresh());
            format!("CREATE (a:{l} {{uid: {x}}})-[r:T {{eid: {e}, w: {v}}}]->(b:L {{uid: {y}}})")
        }
        "match_create_rel_return_rel" | "match_create_rel_return_all" | "match_create_rel_no_return" => {
            let x = pick(&c.node_uids, a)?;
            let y = pick(&c.node_uids, b)?;
            if x == y {
                return None;
            }
            let e = fresh();
            let tail = match kind {
                "match_create_rel_return_rel" => " RETURN r",
                "match_create_rel_return_all" => " RETURN a, r, b",
                _ => "",
            };
            format!("MATCH (a {{uid: {x}}}), (b {{uid: {y}}}) CREATE (a)-[r:U {{eid: {e}, w: {v}}}]->(b){tail}")
        }
        "set_prop_return_node" => format!("MATCH (n {{uid: {}}}) SET n.k = {v} RETURN n", pick(&c.node_uids, a)?),
        "set_prop_no_return" => format!("MATCH (n {{uid: {}}}) SET n.k = {v}", pick(&c.node_uids, a)?),
        "set_label_return_node" => format!("MATCH (n {{uid: {}}}) SET n:X RETURN n", pick(&c.node_uids, a)?),
        "set_label_no_return" => format!("MATCH (n {{uid: {}}}) SET n:X", pick(&c.node_uids, a)?),
        "remove_prop_return_node" => format!("MATCH (n {{uid: {}}}) REMOVE n.k RETURN n", pick(&c.node_uids, a)?),
        "remove_label_no_return" => format!("MATCH (n {{uid: {}}}) REMOVE n:{l}", pick(&c.node_uids, a)?),
        "set_rel_prop_return_rel" => format!("MATCH ()-[r {{eid: {}}}]->() SET r.w = {v} RETURN r", pick(&c.edge_eids, a)?),
        "set_rel_prop_no_return" => format!("MATCH ()-[r {{eid: {}}}]->() SET r.w = {v}", pick(&c.edge_eids, a)?),
        "delete_rel" => format!("MATCH ()-[r {{eid: {}}}]->() DELETE r", pick(&c.edge_eids, a)?),
        "detach_delete_node" => format!("MATCH (n {{uid: {}}}) DETACH DELETE n", pick(&c.node_uids, a)?),
        "delete_node" => format!("MATCH (n {{uid: {}}}) DELETE n", pick(&c.node_uids, a)?),
        // batch update with a repeated key: 3 rows, the same node, a different value per row
        "unwind_set_same_node_return_node" => format!("UNWIND [{}, {}, {}] AS x MATCH (n {{uid: {}}}) SET n.k = x RETURN n", v + 10, v + 20, v + 30, pick(&c.node_uids, a)?),
        "unwind_set_same_rel_return_rel" => format!("UNWIND [{}, {}] AS x MATCH ()-[r {{eid: {}}}]->() SET r.w = x RETURN r", v + 10, v + 20, pick(&c.edge_eids, a)?),
        // one row per relationship: a node with several relationships (or one that is the
        // end of one and the start of another) comes back in several rows
        "match_rels_set_both_ends_return_both" => {
            pick(&c.edge_eids, a)?;
            format!("MATCH (x)-[r]->(y) SET x.src = {v}, y.dst = {v} RETURN x, y")
        }
        "match_rels_set_all_return_all" => {
            pick(&c.edge_eids, a)?;
            format!("MATCH (x)-[r]->(y) SET x.src = {v}, r.seen = {v}, y.dst = {v} RETURN x, r, y")
        }
        "merge_node_return_node" | "merge_node_no_return" | "merge_on_create_on_match_return_node" => {
            // half of the time an existing uid (match), else a fresh one (create)
            let uid = if b % 2 == 0 { pick(&c.node_uids, a).unwrap_or_else(|| fresh()) } else { fresh() };
            match kind {
                "merge_node_return_node" => format!("MERGE (n:L {{uid: {uid}}}) RETURN n"),
                "merge_node_no_return" => format!("MERGE (n:L {{uid: {uid}}})"),
                _ => format!("MERGE (n:L {{uid: {uid}}}) ON CREATE SET n.k = {v} ON MATCH SET n.k = {} RETURN n", v + 1),
            }
        }
        _ => return None,
    })
}

fn ctx_from(d: &Dump, next_uid: i64) -> Ctx {
    let parse = |x: &String| x.strip_prefix("I:").and_then(|t| t.parse::<i64>().ok());
    let mut node_uids: Vec<i64> = d.nodes.values().filter_map(|n| n.props.get("uid").and_then(parse)).collect();
    node_uids.sort();
    node_uids.dedup();
    let mut edge_eids: Vec<i64> = d.edges.values().filter_map(|e| e.props.get("eid").and_then(parse)).collect();
    edge_eids.sort();
    edge_eids.dedup();
    Ctx { node_uids, edge_eids, next_uid }
}

struct CrashUnwind;

struct Killer {
    hits: AtomicU64,
    kill_at: u64,
    last: std::sync::Mutex<String>,
}

impl samyama::verif::PointHandler for Killer {
    fn at(&self, name: &str) {
        let n = self.hits.fetch_add(1, Ordering::SeqCst) + 1;
        if self.kill_at != 0 && n == self.kill_at {
            *self.last.lock().unwrap() = name.to_string();
            std::panic::panic_any(CrashUnwind);
        }
    }
}

type Attr = (u8, usize); // (front, kind index)

/// The first acknowledged statement whose effect on one entity is not reflected after the
/// restart: the recovered state equals the state after statement j (or the state the process
/// started with, j = 0) => statement j+1 is the first that was lost.  If the recovered state
/// matches nothing the entity ever was, the last statement that changed it is named.
fn first_lost<T: PartialEq + Clone>(base: Option<&T>, hist: Option<&Vec<(Attr, Option<T>)>>, got: Option<&T>) -> Option<Attr> {
    let hist = hist?;
    if hist.is_empty() {
        return None;
    }
    let mut states: Vec<Option<T>> = vec![base.cloned()];
    states.extend(hist.iter().map(|h| h.1.clone()));
    let got = got.cloned();
    let mut j: Option<usize> = None;
    for (i, st) in states.iter().enumerate().take(hist.len()) {
        if *st == got {
            j = Some(i);
        }
    }
    match j {
        Some(i) => Some(hist[i].0),
        None => Some(hist[hist.len() - 1].0),
    }
}

fn front_name(f: u8) -> &'static str {
    if f == 0 { "resp" } else { "http" }
}

fn sig_for(attr: Option<&Attr>) -> String {
    match attr {
        None => "C19/restart/changed_entity_no_statement_touched".to_string(),
        Some((1, _)) => "C19/http/lost/any_write".to_string(),
        Some((_, k)) => format!("C19/resp/lost/{}", KINDS[*k].0),
    }
}

impl Scenario for C19 {
    fn id(&self) -> &'static str {
        "C19"
    }
    fn runs(&self, tier: Tier) -> u64 {
        match tier {
            Tier::Quick => 200,
            Tier::Thorough => 12_000,
        }
    }
    fn rule(&self) -> &'static str {
        "a run = <=16 write statements from 27 templates (incl. 4 whose result holds the same entity in several rows with a different change per row: UNWIND [..] AS x MATCH (n) SET n.k = x RETURN n, the same for a relationship, MATCH (x)-[r]->(y) SET x.src, y.dst [, r.seen] RETURN x, [r,] y over all relationships; CREATE node/path with RETURN of everything / of a scalar / of only the relationship / without RETURN, MATCH..CREATE relationship, SET property/label, REMOVE property/label, SET on a relationship, DELETE relationship, DELETE / DETACH DELETE node, MERGE with and without ON CREATE/ON MATCH) issued by 1-3 clients through RESP GRAPH.QUERY or HTTP POST /api/query, targets chosen by rank among live uids, with indexer polls, 1-2 restarts (the last one always at the end) and in 1/4 of the runs a kill at the n-th H4 point inside persist_*. Profiles per run: mixed (both front ends, all templates), resp_only, resp_returning (RESP + only templates that RETURN every entity they change — the part that works today; must hold strictly). Non-trivial = >=1 acknowledged statement changed the graph before a restart. Distinct = hash of (front, kind, resolved statement) list + restart/crash positions."
    }
    fn real_components(&self) -> Vec<&'static str> {
        vec![
            "samyama::protocol::command::CommandHandler::handle_command (GRAPH.QUERY) with PersistenceManager",
            "samyama::http::server::HttpServer::router -> POST /api/query (query_handler), all layers",
            "QueryEngine / MutQueryExecutor, GraphStore::with_async_indexing + start_background_indexer (polled task)",
            "PersistenceManager::{new, persist_create_node, persist_create_edge, list_persisted_tenants, recover}, Wal (real files), RocksDB on tmpfs",
            "GraphStore::{insert_recovered_node, insert_recovered_edge}, snapshot::persist::restore_persisted_snapshots",
        ]
    }
    fn stub_components(&self) -> Vec<&'static str> {
        vec![
            "start_server wiring of src/main.rs (binary, not callable): mirrored in kit/server.rs with the line ranges pinned there; a change to main.rs is not seen",
            "sockets / RESP framing / HTTP transport: requests are handed to handle_command and Router::oneshot directly",
            "process kill: unwind from an H4 point, drop everything, reopen (RocksDB real, so no power-loss model)",
        ]
    }
    fn assumptions(&self) -> Vec<&'static str> {
        vec![
            "acknowledged = RESP reply is not an Error / HTTP status 200",
            "an entity last changed by a statement that failed or was killed may be in either state after recovery and is not compared",
            "recovery keeps entity ids (insert_recovered_* does), so before/after are compared id by id when the canonical (id-free) forms differ",
            "all HTTP losses share one signature (C19/http/lost/any_write): query_handler has no persistence call at all",
        ]
    }
    fn required_probes(&self, _tier: Tier) -> Vec<&'static str> {
        vec![
            "acked_write",
            "restart_clean",
            "restart_after_kill",
            "recovered_nonempty",
            "indexer_polled",
            "resp_returning_run_held",
            "resp_statement_changed_one_entity_in_several_rows",
            "resp_statement_returned_one_node_in_several_rows_with_changes_between",
        ]
    }
    fn generate(&self, s: &mut Streams, _run_index: u64, _tier: Tier) -> Case {
        let mut case = Case::new("C19");
        let profile = s.knobs.weighted(&[4, 3, 4]) as u64;
        case.knobs.insert("profile".into(), json!(profile));
        let clients = 1 + s.knobs.below(3);
        case.knobs.insert("clients".into(), json!(clients));
        let kill = s.knobs.chance(1, 4);
        case.knobs.insert("kill_at".into(), json!(if kill { 1 + s.fault.below(14) } else { 0 }));
        let n = s.knobs.short_len(1, 16);
        let mid_restart = if s.knobs.chance(1, 3) { Some(s.sched.below(n as u64 + 1) as usize) } else { None };
        let r: &mut Rng = &mut s.workload;
        let returning: Vec<usize> = KINDS.iter().enumerate().filter(|(_, k)| k.1).map(|(i, _)| i).collect();
        for i in 0..n {
            if mid_restart == Some(i) {
                case.events.push(json!({"op":"restart"}));
            }
            let front = match profile {
                0 => r.below(2),
                _ => 0,
            };
            // creations first, so later statements have targets
            let ki = if profile == 2 {
                if i < 2 { [1usize, 3][r.usize_below(2)] } else { returning[r.usize_below(returning.len())] }
            } else if i < 2 && r.chance(2, 3) {
                [0usize, 1, 3, 4, 5][r.usize_below(5)]
            } else {
                r.usize_below(KINDS.len())
            };
            case.events.push(json!({"op":"stmt","client":s.sched.below(clients),"front":front,"kind":KINDS[ki].0,"a":r.below(16),"b":r.below(16),"v":r.below(5),"label":r.below(2)}));
            if s.sched.chance(1, 4) {
                case.events.push(json!({"op":"indexer"}));
            }
        }
        case.events.push(json!({"op":"restart"}));
        case
    }
    fn shrink_event(&self, ev: &Value) -> Vec<Value> {
        let mut out = Vec::new();
        if op(ev) == "stmt" {
            for k in ["a", "b", "v", "label", "client"] {
                if u(ev, k) != 0 {
                    let mut e = ev.clone();
                    e[k] = json!(0);
                    out.push(e);
                }
            }
        }
        out
    }
    fn execute(&self, case: &Case) -> Outcome {
        let mut o = Outcome::new();
        let scratch = std::env::var("VERIF_SCRATCH").unwrap_or_else(|_| "/dev/shm".into());
        let dir = format!("{scratch}/c19-{}-{}", case.run_index, std::process::id());
        let _ = std::fs::remove_dir_all(&dir);
        let profile = case.knob_u64("profile", 0);
        let kill_at = case.knob_u64("kill_at", 0);
        let killer = Arc::new(Killer { hits: AtomicU64::new(0), kill_at, last: std::sync::Mutex::new(String::new()) });
        samyama::verif::set_point_handler(Some(killer.clone()));

        let mut server_slot: Option<Server> = match Server::start(Some(&dir)) {
            Ok(s) => Some(s),
            Err(e) => panic!("harness: cannot start the simulated server in {dir}: {e}"),
        };
        let mut expected: Dump = server_slot.as_ref().unwrap().with_store(dump);
        // per entity: the acknowledged statements that changed it since the process started, with
        // the state each left it in; `base` is what the process started with
        let mut hist_n: BTreeMap<u64, Vec<(Attr, Option<GNode>)>> = BTreeMap::new();
        let mut hist_e: BTreeMap<u64, Vec<(Attr, Option<GEdge>)>> = BTreeMap::new();
        let mut base: Dump = expected.clone();
        let mut taint_n: BTreeSet<u64> = BTreeSet::new();
        let mut taint_e: BTreeSet<u64> = BTreeSet::new();
        let mut next_uid: i64 = 0;
        let mut keys: Vec<String> = Vec::new();
        let mut acks: Vec<String> = Vec::new();
        let mut changed_since_restart = false;
        let mut violated = false;
        let mut restarts = 0u64;

        // diff two dumps: ids of nodes / edges whose presence or content differs
        fn diff(a: &Dump, b: &Dump) -> (BTreeSet<u64>, BTreeSet<u64>) {
            let mut n = BTreeSet::new();
            for id in a.nodes.keys().chain(b.nodes.keys()) {
                if a.nodes.get(id) != b.nodes.get(id) {
                    n.insert(*id);
                }
            }
            let mut e = BTreeSet::new();
            for id in a.edges.keys().chain(b.edges.keys()) {
                if a.edges.get(id) != b.edges.get(id) {
                    e.insert(*id);
                }
            }
            (n, e)
        }

        let mut events: Vec<Value> = case.events.clone();
        if !events.iter().any(|e| op(e) == "restart") {
            events.push(json!({"op":"restart"})); // a shrunk case still ends with a restart
        }
        let mut step = 0usize;
        let mut killed_now = false;
        let mut i = 0usize;
        while i < events.len() {
            let ev = events[i].clone();
            i += 1;
            step += 1;
            let server = server_slot.as_mut().expect("server is running");
            let mut do_restart = false;
            match op(&ev) {
                "indexer" => {
                    if server.run_indexer() > 0 {
                        o.probe("indexer_polled");
                    }
                    o.steps += 1;
                }
                "stmt" => {
                    let front = (u(&ev, "front") % 2) as u8;
                    let mut ctx = ctx_from(&expected, next_uid);
                    let Some(q) = build(&ev, &mut ctx) else { continue };
                    next_uid = ctx.next_uid;
                    let kind = s(&ev, "kind").to_string();
                    keys.push(format!("{}:{}", front_name(front), q));
                    o.steps += 1;
                    let res = std::panic::catch_unwind(std::panic::AssertUnwindSafe(|| {
                        if front == 0 {
                            let reply = server.resp_query(&q);
                            (!matches!(reply, RespValue::Error(_)), format!("{reply:?}"))
                        } else {
                            let (status, body) = server.http_query(&q);
                            (status == 200, format!("{status} {body}"))
                        }
                    }));
                    let now = server.with_store(dump);
                    let (dn, de) = diff(&expected, &now);
                    match res {
                        Ok((true, _)) => {
                            acks.push("A".into());
                            if !dn.is_empty() || !de.is_empty() {
                                o.probe("acked_write");
                                changed_since_restart = true;
                                if front == 0 && kind.starts_with("unwind_set_same_") {
                                    o.probe("resp_statement_changed_one_entity_in_several_rows");
                                }
                                if front == 0 && kind.starts_with("match_rels_set_") {
                                    // some node is an end of two relationships => it is in two rows
                                    let mut deg: BTreeMap<u64, u32> = BTreeMap::new();
                                    for e in expected.edges.values() {
                                        *deg.entry(e.src).or_insert(0) += 1;
                                        if e.dst != e.src {
                                            *deg.entry(e.dst).or_insert(0) += 1;
                                        }
                                    }
                                    if deg.values().any(|d| *d >= 2) {
                                        o.probe("resp_statement_returned_one_node_in_several_rows_with_changes_between");
                                    }
                                }
                            }
                            let attr: Attr = (front, kind_index(&kind));
                            for id in dn {
                                hist_n.entry(id).or_default().push((attr, now.nodes.get(&id).cloned()));
                            }
                            for id in de {
                                hist_e.entry(id).or_default().push((attr, now.edges.get(&id).cloned()));
                            }
                        }
                        Ok((false, _reply)) => {
                            acks.push("E".into());
                            o.probe("statement_refused");
                            taint_n.extend(dn);
                            taint_e.extend(de);
                        }
                        Err(payload) => {
                            if payload.downcast_ref::<CrashUnwind>().is_none() {
                                std::panic::resume_unwind(payload);
                            }
                            acks.push("K".into());
                            o.fault("process_kill_at_persist_point");
                            o.probe(&format!("killed_at_{}", killer.last.lock().unwrap()));
                            taint_n.extend(dn);
                            taint_e.extend(de);
                            killed_now = true;
                            do_restart = true;
                        }
                    }
                    expected = now;
                }
                "restart" => do_restart = true,
                _ => {}
            }
            if !do_restart {
                continue;
            }
            if restarts >= 3 {
                continue;
            }
            // ---- stop the process, start it again through the mirrored recovery path
            restarts += 1;
            if !server_slot.take().unwrap().shutdown() {
                panic!("harness: something still owns the PersistenceManager after shutdown");
            }
            let server = match Server::start(Some(&dir)) {
                Ok(s) => server_slot.insert(s),
                Err(e) => {
                    o.violate(Violation::new("C19/restart/failed_to_start", format!("restart on {dir}: {e}"), step));
                    violated = true;
                    break;
                }
            };
            if killed_now {
                o.probe("restart_after_kill");
            } else {
                o.probe("restart_clean");
            }
            killed_now = false;
            let got = server.with_store(dump);
            if !got.nodes.is_empty() {
                o.probe("recovered_nonempty");
            }
            if changed_since_restart {
                o.nontrivial = true;
            }
            // compare, entity by entity, skipping what an unacknowledged statement touched
            let mut sigs: BTreeMap<String, String> = BTreeMap::new();
            let mut collateral = 0u64;
            let (dn, de) = diff(&expected, &got);
            for id in dn {
                if taint_n.contains(&id) {
                    continue;
                }
                let what = match (expected.nodes.get(&id), got.nodes.get(&id)) {
                    (Some(e), None) => format!("node {id} {:?}{:?} is gone", e.labels, e.props),
                    (None, Some(g)) => format!("node {id} was deleted, came back as {:?}{:?}", g.labels, g.props),
                    (Some(e), Some(g)) => format!("node {id} was {:?}{:?}, is {:?}{:?}", e.labels, e.props, g.labels, g.props),
                    _ => continue,
                };
                let attr = first_lost(base.nodes.get(&id), hist_n.get(&id), got.nodes.get(&id));
                sigs.entry(sig_for(attr.as_ref())).or_insert(what);
            }
            for id in de {
                if taint_e.contains(&id) {
                    continue;
                }
                // a relationship whose endpoint is tainted inherits the doubt
                let ends = expected.edges.get(&id).or(got.edges.get(&id)).map(|e| (e.src, e.dst));
                if let Some((a, b)) = ends {
                    if taint_n.contains(&a) || taint_n.contains(&b) {
                        continue;
                    }
                    // collateral: the relationship is gone because an endpoint is gone, and that
                    // node is reported (and attributed) on its own
                    if got.edges.get(&id).is_none() && (!got.nodes.contains_key(&a) || !got.nodes.contains_key(&b)) && (expected.nodes.contains_key(&a) && expected.nodes.contains_key(&b)) {
                        collateral += 1;
                        continue;
                    }
                }
                let what = match (expected.edges.get(&id), got.edges.get(&id)) {
                    (Some(e), None) => format!("relationship {id} {}-[{}{:?}]->{} is gone", e.src, e.ty, e.props, e.dst),
                    (None, Some(g)) => format!("relationship {id} was deleted, came back as {}-[{}{:?}]->{}", g.src, g.ty, g.props, g.dst),
                    (Some(e), Some(g)) => format!("relationship {id} was {}-[{}{:?}]->{}, is {}-[{}{:?}]->{}", e.src, e.ty, e.props, e.dst, g.src, g.ty, g.props, g.dst),
                    _ => continue,
                };
                let attr = first_lost(base.edges.get(&id), hist_e.get(&id), got.edges.get(&id));
                sigs.entry(sig_for(attr.as_ref())).or_insert(what);
            }
            if !sigs.is_empty() {
                for (sig, what) in sigs.into_iter().take(8) {
                    o.violate(Violation::new(sig, format!("after restart #{restarts}: {what} | before: {} | after: {} | statements: {}", expected.describe(), got.describe(), keys.join(" ; ")), step));
                }
                violated = true;
                break;
            }
            if !server.recovery_warnings.is_empty() && taint_n.is_empty() && taint_e.is_empty() {
                o.probe("recovery_warning");
            }
            if collateral > 0 {
                panic!("harness: a relationship was dropped as collateral of a lost node, but no node difference was reported");
            }
            // what a failed / killed statement touched stays in doubt for the rest of the run: its
            // residue in storage (e.g. a relationship whose endpoint was never written) can surface
            // at a later restart, when the id it refers to exists again
            base = got.clone();
            hist_n.clear();
            hist_e.clear();
            expected = got;
            changed_since_restart = false;
        }
        if !violated && profile == 2 && o.nontrivial {
            o.probe("resp_returning_run_held");
        }
        samyama::verif::set_point_handler(None);
        if killer.hits.load(Ordering::SeqCst) > 0 {
            o.probe("persist_point_hit");
        }
        let final_dump = server_slot.as_ref().map(|s| s.with_store(dump)).unwrap_or_default();
        if let Some(s) = server_slot.take() {
            let _ = s.shutdown();
        }
        let _ = std::fs::remove_dir_all(&dir);
        o.class_key = hash_str(&format!("{}|{}|{}", keys.join("\n"), acks.join(""), kill_at));
        o.state_hash = hash_str(&format!("{}|{}|{}", final_dump.describe(), acks.join(""), restarts));
        o
    }
}
