//! C24 — natural-language query translation never returns a mutating statement.
//!
//! Sim: the language model is the simulator's (hook H6: `LLMProvider::Mock` answers from
//! `samyama::verif::set_llm_script`).  Every event is one model response: a statement built
//! from (read prefix, write/DDL/procedure clause or read tail, optional RETURN), rendered
//! with a keyword-case variant and a clause separator (write clauses may be continued as clause
//! pipelines `<write> WITH .. <read tail | write [WITH .. read tail]>`, procedure names are spelled
//! in every namespace x mixed case), and wrapped (plain, fenced, fenced
//! with explanations, several code blocks, leading comments, ...), or an API error.
//! Real: `NLQPipeline::text_to_cypher` (direct) and the shipped axum router's
//! `POST /api/nlq` (in part of the events), the parser, the planner, `QueryEngine::execute_mut`.
//!
//! Oracle: `Ok(stmt)` => (a) if `stmt` parses and plans, the plan is not a write plan, and
//! (b) running it with the mutating executor on a freshly populated store leaves the
//! full-graph dump, the property-index list, the constraint list, the vector-index list and
//! the hierarchy-index list unchanged.  A model API error must come back as an error.

use crate::kit::core::*;
use crate::kit::dump::dump;
use crate::kit::exec::block_on;
use crate::kit::model::*;
use crate::kit::rng::{Rng, Streams};
use samyama::graph::GraphStore;
use samyama::nlq::NLQPipeline;
use samyama::persistence::tenant::{LLMProvider, NLQConfig};
use samyama::query::executor::QueryPlanner;
use samyama::query::{parse_query, QueryEngine};
use serde_json::{json, Value};
use std::sync::Arc;

pub struct C24;

/// Read prefixes: (class, clauses, binds n).
pub(crate) const PREFIXES: &[(&str, &[&str], bool)] = &[
    ("match", &["MATCH (n:P)"], true),
    ("match", &["MATCH (n)"], true),
    ("match", &["MATCH (n:P)", "WHERE n.k >= 0"], true),
    ("match", &["MATCH (n:P)-[:T]->(m)"], true),
    ("optional_match", &["OPTIONAL MATCH (n:P)"], true),
    ("match_with", &["MATCH (n:P)", "WITH n"], true),
    ("match_with", &["MATCH (n:P)", "WITH n", "MATCH (n)-[:T]->(m)"], true),
    ("unwind", &["UNWIND [1, 2] AS x", "MATCH (n:P)"], true),
    ("unwind", &["UNWIND [1, 2] AS x"], false),
    ("with", &["WITH 1 AS x"], false),
    ("with", &["WITH 1 AS x", "MATCH (n:P)"], true),
    ("call", &["CALL db.labels() YIELD label"], false),
    ("call", &["CALL db.labels() YIELD label", "MATCH (n:P)"], true),
    ("return_union", &["RETURN 1 AS c", "UNION ALL", "MATCH (n:P)"], true),
    ("none", &[], false),
];

/// Mutating clauses: (class, text, needs n).
pub(crate) const WRITES: &[(&str, &str, bool)] = &[
    ("set", "SET n.z = 1", true),
    ("set", "SET n.k = n.k + 100", true),
    ("set", "SET n += {z: 1}", true),
    ("set", "SET n:Z", true),
    ("remove", "REMOVE n.k", true),
    ("remove", "REMOVE n:P", true),
    ("delete", "DELETE n", true),
    ("delete", "DETACH DELETE n", true),
    ("create", "CREATE (n)-[:T]->(:Q {k: 7})", true),
    ("create", "CREATE (:Q {k: 7})", false),
    ("create", "CREATE (a:Q {k: 7})-[:T]->(b:Q {k: 8})", false),
    ("merge", "MERGE (:Q {k: 7})", false),
    ("merge", "MERGE (n)-[:U]->(:Q {k: 7})", true),
    ("merge", "MERGE (q:Q {k: 7}) ON CREATE SET q.z = 1", false),
    ("foreach", "FOREACH (i IN [1, 2] | CREATE (:Q {k: i}))", false),
    ("foreach", "FOREACH (i IN [1] | SET n.z = i)", true),
    ("ddl", "CREATE INDEX ON :Q(k)", false),
    ("ddl", "DROP INDEX ON :P(k)", false),
    ("ddl", "CREATE CONSTRAINT ON (q:Q) ASSERT q.k IS UNIQUE", false),
    ("ddl", "CREATE CONSTRAINT c1 FOR (q:Q) REQUIRE q.k IS UNIQUE", false),
    ("ddl", "CREATE VECTOR INDEX vi FOR (q:Q) ON (q.emb) OPTIONS {dimensions: 3, similarity: 'cosine'}", false),
    ("ddl", "CREATE HIERARCHY INDEX h2 ON ()-[:T]->()", false),
    ("ddl", "DROP HIERARCHY INDEX h1", false),
    ("ddl", "REBUILD HIERARCHY INDEX h1", false),
    ("procedure", "CALL algo.or.solve({label: 'P', property: 'z', max_iterations: 2, population_size: 4})", false),
    ("procedure", "CALL or.solve({label: 'P', property: 'z', max_iterations: 2, population_size: 4})", false),
    ("procedure", "CALL samyama.or.solve({label: 'P', property: 'z', algorithm: 'TLBO', max_iterations: 2, population_size: 4})", false),
];

/// Spellings of a procedure name.  Dispatch strips one optional lower-case namespace and matches the
/// rest case-insensitively, so every (namespace x case style) below except the last namespace reaches
/// the same implementation; `Algo.` is not a namespace the engine knows (every layer must refuse it alike).
pub(crate) const PROC_NAMESPACES: &[&str] = &["", "algo.", "samyama.", "gds.", "Algo."];
pub(crate) const N_PROC_CASES: u64 = 6;

/// `bare` (e.g. `or.solve`) in case style `style`: as written, Or.Solve, OR.SOLVE, or.Solve, oR.sOLVE, or.solvE.
pub(crate) fn proc_case(bare: &str, style: u64) -> String {
    let mut out = String::new();
    let mut at_start = true;
    let n = bare.len();
    for (i, c) in bare.chars().enumerate() {
        let up = match style % N_PROC_CASES {
            0 => false,
            1 => at_start,
            2 => true,
            3 => at_start && i > 0,
            4 => !at_start,
            _ => i + 1 == n,
        };
        out.push(if up { c.to_ascii_uppercase() } else { c });
        at_start = c == '.';
    }
    out
}

/// Re-spell the procedure name of a `CALL <name>(..)` clause: PRNG-chosen namespace x case style.
/// Returns (clause, "plain" | "mixed_case" | "unknown_namespace").
pub(crate) fn respell_call(r: &mut Rng, clause: &str) -> (String, &'static str) {
    let Some(rest) = clause.strip_prefix("CALL ") else { return (clause.to_string(), "plain") };
    let Some(open) = rest.find('(') else { return (clause.to_string(), "plain") };
    let name = &rest[..open];
    let bare = ["algo.", "samyama.", "gds."].iter().find_map(|ns| name.strip_prefix(ns)).unwrap_or(name);
    let ns = PROC_NAMESPACES[r.weighted(&[3, 4, 3, 2, 1])];
    let style = r.weighted(&[3, 2, 2, 2, 1, 1]) as u64;
    let spelled = proc_case(bare, style);
    let kind = if ns == "Algo." {
        "unknown_namespace"
    } else if spelled != bare {
        "mixed_case"
    } else {
        "plain"
    };
    (format!("CALL {ns}{spelled}{}", &rest[open..]), kind)
}

/// Clause pipelines (a write clause followed by WITH): the WITH that follows the write ...
const WITHS_N: &[&str] = &["WITH n", "WITH n", "WITH n, 1 AS one", "WITH DISTINCT n", "WITH n WHERE n.k >= 0", "WITH n AS n, 1 AS one"];
const WITHS_ANY: &[&str] = &["WITH 1 AS one", "WITH 1 AS one, 2 AS two"];
/// ... and the read-only tails after it (`n` carried over / only `one` carried over).
const PIPE_TAILS_N: &[&[&str]] = &[
    &["RETURN n.k AS k"],
    &["RETURN n"],
    &["RETURN count(*) AS c"],
    &["RETURN n.z AS z"],
    &["RETURN n.k AS k ORDER BY k LIMIT 2"],
    &["MATCH (n)-[:T]->(m)", "RETURN m.k AS k"],
    &["OPTIONAL MATCH (n)-[:T]->(m)", "RETURN n.k AS a, m.k AS b"],
    &["UNWIND [1, 2] AS x", "RETURN n.k AS k, x"],
    &["MATCH (m:Q)", "RETURN count(*) AS c"],
];
const PIPE_TAILS_ANY: &[&[&str]] = &[&["RETURN one"], &["RETURN count(*) AS c"], &["MATCH (m:P)", "RETURN m.k AS k"]];
const PIPE_RETURNS: &[&str] = &["", "RETURN count(*) AS c", "RETURN 1 AS one", "RETURN n", "RETURN n.k AS k"];

/// A data-write clause (no DDL, no procedure) usable where `n` is bound or not.
pub(crate) fn pick_data_write(r: &mut Rng, binds_n: bool) -> usize {
    let mut wi = r.usize_below(WRITES.len());
    for _ in 0..8 {
        let c = WRITES[wi].0;
        if c != "ddl" && c != "procedure" && (!WRITES[wi].2 || binds_n) {
            return wi;
        }
        wi = r.usize_below(WRITES.len());
    }
    9 // CREATE (:Q {k: 7})
}

/// Continue a statement whose last clause is a write (class `w1`) as a clause pipeline:
/// `WITH ..` + a read tail (every write sits before the last WITH), or + a second write
/// [+ RETURN] (writes on both sides), or + a second write + `WITH ..` + a read tail.
/// Returns the write class of the whole statement: `<w1>_with_read`, `<w1>_with_<w2>`,
/// `<w1>_with_<w2>_with_read`.
pub(crate) fn push_pipeline_tail(r: &mut Rng, clauses: &mut Vec<String>, w1: &str, binds_n: bool) -> String {
    fn push_with(r: &mut Rng, clauses: &mut Vec<String>, carry_n: bool) {
        let w = if carry_n { WITHS_N[r.usize_below(WITHS_N.len())] } else { WITHS_ANY[r.usize_below(WITHS_ANY.len())] };
        clauses.push(w.to_string());
    }
    fn push_read_tail(r: &mut Rng, clauses: &mut Vec<String>, carry_n: bool) {
        let t = if carry_n { PIPE_TAILS_N[r.usize_below(PIPE_TAILS_N.len())] } else { PIPE_TAILS_ANY[r.usize_below(PIPE_TAILS_ANY.len())] };
        clauses.extend(t.iter().map(|c| c.to_string()));
    }
    // sometimes the projection drops `n` although it is bound
    let carry_n = binds_n && !r.chance(1, 6);
    push_with(r, clauses, carry_n);
    match r.weighted(&[5, 3, 2]) {
        0 => {
            push_read_tail(r, clauses, carry_n);
            format!("{w1}_with_read")
        }
        k => {
            let wi = pick_data_write(r, carry_n);
            clauses.push(WRITES[wi].1.to_string());
            if k == 1 {
                let mut ret = PIPE_RETURNS[r.usize_below(PIPE_RETURNS.len())];
                if !carry_n && (ret == "RETURN n" || ret.starts_with("RETURN n.k")) {
                    ret = "RETURN 1 AS one";
                }
                if !ret.is_empty() {
                    clauses.push(ret.to_string());
                }
                format!("{w1}_with_{}", WRITES[wi].0)
            } else {
                push_with(r, clauses, carry_n);
                push_read_tail(r, clauses, carry_n);
                format!("{w1}_with_{}_with_read", WRITES[wi].0)
            }
        }
    }
}

/// Leading writes that bind `n` (so a pipeline can carry it on): (class, clauses).
const LEADING_WRITES_N: &[(&str, &[&str])] = &[
    ("create", &["CREATE (n:Q {k: 9})"]),
    ("merge", &["MERGE (n:Q {k: 9})"]),
    ("create", &["UNWIND [1, 2] AS x", "CREATE (n:Q {k: x})"]),
    ("merge", &["UNWIND [1, 2] AS x", "MERGE (n:Q {k: x})"]),
    ("delete", &["MATCH (n:P)", "WITH n", "DETACH DELETE n"]),
];

pub(crate) const READ_TAILS: &[&str] = &["RETURN n", "RETURN count(*) AS c", "RETURN n.k AS k ORDER BY k LIMIT 2", "RETURN 1 AS one"];
const RETURNS: &[&str] = &["", "RETURN count(*) AS c", "RETURN 1 AS one", "RETURN n"];
pub(crate) const SEPS: &[&str] = &[" ", "\n", "\t", "  ", " /* c */ ", "\n// c\n", "\r\n"];
const N_WRAPS: u64 = 16;
const DECOY: &str = "MATCH (n) RETURN n LIMIT 1";

pub(crate) fn recase(s: &str, mode: u64) -> String {
    if mode == 0 {
        return s.to_string();
    }
    // keywords are the maximal runs of >= 2 upper-case ASCII letters in the templates
    let b: Vec<char> = s.chars().collect();
    let mut out = String::new();
    let mut i = 0;
    let mut in_str = false;
    while i < b.len() {
        if b[i] == '\'' {
            in_str = !in_str;
        }
        if !in_str && b[i].is_ascii_uppercase() {
            let mut j = i;
            while j < b.len() && b[j].is_ascii_uppercase() {
                j += 1;
            }
            let prev_ok = i == 0 || !(b[i - 1].is_ascii_alphanumeric() || b[i - 1] == ':' || b[i - 1] == '_' || b[i - 1] == '.');
            // (a run followed by a dot is the head of a dotted name, e.g. `OR.SOLVE`: not a keyword either)
            let prev_ok = prev_ok && !(j < b.len() && b[j] == '.');
            if j - i >= 2 && prev_ok {
                for (k, c) in b[i..j].iter().enumerate() {
                    match mode {
                        1 => out.push(c.to_ascii_lowercase()),
                        2 => out.push(if k % 2 == 0 { *c } else { c.to_ascii_lowercase() }),
                        _ => out.push(if k == 0 { *c } else { c.to_ascii_lowercase() }),
                    }
                }
            } else {
                for c in &b[i..j] {
                    out.push(*c);
                }
            }
            i = j;
            continue;
        }
        out.push(b[i]);
        i += 1;
    }
    out
}

fn wrap(stmt: &str, w: u64) -> String {
    match w % N_WRAPS {
        0 => stmt.to_string(),
        1 => format!("```cypher\n{stmt}\n```"),
        2 => format!("```\n{stmt}\n```"),
        3 => format!("Here is the query:\n```cypher\n{stmt}\n```\nHope this helps!"),
        4 => format!("To answer this, run:\n{stmt}\nThis returns what you asked for."),
        5 => format!("```cypher\n{DECOY}\n```\nand then\n```cypher\n{stmt}\n```"),
        6 => format!("```cypher\n{stmt}\n```\nor, read-only:\n```cypher\n{DECOY}\n```"),
        7 => format!("// generated query\n{stmt}"),
        8 => format!("/* generated */ {stmt}"),
        9 => format!("{stmt};"),
        10 => format!("\n\n   {stmt}\n"),
        11 => format!("```cypher\n{stmt}"),
        12 => format!("```CYPHER\n// generated\n{stmt}\n```"),
        13 => format!("{DECOY}\n{stmt}"),
        14 => format!("```cypher\n\n  {stmt};\n```\n"),
        _ => format!("Sure! {stmt}"),
    }
}

fn gen_response(r: &mut Rng) -> Value {
    if r.chance(1, 25) {
        return json!({"op":"resp","api_error":true,"via":r.below(8)});
    }
    let pi = r.usize_below(PREFIXES.len());
    let (pclass, pclauses, binds_n) = PREFIXES[pi];
    let mutating = r.chance(5, 6);
    let mut clauses: Vec<String> = pclauses.iter().map(|s| s.to_string()).collect();
    let mut wclass = "none".to_string();
    let mut spelling = "";
    if mutating && r.chance(1, 8) {
        // a statement led by a write that binds `n` (UNWIND..CREATE, MATCH..WITH n DETACH DELETE n, ..),
        // always continued as a clause pipeline
        let (w1, lead) = LEADING_WRITES_N[r.usize_below(LEADING_WRITES_N.len())];
        clauses = lead.iter().map(|s| s.to_string()).collect();
        wclass = push_pipeline_tail(r, &mut clauses, w1, true);
        let sep = SEPS[r.weighted(&[8, 5, 1, 1, 1, 1, 1])];
        let case_mode = r.weighted(&[5, 3, 1, 1]) as u64;
        let stmt = recase(&clauses.join(sep), case_mode);
        let lead_class = if lead[0].starts_with("UNWIND") { "unwind" } else if lead[0].starts_with("MATCH") { "match_with" } else { "none" };
        return json!({"op":"resp","stmt":stmt,"wrap":r.below(N_WRAPS),"via":r.below(8),"prefix":lead_class,"write":wclass});
    }
    if mutating {
        // prefer a clause whose variable is bound, but keep some unbound combinations
        let mut wi = r.usize_below(WRITES.len());
        for _ in 0..4 {
            if !WRITES[wi].2 || binds_n || r.chance(1, 8) {
                break;
            }
            wi = r.usize_below(WRITES.len());
        }
        let w1 = WRITES[wi].0;
        wclass = w1.to_string();
        if w1 == "procedure" {
            // every namespace spelling x case style of the procedure name
            let (c, kind) = respell_call(r, WRITES[wi].1);
            spelling = kind;
            if kind != "plain" {
                wclass = format!("procedure_{kind}");
            }
            clauses.push(c);
        } else {
            clauses.push(WRITES[wi].1.to_string());
        }
        if w1 != "ddl" && w1 != "procedure" && (!WRITES[wi].2 || binds_n) && r.chance(2, 5) {
            // clause pipeline: every write followed by a WITH and a read tail / writes on both sides of a WITH
            wclass = push_pipeline_tail(r, &mut clauses, w1, binds_n);
        } else {
            let mut ret = RETURNS[r.usize_below(RETURNS.len())];
            if ret == "RETURN n" && !binds_n {
                ret = "RETURN 1 AS one";
            }
            if !ret.is_empty() {
                clauses.push(ret.to_string());
            }
        }
    } else {
        let mut t = READ_TAILS[r.usize_below(READ_TAILS.len())];
        if !binds_n && t.contains('n') && t != "RETURN count(*) AS c" && t != "RETURN 1 AS one" {
            t = "RETURN 1 AS one";
        }
        if pclass == "none" {
            clauses.push("MATCH (n:P)".to_string());
            t = READ_TAILS[r.usize_below(READ_TAILS.len())];
        }
        clauses.push(t.to_string());
    }
    let sep = SEPS[r.weighted(&[8, 5, 1, 1, 1, 1, 1])];
    let case_mode = r.weighted(&[5, 3, 1, 1]) as u64;
    let stmt = recase(&clauses.join(sep), case_mode);
    let mut ev = json!({"op":"resp","stmt":stmt,"wrap":r.below(N_WRAPS),"via":r.below(8),"prefix":pclass,"write":wclass});
    if !spelling.is_empty() {
        ev["spelling"] = json!(spelling);
    }
    ev
}

const SETUP: &[&str] = &[
    "CREATE (a:P {k: 1, name: 'a'})-[:T]->(b:P {k: 2, name: 'b'})",
    "CREATE (c:P {k: 3})",
    "CREATE (q:Q {k: 1})",
    "MATCH (a:P {k: 2}), (q:Q {k: 1}) CREATE (a)-[:T {w: 1}]->(q)",
    "CREATE (r:R {k: 1})",
    "CREATE INDEX ON :P(k)",
    "CREATE CONSTRAINT ON (r:R) ASSERT r.k IS UNIQUE",
    "CREATE HIERARCHY INDEX h1 ON ()-[:T]->()",
];

fn populated(engine: &QueryEngine) -> GraphStore {
    let mut g = GraphStore::new();
    for s in SETUP {
        engine.execute_mut(s, &mut g, "default").unwrap_or_else(|e| panic!("harness: setup statement {s:?} failed: {e}"));
    }
    g
}

#[derive(PartialEq, Eq, Debug, Clone)]
struct Observed {
    graph: String,
    graph_ids: String,
    indexes: Vec<String>,
    constraints: Vec<String>,
    vectors: Vec<String>,
    hierarchies: Vec<String>,
}

fn observe(g: &GraphStore) -> Observed {
    let d = dump(g);
    let mut indexes: Vec<String> = g.property_index.list_indexes().into_iter().map(|(l, p)| format!("{}.{}", l.as_str(), p)).collect();
    indexes.sort();
    let mut constraints: Vec<String> = g.property_index.list_constraints().into_iter().map(|(l, p)| format!("{}.{}", l.as_str(), p)).collect();
    constraints.sort();
    let mut vectors: Vec<String> = g.vector_index.list_indices().into_iter().map(|k| format!("{}.{}", k.label, k.property_key)).collect();
    vectors.sort();
    let mut hierarchies: Vec<String> = g.hierarchy_index.list().into_iter().map(|h| h.name).collect();
    hierarchies.sort();
    Observed { graph: d.canonical(), graph_ids: d.describe(), indexes, constraints, vectors, hierarchies }
}

/// One pipeline per worker process: building it constructs a reqwest client (TLS set-up,
/// ~100 ms) and it holds no state between calls.
fn pipeline() -> &'static NLQPipeline {
    static P: std::sync::OnceLock<NLQPipeline> = std::sync::OnceLock::new();
    P.get_or_init(new_pipeline)
}

fn new_pipeline() -> NLQPipeline {
    NLQPipeline::new(NLQConfig { enabled: true, provider: LLMProvider::Mock, model: "mock".into(), api_key: None, api_base_url: None, system_prompt: None })
        .expect("harness: NLQPipeline::new(Mock)")
}

/// Ask through the shipped router: POST /api/nlq {"question": ...}.
fn ask_http(store: GraphStore) -> Result<String, String> {
    use axum::body::Body;
    use http_body_util::BodyExt;
    use tower::ServiceExt;
    let store = Arc::new(tokio::sync::RwLock::new(store));
    let app = samyama::http::server::HttpServer::new(store, 0).router();
    let req = axum::http::Request::builder()
        .method("POST")
        .uri("/api/nlq")
        .header("content-type", "application/json")
        .body(Body::from(json!({"question":"who knows whom?"}).to_string()))
        .unwrap();
    block_on(async move {
        let resp = app.oneshot(req).await.map_err(|e| format!("router error: {e}"))?;
        let status = resp.status();
        let bytes = resp.into_body().collect().await.map_err(|e| format!("body: {e}"))?.to_bytes();
        let v: Value = serde_json::from_slice(&bytes).map_err(|e| format!("HARNESS json: {e}"))?;
        if status == axum::http::StatusCode::OK {
            match v.get("cypher").and_then(|c| c.as_str()) {
                Some(c) => Ok(c.to_string()),
                None => Err(format!("HARNESS 200 without cypher: {v}")),
            }
        } else {
            Err(format!("status {status}: {v}"))
        }
    })
}

impl Scenario for C24 {
    fn id(&self) -> &'static str {
        "C24"
    }
    fn runs(&self, tier: Tier) -> u64 {
        match tier {
            Tier::Quick => 3_000,
            Tier::Thorough => 150_000,
        }
    }
    fn rule(&self) -> &'static str {
        "a run = 1-8 simulated model responses; each is (one of 15 read prefixes incl. none) + (one of 27 write / DDL / write-procedure clauses, or a read tail in 1/6 of the responses) + optional RETURN; in 2/5 of the data-write statements the write clause is continued as a clause pipeline: WITH (6 forms, carrying n or dropping it) + a read tail (RETURN forms, MATCH / OPTIONAL MATCH / UNWIND .. RETURN: every write precedes the last WITH), or + a second write clause [+ RETURN] (writes on both sides of the WITH), or + a second write + WITH + read tail; 1/8 of the mutating responses are pipelines led by a write that binds n (CREATE, MERGE, UNWIND..CREATE/MERGE, MATCH..WITH n DETACH DELETE n); the procedure name of a write-procedure call is spelled with one of 5 namespaces (none, algo., samyama., gds., and the unknown Algo.) x 6 case styles (or.solve, Or.Solve, OR.SOLVE, or.Solve, oR.sOLVE, or.solvE); clauses joined by one of 7 separators (space, newline, tab, block comment, line comment, CRLF), keywords in one of 4 case styles, wrapped in one of 16 response shapes (plain, fenced with/without language tag, explanations before/after, two code blocks in both orders, leading line/block comment, trailing semicolon, leading blank lines, unterminated fence, chatty prefix), or an API error (1/25); 7/8 of the responses go through NLQPipeline::text_to_cypher, 1/8 through POST /api/nlq of the shipped router. Non-trivial = the run contains a response whose statement has a mutating clause after a non-empty read prefix. Distinct = hash of the (statement, wrapper, route) list."
    }
    fn real_components(&self) -> Vec<&'static str> {
        vec![
            "samyama::nlq::NLQPipeline::{text_to_cypher, extract_cypher, is_safe_query}",
            "samyama::nlq::client::NLQClient::generate_cypher (Mock arm, hook H6)",
            "samyama::http::server::HttpServer::router -> POST /api/nlq (nlq_handler)",
            "samyama::query::{parse_query, QueryPlanner::plan, QueryEngine::execute_mut (MutQueryExecutor)}",
            "GraphStore, IndexManager, VectorIndexManager, HierarchyIndexManager (observed)",
        ]
    }
    fn stub_components(&self) -> Vec<&'static str> {
        vec!["the language model: its responses (and API errors) are generated by the simulator and injected through samyama::verif::set_llm_script"]
    }
    fn assumptions(&self) -> Vec<&'static str> {
        vec![
            "'would execute without modifying' is decided by (a) the planner's is_write flag when the returned text parses and plans and (b) executing the returned text with the mutating executor on one fixed populated store (3 :P nodes, :Q, :R, 2 :T relationships, a property index, a unique constraint, a hierarchy index) and comparing dump + index/constraint/vector-index/hierarchy-index lists",
            "a returned text that does not parse, or fails at run time without changing anything, is not a violation (it cannot modify the graph)",
            "rejecting a harmless read statement is not a violation of this property (counted as probe read_rejected)",
        ]
    }
    fn required_probes(&self, _tier: Tier) -> Vec<&'static str> {
        vec![
            "accepted",
            "rejected",
            "accepted_read_executed",
            "api_error_propagated",
            "via_http",
            "pipeline_write_before_last_with_rejected",
            "pipeline_writes_both_sides_rejected",
            "procedure_mixed_case_rejected",
        ]
    }
    fn generate(&self, s: &mut Streams, _run_index: u64, _tier: Tier) -> Case {
        let mut case = Case::new("C24");
        let n = 1 + s.knobs.short_len(0, 7);
        for _ in 0..n {
            case.events.push(gen_response(&mut s.workload));
        }
        case
    }
    fn shrink_event(&self, ev: &Value) -> Vec<Value> {
        let mut out = Vec::new();
        if ev.get("stmt").is_some() {
            for w in [0u64, 1] {
                let mut e = ev.clone();
                e["wrap"] = json!(w);
                out.push(e);
            }
            let mut e = ev.clone();
            e["via"] = json!(0);
            out.push(e);
        }
        out
    }
    fn execute(&self, case: &Case) -> Outcome {
        let mut o = Outcome::new();
        std::env::set_var("NLQ_PROVIDER", "mock");
        let engine = QueryEngine::new();
        let pipe = pipeline();
        let base = populated(&engine);
        let schema = base.schema_summary();
        let before = observe(&base);
        let mut keys: Vec<String> = Vec::new();
        let mut hash_parts: Vec<String> = Vec::new();
        for (step, ev) in case.events.iter().enumerate() {
            if op(ev) != "resp" {
                continue;
            }
            o.steps += 1;
            let api_error = ev.get("api_error").and_then(|b| b.as_bool()).unwrap_or(false);
            let via_http = u(ev, "via") % 8 == 7;
            let text = if api_error { String::new() } else { wrap(s(ev, "stmt"), u(ev, "wrap")) };
            let wclass = s(ev, "write").to_string();
            let pclass = s(ev, "prefix").to_string();
            keys.push(format!("{}|{}|{}|{}", s(ev, "stmt"), u(ev, "wrap") % N_WRAPS, via_http, api_error));
            if wclass != "none" && !wclass.is_empty() && pclass != "none" {
                o.nontrivial = true;
            }
            let script_text = text.clone();
            samyama::verif::set_llm_script(Some(Arc::new(move |_prompt: &str| if api_error { Err("simulated upstream 503".to_string()) } else { Ok(script_text.clone()) })));
            let res: Result<String, String> = if via_http {
                o.probe("via_http");
                ask_http(populated(&engine))
            } else {
                block_on(pipe.text_to_cypher("who knows whom?", &schema)).map_err(|e| e.to_string())
            };
            samyama::verif::set_llm_script(None);
            if let Err(e) = &res {
                if e.starts_with("HARNESS") {
                    panic!("{e}");
                }
            }
            if api_error {
                match res {
                    Err(_) => o.probe("api_error_propagated"),
                    Ok(stmt) => {
                        o.violate(Violation::new("C24/api_error/returned_statement", format!("the model call failed, yet the pipeline returned {stmt:?}"), step));
                        break;
                    }
                }
                hash_parts.push("E".into());
                continue;
            }
            let stmt = match res {
                Err(_) => {
                    o.probe("rejected");
                    if wclass == "none" && u(ev, "wrap") % N_WRAPS <= 3 {
                        o.probe("read_rejected");
                    }
                    if wclass.ends_with("_with_read") {
                        o.probe("pipeline_write_before_last_with_rejected");
                    } else if wclass.contains("_with_") {
                        o.probe("pipeline_writes_both_sides_rejected");
                    }
                    if s(ev, "spelling") == "mixed_case" {
                        o.probe("procedure_mixed_case_rejected");
                    }
                    hash_parts.push("R".into());
                    continue;
                }
                Ok(s) => s,
            };
            o.probe("accepted");
            hash_parts.push(format!("A:{stmt}"));
            let effect_class = if wclass.is_empty() { "none".to_string() } else { wclass.clone() };
            // (a) static: the plan must not be a write plan
            let mut static_write = false;
            match parse_query(&stmt) {
                Ok(q) => match QueryPlanner::new().plan(&q, &base) {
                    Ok(plan) => {
                        if plan.is_write {
                            static_write = true;
                        }
                    }
                    Err(_) => o.probe("accepted_unplannable"),
                },
                Err(_) => o.probe("accepted_unparsable"),
            }
            // (b) dynamic: run it with the mutating executor on a populated store
            let mut g = populated(&engine);
            let ran = std::panic::catch_unwind(std::panic::AssertUnwindSafe(|| engine.execute_mut(&stmt, &mut g, "default").map(|b| b.records.len()).map_err(|e| e.to_string())));
            match &ran {
                Ok(Ok(_)) => {
                    if !static_write {
                        o.probe("accepted_read_executed");
                    }
                }
                Ok(Err(_)) => o.probe("accepted_failed_at_runtime"),
                Err(_) => o.probe("accepted_panicked"),
            }
            let after = observe(&g);
            let mut what: Option<(&str, String)> = None;
            if after.graph != before.graph || after.graph_ids != before.graph_ids {
                what = Some(("graph_modified", format!("graph before: {} | after: {}", before.graph_ids, after.graph_ids)));
            } else if after.indexes != before.indexes {
                what = Some(("indexes_modified", format!("indexes before {:?} after {:?}", before.indexes, after.indexes)));
            } else if after.constraints != before.constraints {
                what = Some(("constraints_modified", format!("constraints before {:?} after {:?}", before.constraints, after.constraints)));
            } else if after.vectors != before.vectors {
                what = Some(("vector_indexes_modified", format!("vector indexes before {:?} after {:?}", before.vectors, after.vectors)));
            } else if after.hierarchies != before.hierarchies {
                what = Some(("hierarchy_indexes_modified", format!("hierarchy indexes before {:?} after {:?}", before.hierarchies, after.hierarchies)));
            } else if static_write {
                what = Some(("write_plan", "the planner marks the returned statement as a write plan (is_write)".to_string()));
            }
            if let Some((effect, detail)) = what {
                o.violate(Violation::new(
                    format!("C24/accepted/{effect}/{effect_class}"),
                    format!("model response {text:?} -> text_to_cypher returned Ok({stmt:?}) (prefix class {pclass}, route {}); {detail}", if via_http { "POST /api/nlq" } else { "NLQPipeline" }),
                    step,
                ));
                break;
            }
        }
        samyama::verif::set_llm_script(None);
        o.class_key = hash_str(&keys.join("\n"));
        o.state_hash = hash_str(&hash_parts.join("\n"));
        o
    }
}
