//! C12 — snapshot export then import reproduces the graph.
//!
//! Sim: a graph is built by a history (Cypher writes through `QueryEngine::execute_mut`,
//! the full API, the stub API + `finish_bulk_load`, compaction, committed transactions so
//! multi-version nodes exist, hierarchy index declarations); it is exported through a
//! `SimWriter` and the bytes are imported into an empty store through a `SimReader`.
//! Size classes: most histories are small (<= ~35 relationships); one run in eight starts
//! with bulk events (`kit::snapgraph::gen_bulk`) that create more than 64 / 128 / 192
//! relationships (optionally more than 64 nodes) and delete some of the relationships again,
//! so ids cross 64-id boundaries and the surviving ids have gaps (probes `rel_ids_over_*`,
//! `rel_ids_over_64_with_gaps`, `node_ids_over_64`).
//! Names: in half of the non-pristine runs (`knobs.odd_names`) odd-but-legal strings the store
//! API accepts — "", whitespace-only, a plain name with surrounding whitespace / in the other
//! case, quotes, backslash, JSON-significant characters, a line break, non-BMP / combining
//! unicode, the format's own field names — are overlaid on the history's labels, relationship
//! types, property keys and hierarchy declarations (`kit::snapgraph::gen_odd_names`), alone
//! and next to ordinary names (probes `empty_label_alone`, `empty_label_with_others`,
//! `odd_label`, `odd_rel_type`, `empty_rel_type`, `odd_property_key`, `empty_property_key`,
//! `odd_hierarchy_declaration`); in the same runs about one property value in 12 is a map
//! keyed by the format's own tag names (`{__type: 'DateTime', value: 5}`, probe
//! `tag_lookalike_map`).
//! Three stream configurations, counted separately (probes `cfg_*`):
//!   clean    — whole-buffer I/O; strict isomorphism + same hierarchy declarations;
//!   unusual  — short reads/writes (down to 1 byte) and `Interrupted`; same strict oracle;
//!   erroring — a write error during export / a read error or early end of stream during
//!              import: either side may fail, but `Ok` must mean the same graph as a clean
//!              import of the same bytes.

use crate::kit::core::*;
use crate::kit::dump::dump;
use crate::kit::rng::Streams;
use crate::kit::snapgraph::*;
use crate::kit::stream::{Decisions, SimReader, SimWriter, StreamFaults};
use samyama::graph::{EdgeType, GraphStore, Label};
use samyama::snapshot::{export_tenant_with_compression, import_tenant};
use serde_json::{json, Value};
use std::collections::BTreeSet;
use std::panic::{catch_unwind, AssertUnwindSafe};

pub struct C12;


fn decisions(case: &Case, k: &str) -> Decisions {
    Decisions::new(case.knobs.get(k).and_then(|v| v.as_array()).map(|a| a.iter().map(|x| x.as_u64().unwrap_or(0)).collect()).unwrap_or_default())
}

fn err_class(msg: &str) -> &'static str {
    if msg.contains("missing field") || msg.contains("unknown field") || msg.contains("invalid type") || msg.contains("expected") {
        "record_parse"
    } else if msg.contains("unknown source node") || msg.contains("unknown target node") {
        "dangling_edge"
    } else if msg.contains("simulated") {
        "io_passthrough"
    } else if msg.contains("deflate") || msg.contains("gzip") || msg.contains("eof") || msg.contains("EOF") || msg.contains("corrupt") {
        "decode"
    } else {
        "other"
    }
}

/// Label-index and type-index views of an imported store against its own node/edge table.
fn index_views(g: &GraphStore, out: &mut Vec<(String, String)>) {
    let d = dump(g);
    let mut labels: BTreeSet<String> = BTreeSet::new();
    for n in d.nodes.values() {
        labels.extend(n.labels.iter().cloned());
    }
    for l in labels {
        let want: BTreeSet<u64> = d.nodes.iter().filter(|(_, n)| n.labels.contains(&l)).map(|(i, _)| *i).collect();
        let got: BTreeSet<u64> = g.get_nodes_by_label(&Label::new(l.as_str())).iter().map(|n| n.id.as_u64()).collect();
        if got != want {
            let missing: Vec<u64> = want.difference(&got).cloned().collect();
            let extra: Vec<u64> = got.difference(&want).cloned().collect();
            let class = if extra.is_empty() && missing.iter().all(|i| d.nodes[i].labels.len() > 1) { "multi_label_node_not_found_by_label" } else { "other" };
            out.push((format!("label_index/{class}"), format!("after import get_nodes_by_label({l:?}) returns {got:?}, nodes carrying the label: {want:?}")));
        }
    }
    let mut types: BTreeSet<String> = BTreeSet::new();
    for e in d.edges.values() {
        types.insert(e.ty.clone());
    }
    for t in types {
        let want: BTreeSet<u64> = d.edges.iter().filter(|(_, e)| e.ty == t).map(|(i, _)| *i).collect();
        let got: BTreeSet<u64> = g.get_edges_by_type(&EdgeType::new(t.as_str())).iter().map(|e| e.id.as_u64()).collect();
        if got != want {
            out.push(("type_index/other".to_string(), format!("after import get_edges_by_type({t:?}) returns {got:?}, relationships of the type: {want:?}")));
        }
    }
}

fn report(o: &mut Outcome, step: usize, diffs: Vec<(String, String)>) {
    let mut seen = BTreeSet::new();
    for (tail, detail) in diffs {
        if seen.insert(tail.clone()) && o.violations.len() < 12 {
            o.violate(Violation::new(format!("C12/{tail}"), detail, step));
        }
    }
}

/// Strict comparison of an imported store with the original.
fn compare(o: &mut Outcome, orig: &GraphStore, imp: &GraphStore, step: usize) -> (String, String) {
    let c1 = dump(orig).canonical();
    let c2 = dump(imp).canonical();
    let mut diffs = Vec::new();
    if c1 != c2 {
        diffs = classify(orig, imp);
        if diffs.is_empty() {
            diffs.push(("graph/canonical_differs_unclassified".to_string(), format!("original:\n{c1}\nimported:\n{c2}")));
        }
    }
    diffs.extend(diff_hierarchies(orig, imp));
    index_views(imp, &mut diffs);
    report(o, step, diffs);
    (c1, c2)
}

impl Scenario for C12 {
    fn id(&self) -> &'static str {
        "C12"
    }
    fn runs(&self, tier: Tier) -> u64 {
        match tier {
            Tier::Quick => 6_000,
            Tier::Thorough => 600_000,
        }
    }
    fn rule(&self) -> &'static str {
        "history = PRNG-generated sequence (<=30 ops; one run in eight additionally starts with bulk events creating >64 / >128 / >192 relationships, optionally >64 nodes, and a bulk deletion among those relationships, so ids cross 64-id boundaries and have gaps) of node/relationship creations through Cypher, the full API and the stub API, property writes (API, column-only, Cypher SET), label additions, early deletions, compact_adjacency / finish_bulk_load, committed transactions (version bumps) and hierarchy index declarations; property values from the boundary generator or from a 'safe' generator (knob); in half of the non-pristine runs odd-but-legal names (empty, whitespace-only, padded / other-case variants of a plain name, quotes, backslash, JSON-significant characters, line break, non-BMP and combining unicode, the format's own field names) are overlaid on labels, relationship types, property keys and hierarchy declarations through the store API, alone and next to ordinary names, and about one property value in 12 is a map keyed by the format's own tag names (__type, value, ...). The graph is exported through a simulated writer and imported into an empty store through a simulated reader under one of three stream configurations (clean / unusual / erroring). Non-trivial = the graph has >=2 nodes and >=1 relationship and the export and import both ran. Distinct = hash of the sequence of (op kind, route) plus the stream configuration."
    }
    fn real_components(&self) -> Vec<&'static str> {
        vec![
            "samyama::snapshot::{export_tenant_with_compression, import_tenant} (generic Write/Read seams)",
            "flate2 GzEncoder/GzDecoder, serde_json",
            "samyama::graph::GraphStore, ColumnStore, HierarchyIndexManager",
            "samyama::query::QueryEngine::execute_mut (graph construction)",
        ]
    }
    fn stub_components(&self) -> Vec<&'static str> {
        vec!["byte sink/source: kit::stream::SimWriter / SimReader", "erroring config, import side: the exported bytes are canonicalised (header timestamp fixed, JSON keys and label arrays sorted, recompressed) so fault offsets do not depend on the clock or on HashMap order"]
    }
    fn assumptions(&self) -> Vec<&'static str> {
        vec![
            "isomorphism is decided by kit::dump::Dump::canonical (1-WL colour refinement, 3 rounds) over the public read API; differences are then attributed per node through a unique integer `_id` property the harness adds to every node",
            "no deletions after the first compaction / version bump (deleted frozen relationships stay visible: C06's finding; delete_node pops one version only: C07's area)",
            "a hierarchy declaration whose covering relation has a cycle at export time may be missing after import (documented in import_tenant_inner)",
            "label/type index views of the imported store are compared with the imported store's own node table (signature prefix label_index/, type_index/): 'same nodes with the same label sets' is read as including 'found by those labels'",
        ]
    }
    fn required_probes(&self, _tier: Tier) -> Vec<&'static str> {
        vec!["cfg_clean", "cfg_unusual", "cfg_erroring", "multi_version_node", "mixed_tiers", "cypher_built", "hierarchy_declared", "strict_equal_clean", "strict_equal_unusual", "export_failed_cleanly", "import_failed_cleanly", "short_read", "interrupted_read", "short_write", "interrupted_write", "rel_ids_over_64", "rel_ids_over_128", "rel_ids_over_64_with_gaps", "node_ids_over_64", "empty_label_alone", "empty_label_with_others", "odd_label", "odd_label_next_to_plain_label", "odd_rel_type", "empty_rel_type", "odd_property_key", "empty_property_key", "odd_rel_property_key", "odd_hierarchy_declaration", "tag_lookalike_map"]
    }
    fn generate(&self, s: &mut Streams, _run_index: u64, _tier: Tier) -> Case {
        let mut case = Case::new("C12");
        let k = &mut s.knobs;
        let pristine = k.chance(1, 4);
        let cfg = GenCfg {
            max_ops: 30,
            boundary: !pristine && k.chance(2, 3),
            unlabelled: !pristine && k.chance(1, 2),
            commits: !pristine && k.chance(1, 2),
            cypher: k.chance(3, 4),
            deletes: k.chance(1, 2),
            hier: k.chance(1, 2),
            type_tokens: !pristine && k.chance(1, 3),
        };
        let streams = ["clean", "clean", "unusual", "unusual", "erroring"][k.usize_below(5)];
        case.knobs.insert("streams".into(), json!(streams));
        case.knobs.insert("level".into(), json!(k.below(10)));
        case.knobs.insert("gen".into(), json!({"boundary":cfg.boundary,"unlabelled":cfg.unlabelled,"commits":cfg.commits,"cypher":cfg.cypher,"deletes":cfg.deletes,"hier":cfg.hier,"type_tokens":cfg.type_tokens}));
        let f = &mut s.fault;
        if streams == "unusual" {
            case.knobs.insert("w_chunk".into(), json!([1, 1, 2, 7, 64][f.usize_below(5)]));
            case.knobs.insert("r_chunk".into(), json!([1, 1, 3, 16, 100][f.usize_below(5)]));
            case.knobs.insert("w_intr".into(), json!([0, 2, 3, 10][f.usize_below(4)]));
            case.knobs.insert("r_intr".into(), json!([0, 2, 3, 10][f.usize_below(4)]));
        }
        if streams == "erroring" {
            case.knobs.insert("w_err_permille".into(), json!(f.below(1000)));
            case.knobs.insert("r_kind".into(), json!(["error", "eof"][f.usize_below(2)]));
            case.knobs.insert("r_permille".into(), json!(f.below(1000)));
            case.knobs.insert("r_chunk".into(), json!([0, 1, 16][f.usize_below(3)]));
        }
        case.knobs.insert("w_dec".into(), json!((0..16).map(|_| f.below(1 << 20)).collect::<Vec<_>>()));
        case.knobs.insert("r_dec".into(), json!((0..16).map(|_| f.below(1 << 20)).collect::<Vec<_>>()));
        case.events = gen_history(&mut s.workload, &cfg);
        // size class: one run in eight builds a graph with more than 64 / 128 / 192
        // relationships (bulk events through the store API) and deletes some of them again,
        // so relationship ids cross 64-id word boundaries and the ids of the survivors have
        // gaps; the rest of the history then runs on top of that graph
        let words = if s.knobs.chance(1, 8) { [1, 1, 2, 2, 3][s.knobs.usize_below(5)] } else { 0 };
        case.knobs.insert("size_words".into(), json!(words));
        if words > 0 {
            let r = &mut s.workload;
            let (bulk, del) = gen_bulk(r, words);
            // after the first node (the history starts with 1-3 node creations)
            let at = 1.min(case.events.len());
            let n = bulk.len();
            for (i, e) in bulk.into_iter().enumerate() {
                case.events.insert(at + i, e);
            }
            // the bulk deletion right after the bulk creation or a few events later
            let later = if r.chance(1, 2) { 0 } else { r.usize_below(5) };
            let pos = (at + n + later).min(case.events.len());
            case.events.insert(pos, del);
        }
        // names: odd-but-legal labels / relationship types / property keys / hierarchy
        // names and measure names (only the store API can spell them) overlaid on the
        // history; drawn last so that everything above is the same history as without it
        let odd = !pristine && s.knobs.chance(1, 2);
        case.knobs.insert("odd_names".into(), json!(odd));
        if odd {
            gen_odd_names(&mut s.workload, &mut case.events);
            // ... and, inside values, maps keyed by the format's own tag names
            gen_tag_lookalikes(&mut s.workload, &mut case.events);
        }
        case
    }
    fn shrink_event(&self, ev: &Value) -> Vec<Value> {
        shrink_builder_event(ev)
    }
    fn execute(&self, case: &Case) -> Outcome {
        tune_allocator();
        let mut o = Outcome::new();
        let mut b = Builder::new(true);
        let mut parts: Vec<String> = Vec::new();
        for ev in &case.events {
            if b.apply(ev) {
                o.steps += 1;
                parts.push(format!("{}{}", ev["op"].as_str().unwrap_or(""), ev["via"].as_str().unwrap_or("")));
            }
        }
        let step = case.events.len();
        let streams = case.knob_str("streams", "clean");
        let level = case.knob_u64("level", 3) as u32;
        let orig = &b.g;
        if !multi_version_ids(orig).is_empty() {
            o.probe("multi_version_node");
        }
        if b.n("compact") > 0 && orig.adjacency_stats().frozen_edges > 0 && orig.adjacency_stats().buffer_edges > 0 {
            o.probe("mixed_tiers");
        }
        if b.n("cypher_ok") > 0 {
            o.probe("cypher_built");
        }
        if b.n("cypher_rejected") > 0 {
            o.probe_n("cypher_rejected", b.n("cypher_rejected"));
        }
        if !hier_specs(orig).is_empty() {
            o.probe("hierarchy_declared");
        }
        if b.n("stub_edge") > 0 {
            o.probe("stub_edges");
        }
        o.probe(&format!("cfg_{streams}"));
        let d0 = dump(orig);
        {
            // how far the relationship / node id spaces reach, and whether they have gaps
            let max_eid = d0.edges.keys().next_back().cloned().unwrap_or(0);
            let max_nid = d0.nodes.keys().next_back().cloned().unwrap_or(0);
            if max_eid > 64 {
                o.probe("rel_ids_over_64");
            }
            if max_eid > 128 {
                o.probe("rel_ids_over_128");
            }
            if max_eid > 64 && (d0.edges.len() as u64) < max_eid {
                o.probe("rel_ids_over_64_with_gaps");
            }
            if max_nid > 64 {
                o.probe("node_ids_over_64");
            }
        }
        {
            // odd-but-legal names in the graph that is exported (each probe once per run)
            let mut seen: BTreeSet<&'static str> = BTreeSet::new();
            let is_odd = |s: &str, odd: &[&str]| odd.contains(&s);
            for n in d0.nodes.values() {
                if n.labels.contains("") {
                    seen.insert(if n.labels.len() == 1 { "empty_label_alone" } else { "empty_label_with_others" });
                }
                if n.labels.iter().any(|l| is_odd(l, &ODD_LABELS)) {
                    seen.insert("odd_label");
                    if n.labels.iter().any(|l| !is_odd(l, &ODD_LABELS)) {
                        seen.insert("odd_label_next_to_plain_label");
                    }
                }
                if n.props.keys().any(|k| is_odd(k, &ODD_KEYS)) {
                    seen.insert("odd_property_key");
                }
                if n.props.contains_key("") {
                    seen.insert("empty_property_key");
                }
            }
            for e in d0.edges.values() {
                if is_odd(&e.ty, &ODD_TYPES) {
                    seen.insert("odd_rel_type");
                }
                if e.ty.is_empty() {
                    seen.insert("empty_rel_type");
                }
                if e.props.keys().any(|k| is_odd(k, &ODD_KEYS)) {
                    seen.insert("odd_rel_property_key");
                }
            }
            for (name, spec) in hier_specs(orig) {
                let m = spec.measure.as_ref();
                if is_odd(&name, &ODD_HNAMES)
                    || spec.edge_types.iter().any(|t| is_odd(t.as_str(), &ODD_TYPES))
                    || m.map(|m| is_odd(&m.property, &ODD_KEYS) || m.label.as_ref().map(|l| is_odd(l.as_str(), &ODD_LABELS)).unwrap_or(false)).unwrap_or(false)
                {
                    seen.insert("odd_hierarchy_declaration");
                }
            }
            if has_tag_lookalike(orig) {
                seen.insert("tag_lookalike_map");
            }
            for p in seen {
                o.probe(p);
            }
        }
        o.nontrivial = d0.nodes.len() >= 2 && !d0.edges.is_empty();
        o.class_key = hash_str(&format!("{}|{streams}", parts.join(",")));
        let orig_canon = d0.canonical();
        let mut imp_canon = String::from("-");
        // ---- export
        let wf = match streams.as_str() {
            "unusual" => StreamFaults { max_chunk: case.knob_u64("w_chunk", 1) as usize, interrupt_1_in: case.knob_u64("w_intr", 0), ..Default::default() },
            _ => StreamFaults::default(),
        };
        let mut w = SimWriter::new(wf, decisions(case, "w_dec"));
        let ex = catch_unwind(AssertUnwindSafe(|| export_tenant_with_compression(orig, &mut w, level).map(|_| ()).map_err(|e| e.to_string())));
        // (stream call counts are not added to `steps`: the raw export carries a wall-clock
        // timestamp, so its length and the number of 1-byte calls vary between executions)
        o.steps += 1;
        if w.stats.short > 0 {
            o.probe("short_write");
        }
        if w.stats.interrupted > 0 {
            o.probe("interrupted_write");
        }
        let bytes = match ex {
            Err(_) => {
                o.violate(Violation::new("C12/export/panicked", "export_tenant_with_compression panicked", step));
                None
            }
            Ok(Err(e)) => {
                o.violate(Violation::new(format!("C12/export/failed_on_{streams}_stream/{}", err_class(&e)), format!("export failed without an injected error: {e}"), step));
                None
            }
            Ok(Ok(())) => Some(std::mem::take(&mut w.data)),
        };
        let Some(bytes) = bytes else {
            o.state_hash = hash_str(&format!("{orig_canon}|export-failed"));
            return o;
        };

        if streams != "erroring" {
            // ---- import through the configured reader, strict oracle
            let rf = match streams.as_str() {
                "unusual" => StreamFaults { max_chunk: case.knob_u64("r_chunk", 1) as usize, interrupt_1_in: case.knob_u64("r_intr", 0), ..Default::default() },
                _ => StreamFaults::default(),
            };
            let mut r = SimReader::new(bytes, rf, decisions(case, "r_dec"));
            let mut imp = GraphStore::new();
            let res = catch_unwind(AssertUnwindSafe(|| import_tenant(&mut imp, &mut r).map(|_| ()).map_err(|e| e.to_string())));
            o.steps += 1;
            if r.stats.short > 0 {
                o.probe("short_read");
            }
            if r.stats.interrupted > 0 {
                o.probe("interrupted_read");
            }
            match res {
                Err(_) => o.violate(Violation::new("C12/import/panicked", "import_tenant panicked on an unmodified snapshot", step)),
                Ok(Err(e)) => o.violate(Violation::new(format!("C12/import/rejects_own_export/{}", err_class(&e)), format!("import of an unmodified export ({streams} stream) failed: {e}"), step)),
                Ok(Ok(())) => {
                    let (_, c2) = compare(&mut o, orig, &imp, step);
                    if o.violations.is_empty() {
                        o.probe("strict_equal");
                        o.probe(&format!("strict_equal_{streams}"));
                    }
                    imp_canon = c2;
                }
            }
        } else {
            // ---- (1) export again with a write error at a chosen offset
            let len = bytes.len();
            if len > 32 {
                let at = (case.knob_u64("w_err_permille", 0) as usize * (len - 16)) / 1000;
                let mut w2 = SimWriter::new(StreamFaults { error_at: Some(at), ..Default::default() }, decisions(case, "w_dec"));
                let ex2 = catch_unwind(AssertUnwindSafe(|| export_tenant_with_compression(orig, &mut w2, level).map(|_| ()).map_err(|e| e.to_string())));
                if w2.stats.errors > 0 {
                    o.fault("write_error");
                }
                match ex2 {
                    Err(_) => o.violate(Violation::new("C12/export/panicked_on_write_error", "export panicked when the writer failed", step)),
                    Ok(Ok(())) => o.violate(Violation::new("C12/export/ok_despite_write_error", format!("writer failed after {at} bytes (of ~{len}) but export returned Ok with {} bytes written", w2.data.len()), step)),
                    Ok(Err(_)) => o.probe("export_failed_cleanly"),
                }
            }
            // ---- (2) import canonicalised bytes: clean baseline, then with a read fault
            match canonical_snapshot(&bytes) {
                Err(e) => o.violate(Violation::new("C12/export/output_not_a_snapshot", format!("exported bytes do not decode: {e}"), step)),
                Ok((cbytes, _text)) => {
                    let mut base = GraphStore::new();
                    let base_res = catch_unwind(AssertUnwindSafe(|| import_tenant(&mut base, &cbytes[..]).map(|_| ()).map_err(|e| e.to_string())));
                    let at = (case.knob_u64("r_permille", 0) as usize * cbytes.len()) / 1000;
                    let kind = case.knob_str("r_kind", "error");
                    let rf = StreamFaults {
                        max_chunk: case.knob_u64("r_chunk", 0) as usize,
                        error_at: if kind == "error" { Some(at) } else { None },
                        eof_at: if kind == "eof" { Some(at) } else { None },
                        ..Default::default()
                    };
                    let mut r = SimReader::new(cbytes.clone(), rf, decisions(case, "r_dec"));
                    let mut imp = GraphStore::new();
                    let res = catch_unwind(AssertUnwindSafe(|| import_tenant(&mut imp, &mut r).map(|_| ()).map_err(|e| e.to_string())));
                    o.steps += 1;
                    if r.stats.errors > 0 {
                        o.fault("read_error");
                    }
                    if r.stats.eof_early > 0 {
                        o.fault("early_eof");
                    }
                    match (base_res, res) {
                        (_, Err(_)) => o.violate(Violation::new(format!("C12/import/panicked_on_{kind}"), format!("import panicked with a reader {kind} at byte {at}"), step)),
                        (Ok(Ok(())), Ok(Ok(()))) => {
                            let (cb, ci) = (dump(&base).canonical(), dump(&imp).canonical());
                            if cb != ci {
                                o.violate(Violation::new(
                                    format!("C12/erroring/import_ok_with_different_graph_after_{kind}"),
                                    format!("reader {kind} at byte {at} of {}: import returned Ok but the graph differs from a clean import of the same bytes; clean:\n{cb}\nfaulty:\n{ci}", cbytes.len()),
                                    step,
                                ));
                            } else {
                                o.probe("erroring_import_ok_same_graph");
                            }
                            imp_canon = ci;
                        }
                        (_, Ok(Err(_))) => o.probe("import_failed_cleanly"),
                        (_, Ok(Ok(()))) => {
                            o.violate(Violation::new(format!("C12/erroring/import_ok_after_{kind}_where_clean_import_fails"), format!("reader {kind} at byte {at}: Ok, while a clean import of the same bytes fails"), step));
                        }
                    }
                }
            }
        }
        o.state_hash = hash_str(&format!("{orig_canon}|{imp_canon}"));
        o
    }
}
