//! C15 — WAL replays exactly the durable prefix, in order.
//!
//! Sim: one "process" at a time owns a real `samyama::persistence::wal::Wal` whose every
//! file-system call goes to `kit::simfs::SimFs` (hook H3).  A history is a list of
//! `append / flush / sync / checkpoint / replay` events split into *sessions* by `reopen`
//! (clean close + `Wal::new`) and `crash` (kill between two calls + `Wal::new`) events.
//!
//! Sub-executions of one case (fault enumeration):
//!   base   the history as generated, oracle after every step;
//!   crash  for every session and every FS call of that session (and every torn offset of
//!          every write): the same history with the process killed there, the rest of the
//!          session skipped, later sessions run normally;
//!   trunc  the newest log file of the base run cut at every byte offset, then reopen,
//!          replay, append one more record, replay again;
//!   flip   every byte of every log file of the base run XORed with a mask in turn, then
//!          reopen + replay.
//!
//! Oracle (ModelLog): the model knows the exact bytes every appended record must occupy
//! (`u32 len | u64 seq | bincode(entry) | u32 xor`), which file they go to (observed from
//! the op log: the file the WAL opened), and which bytes were handed to the OS for sure
//! (after `flush`, an append in sync mode, `checkpoint`, a clean close).  "What is on disk"
//! is always read from the simulated disk; the model only says what it may be.

use crate::kit::core::*;
use crate::kit::crashpoints::{crash_points, describe};
use crate::kit::model::*;
use crate::kit::rng::{Rng, Streams};
use crate::kit::simfs::{run_process, CrashPoint, OpRec, Reboot, SimFs};
use samyama::persistence::wal::{Wal, WalEntry, WalError};
use serde_json::{json, Value};
use std::collections::{BTreeMap, BTreeSet};
use std::path::Path;
use std::sync::Arc;

pub struct C15;

const DIR: &str = "/sim/wal";
/// sub-executions whose framing would make the (unfixed) reader allocate more than this are
/// skipped (probe `flip_skipped_huge_alloc`): `buf.resize(len)` on a garbage length
const MAX_ALLOC: usize = 20 << 20;

// ------------------------------------------------------------------ entries and encoding

fn make_entry(ev: &Value) -> WalEntry {
    let id = u(ev, "id");
    let n = u(ev, "n") as usize;
    let fill = (u(ev, "fill") & 0xff) as u8;
    let props = vec![fill; n];
    let t = "t".to_string();
    match u(ev, "k") % 6 {
        0 => WalEntry::CreateNode {
            tenant: t,
            node_id: id,
            labels: (0..(u(ev, "l") % 3) as usize).map(|i| ["A", "Bc"][i].to_string()).collect(),
            properties: props,
        },
        1 => WalEntry::CreateEdge { tenant: t, edge_id: id, source: id % 3 + 1, target: id % 2 + 1, edge_type: "R".into(), properties: props },
        2 => WalEntry::DeleteNode { tenant: t, node_id: id },
        3 => WalEntry::DeleteEdge { tenant: t, edge_id: id },
        4 => WalEntry::UpdateNodeProperties { tenant: t, node_id: id, properties: props, version: u(ev, "v") },
        _ => WalEntry::UpdateEdgeProperties { tenant: t, edge_id: id, properties: props, version: u(ev, "v") },
    }
}

fn xor8(bytes: &[u8]) -> u8 {
    bytes.iter().fold(0u8, |a, b| a ^ b)
}

/// `u32 len | u64 seq | entry | u32 checksum` — the layout `Wal::append` produces
/// (bincode 1.x fixed-int little endian of the private `WalRecord`).
fn encode(seq: u64, entry: &[u8]) -> Vec<u8> {
    let body = 8 + entry.len() + 4;
    let mut out = Vec::with_capacity(4 + body);
    out.extend_from_slice(&(body as u32).to_le_bytes());
    out.extend_from_slice(&seq.to_le_bytes());
    out.extend_from_slice(entry);
    out.extend_from_slice(&(xor8(entry) as u32).to_le_bytes());
    out
}

/// entry bytes with a checkpoint's wall-clock timestamp zeroed
fn norm_entry(e: &WalEntry) -> Vec<u8> {
    match e {
        WalEntry::Checkpoint { sequence, .. } => bincode::serialize(&WalEntry::Checkpoint { sequence: *sequence, timestamp: 0 }).unwrap(),
        other => bincode::serialize(other).unwrap(),
    }
}

// ------------------------------------------------------------------ model

#[derive(Clone, Debug)]
struct MRec {
    seq: u64,
    entry: Vec<u8>,
    off: usize,
    len: usize,
    ckpt: bool,
}

#[derive(Clone, Debug, Default)]
struct MFile {
    /// the bytes this file must hold if everything appended to it reached the disk
    stream: Vec<u8>,
    recs: Vec<MRec>,
    /// prefix of `stream` that was handed to the OS for sure
    durable: usize,
}

#[derive(Clone, Debug, Default)]
struct Model {
    files: BTreeMap<String, MFile>,
    current: Option<String>,
    sync: bool,
    /// largest sequence number of a record in the log
    floor: u64,
    /// "same_session" | "after_clean_reopen" | "after_crash_reopen" | "after_torn_reopen"
    ctx: &'static str,
}

impl Model {
    fn push(&mut self, seq: u64, entry: Vec<u8>, ckpt: bool) {
        let Some(cur) = self.current.clone() else { return };
        let f = self.files.entry(cur).or_default();
        let enc = encode(seq, &entry);
        let off = f.stream.len();
        f.recs.push(MRec { seq, entry, off, len: enc.len(), ckpt });
        f.stream.extend_from_slice(&enc);
    }
    fn recompute_floor(&mut self) {
        self.floor = self.files.values().flat_map(|f| f.recs.iter().map(|r| r.seq)).max().unwrap_or(0);
    }
    /// records wholly inside what is on disk, in file-name order; plus the tail class
    fn visible(&self, fs: &SimFs) -> (Vec<MRec>, &'static str) {
        let mut out = Vec::new();
        let mut worst = 0;
        for (name, f) in &self.files {
            let dl = fs.read_file(Path::new(name)).map(|d| d.len()).unwrap_or(0);
            let mut end = 0usize;
            for r in &f.recs {
                // garbage between records (a torn tail an append-mode reopen wrote behind)
                if r.off > end && r.off <= dl {
                    worst = worst.max(if r.off - end < 4 { 1 } else { 2 });
                }
                if r.off + r.len <= dl {
                    out.push(r.clone());
                    end = r.off + r.len;
                }
            }
            if dl > end {
                worst = worst.max(if dl - end < 4 { 1 } else { 2 });
            }
        }
        (out, ["clean", "torn_len_prefix", "torn_body"][worst])
    }
    /// after a crash: what is on disk is what the log is
    fn truncate_to_disk(&mut self, fs: &SimFs) {
        let names: Vec<String> = self.files.keys().cloned().collect();
        for n in names {
            let disk = fs.read_file(Path::new(&n));
            let f = self.files.get_mut(&n).unwrap();
            match disk {
                None => {
                    self.files.remove(&n);
                }
                Some(d) => {
                    let dl = d.len().min(f.stream.len());
                    f.stream.truncate(dl);
                    f.recs.retain(|r| r.off + r.len <= dl);
                    f.durable = dl;
                }
            }
        }
        self.current = None;
        self.recompute_floor();
    }
}

fn wal_files(fs: &SimFs) -> Vec<String> {
    fs.files().into_iter().map(|(p, _)| p.to_string_lossy().to_string()).filter(|p| p.starts_with(DIR)).collect()
}

// ------------------------------------------------------------------ one run of (part of) a history

struct Run {
    fs: Arc<SimFs>,
    model: Model,
    vios: Vec<Violation>,
    sigs: BTreeSet<String>,
    session_ops: Vec<Vec<OpRec>>,
    steps: u64,
    probes: BTreeMap<String, u64>,
    stop: bool,
    pin: Value,
    step: usize,
    /// the injected crash fired
    fired: bool,
}

impl Run {
    fn probe(&mut self, p: &str) {
        *self.probes.entry(p.to_string()).or_insert(0) += 1;
    }
    fn violate(&mut self, sig: String, detail: String, fatal: bool) {
        if fatal {
            self.stop = true;
        }
        if !self.sigs.insert(sig.clone()) || self.vios.len() >= 8 {
            return;
        }
        let mut pin = self.pin.clone();
        pin["sig"] = json!(sig);
        self.vios.push(Violation::new(sig, detail, self.step).with_pin(pin));
    }

    /// Checkpoint records carry `chrono::Utc::now()`: zero the timestamp (and fix the XOR
    /// checksum) on disk so that every later byte-level experiment is a pure function of the
    /// case.  The writer's own checksum is verified against the real timestamp first.
    fn normalise_checkpoints(&mut self) {
        let mut bad: Vec<String> = Vec::new();
        for (name, f) in &self.model.files {
            let Some(mut d) = self.fs.read_file(Path::new(name)) else { continue };
            let mut changed = false;
            for r in f.recs.iter().filter(|r| r.ckpt) {
                let ts = r.off + 4 + 8 + 4 + 8;
                let ck = ts + 8;
                if d.len() <= ts {
                    continue;
                }
                let have_ts = d.len().min(ck) - ts;
                if d.len() >= ck + 4 {
                    let want = (xor8(&r.entry) ^ xor8(&d[ts..ck])) as u32;
                    let got = u32::from_le_bytes([d[ck], d[ck + 1], d[ck + 2], d[ck + 3]]);
                    if want != got {
                        bad.push(format!("{name}: checkpoint record seq {} stored checksum {got:#x}, XOR of its entry is {want:#x}", r.seq));
                    }
                }
                for b in &mut d[ts..ts + have_ts] {
                    if *b != 0 {
                        *b = 0;
                        changed = true;
                    }
                }
                let norm = (xor8(&r.entry) as u32).to_le_bytes();
                for j in 0..4 {
                    if ck + j < d.len() && d[ck + j] != norm[j] {
                        d[ck + j] = norm[j];
                        changed = true;
                    }
                }
            }
            if changed {
                self.fs.put_file(Path::new(name), d);
            }
        }
        for b in bad {
            self.violate("C15/append/checkpoint/stored_checksum_wrong".into(), b, true);
        }
    }

    /// `strict`: the current file (or, `all`, every file) must hold its whole stream.
    fn check_disk(&mut self, what: &str, strict_current: bool, strict_all: bool) {
        let on_disk: BTreeSet<String> = wal_files(&self.fs).into_iter().collect();
        for n in &on_disk {
            if !self.model.files.contains_key(n) {
                let sig = format!("C15/{what}/disk/unexpected_file");
                self.violate(sig, format!("file {n} exists on disk but the WAL never reported opening it"), true);
                return;
            }
        }
        let names: Vec<String> = self.model.files.keys().cloned().collect();
        for n in names {
            let f = &self.model.files[&n];
            let d = self.fs.read_file(Path::new(&n)).unwrap_or_default();
            let is_prefix = d.len() <= f.stream.len() && f.stream[..d.len()] == d[..];
            if !is_prefix {
                let at = d.iter().zip(f.stream.iter()).position(|(a, b)| a != b).unwrap_or(d.len().min(f.stream.len()));
                let sig = format!("C15/{what}/disk/bytes_differ_from_appended_records");
                self.violate(sig, format!("{n}: disk has {} bytes, expected stream {} bytes, first difference at {at}", d.len(), f.stream.len()), true);
                return;
            }
            if d.len() < f.durable {
                let sig = format!("C15/{what}/disk/flushed_bytes_missing");
                self.violate(sig, format!("{n}: {} bytes were flushed to the OS, only {} on disk", f.durable, d.len()), true);
                return;
            }
            let must_be_full = strict_all || (strict_current && self.model.current.as_deref() == Some(n.as_str()));
            if must_be_full && d.len() != f.stream.len() {
                let sig = format!("C15/{what}/disk/appended_bytes_not_written");
                self.violate(sig, format!("{n}: after {what} the disk has {} of {} appended bytes", d.len(), f.stream.len()), true);
                return;
            }
        }
    }

    fn note_opens(&mut self, ops: &[OpRec]) {
        for o in ops {
            if o.kind == "open" && o.path.ends_with(".log") {
                if self.model.files.get(&o.path).map(|f| !f.stream.is_empty()).unwrap_or(false) {
                    self.probe("append_reopened_existing_file");
                }
                self.model.files.entry(o.path.clone()).or_default();
                self.model.current = Some(o.path.clone());
            }
        }
    }

    fn handle_crash(&mut self, wal: &mut Option<Wal>) {
        // the process is dead: its objects are dropped, their flushes reach nothing
        drop(wal.take());
        self.fired = true;
        self.normalise_checkpoints();
        self.check_disk("crash", false, false);
        let lost: usize = self.model.files.iter().map(|(n, f)| f.stream.len() - self.fs.read_file(Path::new(n)).map(|d| d.len()).unwrap_or(0).min(f.stream.len())).sum();
        if lost > 0 {
            self.probe("unflushed_bytes_lost_in_crash");
        }
        self.model.truncate_to_disk(&self.fs);
        let (_, tail) = self.model.visible(&self.fs);
        match tail {
            "torn_body" => self.probe("torn_record_body_on_disk"),
            "torn_len_prefix" => self.probe("torn_len_prefix_on_disk"),
            _ => {}
        }
    }

    fn seq_check(&mut self, seq: u64, what: &str) {
        if seq <= self.model.floor {
            let sig = format!("C15/{what}/sequence_not_increasing/{}", self.model.ctx);
            let d = format!("{what} was given sequence {seq} although the log already holds a record with sequence {} ({})", self.model.floor, self.model.ctx);
            self.violate(sig, d, false);
            // re-sync with the WAL's counter so that the same restart is reported once
            self.model.floor = seq;
        }
        self.model.floor = self.model.floor.max(seq);
        self.model.ctx = "same_session";
    }

    /// replay(from) against the records wholly on disk
    fn check_replay(&mut self, wal: &Wal, from: u64) {
        let (vis, tail) = self.model.visible(&self.fs);
        let want: Vec<&MRec> = vis.iter().filter(|r| r.seq >= from).collect();
        let mut got: Vec<Vec<u8>> = Vec::new();
        let res = wal.replay(from, |e| {
            got.push(norm_entry(e));
            Ok(())
        });
        let fail = |class: &str| format!("C15/replay/{tail}/{class}");
        match res {
            Err(e) => {
                let class = match &e {
                    WalError::Io(_) => "error_io",
                    WalError::Serialization(_) => "error_serialization",
                    WalError::Corruption(_) => "error_corruption",
                    WalError::InvalidEntry(_) => "error_invalid_entry",
                };
                let d = format!("replay({from}) failed with `{e}` after returning {} of {} records; log tail: {tail}; nothing on disk is corrupted", got.len(), want.len());
                self.violate(fail(class), d, false);
            }
            Ok(last) => {
                let want_b: Vec<&Vec<u8>> = want.iter().map(|r| &r.entry).collect();
                let got_b: Vec<&Vec<u8>> = got.iter().collect();
                if want_b != got_b {
                    let class = if got_b.len() < want_b.len() && want_b[..got_b.len()] == got_b[..] {
                        "missing_records_at_end"
                    } else if got_b.len() > want_b.len() && got_b[..want_b.len()] == want_b[..] {
                        "extra_records"
                    } else {
                        let mut a = want_b.clone();
                        let mut b = got_b.clone();
                        a.sort();
                        b.sort();
                        if a == b {
                            "wrong_order"
                        } else {
                            "wrong_records"
                        }
                    };
                    let d = format!("replay({from}) returned {} records, the files hold {} complete records with sequence >= {from} (sequences {:?})", got.len(), want.len(), want.iter().map(|r| r.seq).collect::<Vec<_>>());
                    self.violate(fail(class), d, false);
                } else {
                    let want_last = want.last().map(|r| r.seq).unwrap_or(from);
                    if last != want_last {
                        self.violate(fail("wrong_last_sequence"), format!("replay({from}) returned last sequence {last}, want {want_last}"), false);
                    }
                }
            }
        }
    }
}

struct Inject {
    session: usize,
    cp: CrashPoint,
}

fn pick_from(ev: &Value, model: &Model, fs: &SimFs) -> u64 {
    let (vis, _) = model.visible(fs);
    let idx = u(ev, "i") as usize;
    match u(ev, "sel") % 5 {
        0 => 0,
        1 => 1,
        2 if !vis.is_empty() => vis[idx % vis.len()].seq,
        3 => model.floor + 1,
        4 if !vis.is_empty() => vis[idx % vis.len()].seq + 1,
        _ => 0,
    }
}

/// Runs `events` starting from the given disk and model.  `first_session` numbers the
/// sessions for crash injection.  Ends with a clean close.
fn run_from(fs: Arc<SimFs>, model: Model, events: &[Value], inject: Option<Inject>, pin: Value) -> Run {
    let mut r = Run { fs: fs.clone(), model, vios: vec![], sigs: BTreeSet::new(), session_ops: vec![], steps: 0, probes: BTreeMap::new(), stop: false, pin, step: 0, fired: false };
    fs.install();
    let mut wal: Option<Wal> = None;
    let mut dead = false;
    let mut session = 0usize;

    // opens a session; returns false when the run must stop
    fn open_session(r: &mut Run, wal: &mut Option<Wal>, dead: &mut bool, session: usize, inject: &Option<Inject>) {
        r.fs.reset_ops();
        if let Some(i) = inject {
            if i.session == session {
                r.fs.set_crash(Some(i.cp));
            }
        }
        r.model.current = None;
        r.model.sync = false;
        match run_process(|| Wal::new(DIR)) {
            Ok(Ok(w)) => *wal = Some(w),
            Ok(Err(e)) => {
                let (_, tail) = r.model.visible(&r.fs);
                r.violate(format!("C15/reopen/{tail}/error"), format!("Wal::new failed: {e}"), true);
            }
            Err(()) => {
                *dead = true;
                r.handle_crash(wal);
            }
        }
    }

    if r.model.ctx.is_empty() {
        r.model.ctx = "same_session";
    }
    open_session(&mut r, &mut wal, &mut dead, session, &inject);

    let end = json!({"op":"end"});
    let n = events.len();
    for (step, ev) in events.iter().chain(std::iter::once(&end)).enumerate() {
        if r.stop {
            break;
        }
        r.step = step;
        let kind = op(ev);
        if kind == "reopen" || kind == "crash" || kind == "end" {
            let mut crashed_here = dead;
            if !dead {
                if kind == "crash" {
                    r.fs.kill();
                    crashed_here = true;
                    r.handle_crash(&mut wal);
                } else {
                    // clean close: BufWriter flushes on drop
                    let w = wal.take();
                    match run_process(move || drop(w)) {
                        Ok(()) => {
                            for f in r.model.files.values_mut() {
                                f.durable = f.stream.len();
                            }
                            r.check_disk("close", false, true);
                        }
                        Err(()) => {
                            crashed_here = true;
                            r.handle_crash(&mut wal);
                        }
                    }
                }
            }
            r.session_ops.push(r.fs.ops());
            r.fs.set_crash(None);
            r.fs.reboot(Reboot::ProcessCrash, &[]);
            r.steps += 1;
            if step >= n || r.stop {
                break;
            }
            session += 1;
            dead = false;
            r.model.ctx = if crashed_here { "after_crash_reopen" } else { "after_clean_reopen" };
            if r.model.files.values().last().map(|f| f.recs.len() >= 2).unwrap_or(false) {
                r.probe("reopen_with_multi_record_newest_file");
            }
            open_session(&mut r, &mut wal, &mut dead, session, &inject);
            continue;
        }
        if dead {
            continue;
        }
        let Some(w) = wal.as_mut() else { break };
        r.steps += 1;
        match kind {
            "append" | "checkpoint" => {
                let ckpt = kind == "checkpoint";
                let pred = w.current_sequence() + 1;
                let arg = u(ev, "arg");
                let entry = if ckpt { WalEntry::Checkpoint { sequence: arg, timestamp: 0 } } else { make_entry(ev) };
                let eb = norm_entry(&entry);
                let before = r.fs.op_count() as usize;
                let res: Result<Result<u64, WalError>, ()> = run_process(|| {
                    if ckpt {
                        w.checkpoint(arg).map(|_| w.current_sequence())
                    } else {
                        w.append(entry)
                    }
                });
                let ops = r.fs.ops();
                r.note_opens(&ops[before.min(ops.len())..]);
                let had_file = r.model.current.is_some();
                r.model.push(pred, eb, ckpt);
                if ckpt {
                    r.normalise_checkpoints();
                }
                match res {
                    Ok(Ok(seq)) => {
                        if !had_file {
                            r.violate(format!("C15/{kind}/no_file_opened"), "returned Ok without ever opening a log file".into(), true);
                            continue;
                        }
                        if seq != pred {
                            r.violate(format!("C15/{kind}/returned_sequence_differs_from_counter"), format!("returned {seq}, counter said {pred}"), true);
                            continue;
                        }
                        r.seq_check(seq, kind);
                        let cur = r.model.current.clone().unwrap();
                        if ckpt || r.model.sync {
                            let f = r.model.files.get_mut(&cur).unwrap();
                            f.durable = f.stream.len();
                            r.check_disk(if ckpt { "checkpoint" } else { "sync_append" }, true, false);
                        } else {
                            r.check_disk("append", false, false);
                        }
                        if ckpt {
                            r.model.current = None;
                        }
                        if r.model.files.len() >= 2 {
                            r.probe("multi_file_log");
                        }
                    }
                    Ok(Err(e)) => r.violate(format!("C15/{kind}/error"), format!("{kind} failed on a healthy disk: {e}"), true),
                    Err(()) => {
                        dead = true;
                        r.handle_crash(&mut wal);
                    }
                }
            }
            "flush" => match run_process(|| w.flush()) {
                Ok(Ok(())) => {
                    if let Some(cur) = r.model.current.clone() {
                        let f = r.model.files.get_mut(&cur).unwrap();
                        f.durable = f.stream.len();
                    }
                    r.check_disk("flush", true, false);
                }
                Ok(Err(e)) => r.violate("C15/flush/error".into(), format!("flush failed on a healthy disk: {e}"), true),
                Err(()) => {
                    dead = true;
                    r.handle_crash(&mut wal);
                }
            },
            "sync" => {
                let b = ev["on"].as_bool().unwrap_or(false);
                w.set_sync_mode(b);
                r.model.sync = b;
            }
            "replay" => {
                let from = pick_from(ev, &r.model, &r.fs);
                let w2: &Wal = w;
                let res = run_process(|| r.check_replay(w2, from));
                if res.is_err() {
                    dead = true;
                    r.handle_crash(&mut wal);
                }
            }
            _ => {}
        }
    }
    drop(wal.take());
    SimFs::uninstall();
    r
}

/// After the history: a fresh process replays from several positions.
fn final_events(model: &Model) -> Vec<Value> {
    let _ = model;
    vec![json!({"op":"replay","sel":0,"i":0}), json!({"op":"replay","sel":2,"i":1}), json!({"op":"replay","sel":4,"i":0}), json!({"op":"replay","sel":3,"i":0})]
}

fn merge(o: &mut Outcome, r: &Run) {
    o.steps += r.steps;
    for (k, v) in &r.probes {
        o.probe_n(k, *v);
    }
    for (k, v) in r.fs.faults_fired() {
        *o.faults.entry(k).or_insert(0) += v;
    }
}

// ------------------------------------------------------------------ flip experiment

fn field_of(f: &MFile, i: usize) -> &'static str {
    for r in &f.recs {
        if i >= r.off && i < r.off + r.len {
            let rel = i - r.off;
            return if rel < 4 {
                "len_prefix"
            } else if rel < 12 {
                "sequence"
            } else if rel < r.len - 4 {
                "entry"
            } else {
                "checksum"
            };
        }
    }
    "torn_tail"
}

/// the largest buffer the reader's framing (`len`, then `len` bytes) would allocate
fn predicted_alloc(bytes: &[u8]) -> usize {
    let mut pos = 0usize;
    let mut worst = 0usize;
    while pos + 4 <= bytes.len() {
        let len = u32::from_le_bytes([bytes[pos], bytes[pos + 1], bytes[pos + 2], bytes[pos + 3]]) as usize;
        worst = worst.max(len);
        if len > bytes.len() - pos - 4 {
            break;
        }
        pos += 4 + len;
    }
    worst
}

struct FlipCtx<'a> {
    base: &'a Run,
    vis: Vec<MRec>,
    /// (seq, off) of a visible record -> its file
    vis_file: BTreeMap<(u64, usize), String>,
    mid: u64,
    mask: u8,
}

/// returns (violations, probes)
fn flip_one(c: &FlipCtx, file: &str, i: usize, out: &mut Run) {
    let f = &c.base.model.files[file];
    let Some(mut bytes) = c.base.fs.read_file(Path::new(file)) else { return };
    if i >= bytes.len() {
        return;
    }
    let field = field_of(f, i);
    // the top byte of a length prefix: keep the garbage length below 32 MiB
    let rel_in_len = f.recs.iter().find(|r| i >= r.off && i < r.off + 4).map(|r| i - r.off);
    let mask = match rel_in_len {
        Some(3) => 0x01,
        Some(2) => (c.mask & 0x1f).max(1),
        _ => c.mask,
    };
    bytes[i] ^= mask;
    if predicted_alloc(&bytes) > MAX_ALLOC {
        out.probe("flip_skipped_huge_alloc");
        return;
    }
    let fs = c.base.fs.fork();
    fs.put_file(Path::new(file), bytes);
    fs.install();
    out.probe(&format!("flip_in_{field}"));
    let wal = match Wal::new(DIR) {
        Ok(w) => w,
        Err(_) => {
            out.probe("flip_reported_at_open");
            SimFs::uninstall();
            return;
        }
    };
    // index of the damaged record within its file (recs.len() = the torn tail behind them)
    let k = f.recs.iter().position(|r| i < r.off + r.len).unwrap_or(f.recs.len());
    let relaxed = field == "len_prefix" || field == "torn_tail";
    for from in [0u64, c.mid] {
        let want: Vec<&MRec> = c.vis.iter().filter(|r| r.seq >= from).collect();
        // relaxation R1: a length prefix damaged so that it points past the end of the file
        // cannot be told from a torn tail in this format, and a torn tail ends *that file*:
        // the records of the file from the damaged one on may be missing (all of them, and
        // only them); everything else must be there
        let mut candidates: Vec<Vec<&MRec>> = vec![want.clone()];
        if relaxed {
            let dropped: Vec<usize> = f.recs[k.min(f.recs.len())..].iter().map(|r| r.off).collect();
            let cand: Vec<&MRec> = c.vis.iter().filter(|r| r.seq >= from && !(c.vis_file[&(r.seq, r.off)] == file && dropped.contains(&r.off))).collect();
            candidates.push(cand);
        }
        let mut got: Vec<Vec<u8>> = Vec::new();
        let res = wal.replay(from, |e| {
            got.push(norm_entry(e));
            Ok(())
        });
        let eq = |cand: &Vec<&MRec>| got.len() == cand.len() && got.iter().zip(cand.iter()).all(|(g, w)| *g == w.entry);
        let prefix = |cand: &Vec<&MRec>| got.len() <= cand.len() && got.iter().zip(cand.iter()).all(|(g, w)| *g == w.entry);
        let sig = |class: &str| if field == "sequence" { "C15/flip/sequence/undetected_wrong_result".to_string() } else { format!("C15/flip/{field}/{class}") };
        let ctx = format!("byte {i} of {file} (in the {field} of record #{k} of that file) XOR {mask:#04x}; replay({from})");
        match res {
            Err(_) => {
                if candidates.iter().any(|c| prefix(c)) {
                    out.probe("flip_reported");
                } else {
                    out.violate(sig("records_altered_or_skipped"), format!("{ctx} -> Err, but the {} records handed to the callback before the error are not a prefix of the {} the intact log returns", got.len(), want.len()), false);
                }
            }
            Ok(last) => {
                if eq(&candidates[0]) {
                    let want_last = want.last().map(|r| r.seq).unwrap_or(from);
                    if last != want_last {
                        out.violate(sig("wrong_last_sequence"), format!("{ctx} -> Ok, all records, but last sequence {last} instead of {want_last}"), false);
                    } else {
                        out.probe("flip_unnoticed_same_result");
                    }
                } else if candidates[1..].iter().any(|c| eq(c)) {
                    out.probe("flip_in_len_prefix_looks_torn");
                } else {
                    let idx: Vec<String> = got.iter().map(|g| want.iter().position(|w| w.entry == *g).map(|p| format!("#{p}")).unwrap_or_else(|| "ALTERED".into())).collect();
                    let altered = idx.iter().any(|x| x == "ALTERED");
                    let class = if altered {
                        "records_altered"
                    } else if got.len() < want.len() {
                        "records_silently_skipped"
                    } else {
                        "extra_or_reordered_records"
                    };
                    let d = format!("{ctx} -> Ok with {} records [{}] (positions in the intact result) instead of the {} the intact log returns, and no error", got.len(), idx.join(","), want.len());
                    out.violate(sig(class), d, false);
                }
            }
        }
    }
    drop(wal);
    SimFs::uninstall();
}

// ------------------------------------------------------------------ scenario

fn gen_event(r: &mut Rng, allow_big: bool) -> Value {
    match r.weighted(&[10, 3, 1, 2, 2, 2, 2]) {
        0 => {
            let n = if allow_big && r.chance(1, 12) { [3000u64, 5000, 9000][r.usize_below(3)] } else { r.below(7) };
            json!({"op":"append","k":r.below(6),"id":r.below(5),"n":n,"fill":r.below(256),"l":r.below(3),"v":r.below(4)})
        }
        1 => json!({"op":"flush"}),
        2 => json!({"op":"sync","on":r.chance(1,2)}),
        3 => json!({"op":"checkpoint","arg":r.below(6)}),
        4 => json!({"op":"reopen"}),
        5 => json!({"op":"crash"}),
        _ => json!({"op":"replay","sel":r.below(5),"i":r.below(16)}),
    }
}

fn samples(case: &Case) -> Vec<u64> {
    case.knobs.get("torn_samples").and_then(|v| v.as_array()).map(|a| a.iter().filter_map(|x| x.as_u64()).collect()).unwrap_or_default()
}

impl Scenario for C15 {
    fn id(&self) -> &'static str {
        "C15"
    }
    fn level(&self) -> &'static str {
        "fault_enumeration"
    }
    fn runs(&self, tier: Tier) -> u64 {
        match tier {
            Tier::Quick => 1_600,
            Tier::Thorough => 80_000,
        }
    }
    fn rule(&self) -> &'static str {
        "history = PRNG-generated list (3..26 events) of append(6 entry kinds, payload 0..6 bytes, rarely 3-9 KB)/flush/set_sync_mode/checkpoint/replay(from) split into sessions by reopen (clean) and crash (kill between calls); every case is executed fault-free, then once per crash point (before every FS call and at every torn offset of every write, per session), then with the newest log file truncated at every byte, then with every byte of every log file XORed with the case's mask. Non-trivial = at least 2 records on disk at the end and at least one reopen/crash boundary. Distinct = hash of the sequence of (event kind, entry kind, payload size)."
    }
    fn real_components(&self) -> Vec<&'static str> {
        vec!["samyama::persistence::wal::Wal (new, append, flush, set_sync_mode, checkpoint, replay, find_latest_sequence, get_wal_files)", "std::io::BufWriter/BufReader over the verif fs facade", "bincode record encoding"]
    }
    fn stub_components(&self) -> Vec<&'static str> {
        vec!["file system: kit::simfs::SimFs behind samyama::verif::fs (process-crash model: bytes handed to write() survive, BufWriter contents do not)"]
    }
    fn assumptions(&self) -> Vec<&'static str> {
        vec![
            "durable = handed to the OS by a completed write(): the WAL never fsyncs, so power loss is not modelled for C15",
            "the reference encoder (u32 len | u64 seq | bincode(entry) | u32 xor) is the format of this commit; the model compares bytes on disk with it",
            "the wall-clock timestamp inside checkpoint records is zeroed on the simulated disk (checksum re-derived) right after it is written",
            "flip relaxation R1: a flipped byte inside a length prefix may make the record look like a torn tail (Ok with a shorter prefix) — not judged; every other field must give Err or the intact result",
            "flips whose garbage length would make the reader allocate > 20 MiB are skipped (harness protection), the top byte of a length prefix is flipped with mask 0x01 only",
        ]
    }
    fn required_probes(&self, _tier: Tier) -> Vec<&'static str> {
        vec!["torn_record_body_on_disk", "torn_len_prefix_on_disk", "unflushed_bytes_lost_in_crash", "multi_file_log", "reopen_with_multi_record_newest_file", "flip_in_sequence", "flip_in_entry", "flip_in_checksum", "flip_in_len_prefix", "trunc_inside_body", "trunc_inside_len_prefix"]
    }
    fn generate(&self, s: &mut Streams, _run_index: u64, tier: Tier) -> Case {
        let mut case = Case::new("C15");
        let n = s.knobs.short_len(3, 26);
        let allow_big = s.knobs.chance(1, 10);
        let mask = match s.knobs.below(6) {
            0 => 0x01,
            1 => 0x80,
            2 => 0xFF,
            3 => 0x10,
            _ => 1 + s.knobs.below(255),
        };
        case.knobs.insert("flip_mask".into(), json!(mask));
        case.knobs.insert("torn_samples".into(), json!((0..24).map(|_| s.fault.next_u64() >> 1).collect::<Vec<_>>()));
        case.knobs.insert("max_enum_write".into(), json!(if tier == Tier::Quick { 400 } else { 1200 }));
        case.knobs.insert("max_positions".into(), json!(if tier == Tier::Quick { 700 } else { 3000 }));
        for _ in 0..n {
            case.events.push(gen_event(&mut s.workload, allow_big));
        }
        case
    }
    fn shrink_event(&self, ev: &Value) -> Vec<Value> {
        match op(ev) {
            "append" => vec![json!({"op":"append","k":2,"id":1,"n":0,"fill":0,"l":0,"v":0}), {
                let mut e = ev.clone();
                e["n"] = json!(0);
                e
            }],
            "checkpoint" => vec![json!({"op":"append","k":2,"id":1,"n":0,"fill":0,"l":0,"v":0})],
            "crash" => vec![json!({"op":"reopen"})],
            "replay" => vec![json!({"op":"replay","sel":0,"i":0})],
            _ => vec![],
        }
    }
    fn execute(&self, case: &Case) -> Outcome {
        let mut o = Outcome::new();
        o.evaluations = 0;
        let pin = case.pin().cloned();
        let phase = pin.as_ref().map(|p| s(p, "phase").to_string());
        let want_sig = pin.as_ref().map(|p| s(p, "sig").to_string()).unwrap_or_default();
        let smp = samples(case);
        let max_enum_write = case.knob_u64("max_enum_write", 400) as usize;
        let max_positions = case.knob_u64("max_positions", 700) as usize;
        let mask = (case.knob_u64("flip_mask", 1) & 0xff).max(1) as u8;

        // the history followed by the final replays of a fresh process
        let mut events = case.events.clone();
        events.push(json!({"op":"reopen"}));
        events.extend(final_events(&Model::default()));

        // ---- base
        let base = run_from(SimFs::new(), Model::default(), &events, None, json!({"phase":"base"}));
        o.evaluations += 1;
        merge(&mut o, &base);
        let run_phase = |p: &str| phase.is_none() || phase.as_deref() == Some(p);
        if run_phase("base") {
            for v in &base.vios {
                o.violate(v.clone());
            }
        }
        let (vis, _) = base.model.visible(&base.fs);
        let boundaries = case.events.iter().filter(|e| matches!(op(e), "reopen" | "crash")).count();
        o.nontrivial = vis.len() >= 2 && boundaries >= 1;
        let mut sig_parts = Vec::new();
        for e in &case.events {
            sig_parts.push(format!("{}{}:{}", op(e), if op(e) == "append" { u(e, "k") % 6 } else { 0 }, u(e, "n")));
        }
        o.class_key = hash_str(&sig_parts.join(","));
        let mut disk_desc = String::new();
        for n in wal_files(&base.fs) {
            disk_desc.push_str(&format!("{n}={:016x};", crate::kit::rng::fnv1a(&base.fs.read_file(Path::new(&n)).unwrap_or_default())));
        }
        o.state_hash = hash_str(&disk_desc);
        if base.stop {
            // the fault-free run already diverged: nothing sensible to enumerate
            return o;
        }

        // ---- crash enumeration (sessions of the generated history only, not the final replays)
        if run_phase("crash") {
            let n_sessions = boundaries + 1;
            let try_one = |o: &mut Outcome, session: usize, cp: CrashPoint, ops: &[OpRec]| -> Vec<Violation> {
                let pin = json!({"phase":"crash","session":session,"op":cp.op,"partial":cp.partial});
                let r = run_from(SimFs::new(), Model::default(), &events, Some(Inject { session, cp }), pin);
                o.evaluations += 1;
                merge(o, &r);
                let mut vs = r.vios;
                for v in &mut vs {
                    v.detail = format!("crash in session {session} {}: {}", describe(ops, &cp), v.detail);
                }
                vs
            };
            let mut done = false;
            if let Some(p) = pin.as_ref().filter(|_| phase.as_deref() == Some("crash")) {
                let session = u(p, "session") as usize;
                let cp = CrashPoint { op: u(p, "op"), partial: p.get("partial").and_then(|x| x.as_u64()).map(|x| x as usize) };
                if session < base.session_ops.len() {
                    let vs = try_one(&mut o, session, cp, &base.session_ops[session]);
                    if vs.iter().any(|v| v.signature == want_sig) {
                        for v in vs {
                            o.violate(v);
                        }
                        done = true;
                    }
                }
            }
            if !done {
                let mut seen: BTreeSet<String> = o.violations.iter().map(|v| v.signature.clone()).collect();
                for session in 0..n_sessions.min(base.session_ops.len()) {
                    let ops = &base.session_ops[session];
                    let mut pts = crash_points(ops, max_enum_write, &smp);
                    if pts.len() > max_positions {
                        // keep every "before op" point, thin the torn offsets evenly
                        let stride = (pts.len() + max_positions - 1) / max_positions;
                        pts = pts.into_iter().enumerate().filter(|(i, p)| p.partial.is_none() || i % stride == 0).map(|(_, p)| p).collect();
                    }
                    for cp in pts {
                        for v in try_one(&mut o, session, cp, ops) {
                            if seen.insert(v.signature.clone()) {
                                o.violate(v);
                            }
                        }
                    }
                }
            }
        }

        // ---- truncation of the newest file at every byte, then reopen / replay / append / replay
        let files = wal_files(&base.fs);
        if run_phase("trunc") {
            if let Some(newest) = files.last() {
                let bytes = base.fs.read_file(Path::new(newest)).unwrap_or_default();
                let tail_events = vec![
                    json!({"op":"replay","sel":0,"i":0}),
                    json!({"op":"replay","sel":2,"i":1}),
                    json!({"op":"append","k":2,"id":9,"n":0,"fill":0,"l":0,"v":0}),
                    json!({"op":"flush"}),
                    json!({"op":"replay","sel":0,"i":0}),
                    json!({"op":"reopen"}),
                    json!({"op":"replay","sel":0,"i":0}),
                ];
                let try_one = |o: &mut Outcome, b: usize| -> Vec<Violation> {
                    let fs = base.fs.fork();
                    fs.put_file(Path::new(newest), bytes[..b].to_vec());
                    let mut m = base.model.clone();
                    m.truncate_to_disk(&fs);
                    m.ctx = "after_torn_reopen";
                    let (_, tail) = m.visible(&fs);
                    match tail {
                        "torn_body" => o.probe("trunc_inside_body"),
                        "torn_len_prefix" => o.probe("trunc_inside_len_prefix"),
                        _ => o.probe("trunc_at_record_boundary"),
                    }
                    let r = run_from(fs, m, &tail_events, None, json!({"phase":"trunc","at":b}));
                    o.evaluations += 1;
                    merge(o, &r);
                    let mut vs = r.vios;
                    for v in &mut vs {
                        v.detail = format!("newest file {newest} ({} bytes) truncated to {b} bytes, then reopened: {}", bytes.len(), v.detail);
                    }
                    vs
                };
                let mut done = false;
                if let Some(p) = pin.as_ref().filter(|_| phase.as_deref() == Some("trunc")) {
                    let b = u(p, "at") as usize;
                    if b < bytes.len() {
                        let vs = try_one(&mut o, b);
                        if vs.iter().any(|v| v.signature == want_sig) {
                            for v in vs {
                                o.violate(v);
                            }
                            done = true;
                        }
                    }
                }
                if !done {
                    let mut offs: Vec<usize> = if bytes.len() <= max_positions * 2 {
                        (0..bytes.len()).collect()
                    } else {
                        let mut set: BTreeSet<usize> = BTreeSet::new();
                        if let Some(f) = base.model.files.get(newest) {
                            for r in &f.recs {
                                for d in [0usize, 1, 3, 4, 5, 12, 13] {
                                    set.insert((r.off + d).min(bytes.len() - 1));
                                }
                                set.insert((r.off + r.len).saturating_sub(1).min(bytes.len() - 1));
                            }
                        }
                        for s in &smp {
                            set.insert((*s % bytes.len() as u64) as usize);
                        }
                        set.into_iter().collect()
                    };
                    offs.dedup();
                    let mut seen: BTreeSet<String> = o.violations.iter().map(|v| v.signature.clone()).collect();
                    for b in offs {
                        for v in try_one(&mut o, b) {
                            if seen.insert(v.signature.clone()) {
                                o.violate(v);
                            }
                        }
                    }
                }
            }
        }

        // ---- flips
        if run_phase("flip") && !vis.is_empty() {
            let mut vis_file = BTreeMap::new();
            for (name, mf) in &base.model.files {
                for r in &mf.recs {
                    vis_file.insert((r.seq, r.off), name.clone());
                }
            }
            let ctx = FlipCtx { base: &base, vis: vis.clone(), vis_file, mid: vis[vis.len() / 2].seq, mask };
            let mut positions: Vec<(String, usize)> = Vec::new();
            let total: usize = files.iter().map(|f| base.fs.read_file(Path::new(f)).map(|d| d.len()).unwrap_or(0)).sum();
            for f in &files {
                let len = base.fs.read_file(Path::new(f)).map(|d| d.len()).unwrap_or(0);
                if total <= max_positions * 2 {
                    positions.extend((0..len).map(|i| (f.clone(), i)));
                } else if len > 0 {
                    let mut set: BTreeSet<usize> = BTreeSet::new();
                    if let Some(mf) = base.model.files.get(f) {
                        for r in mf.recs.iter() {
                            if r.len <= 96 {
                                set.extend(r.off..r.off + r.len);
                            } else {
                                set.extend(r.off..r.off + 40);
                                set.extend(r.off + r.len - 8..r.off + r.len);
                            }
                        }
                    }
                    for s in &smp {
                        set.insert((*s % len as u64) as usize);
                    }
                    let mut v: Vec<usize> = set.into_iter().filter(|i| *i < len).collect();
                    if v.len() > max_positions {
                        let stride = (v.len() + max_positions - 1) / max_positions;
                        v = v.into_iter().step_by(stride).collect();
                    }
                    positions.extend(v.into_iter().map(|i| (f.clone(), i)));
                }
            }
            let mut scratch = Run { fs: base.fs.clone(), model: Model::default(), vios: vec![], sigs: BTreeSet::new(), session_ops: vec![], steps: 0, probes: BTreeMap::new(), stop: false, pin: json!({"phase":"flip"}), step: case.events.len(), fired: false };
            let mut done = false;
            if let Some(p) = pin.as_ref().filter(|_| phase.as_deref() == Some("flip")) {
                let file = s(p, "file").to_string();
                if base.model.files.contains_key(&file) {
                    scratch.pin = json!({"phase":"flip","file":file,"at":u(p,"at")});
                    flip_one(&ctx, &file, u(p, "at") as usize, &mut scratch);
                    o.evaluations += 1;
                    if scratch.vios.iter().any(|v| v.signature == want_sig) {
                        done = true;
                    } else {
                        scratch.vios.clear();
                        scratch.sigs.clear();
                    }
                }
            }
            if !done {
                for (f, i) in positions {
                    scratch.pin = json!({"phase":"flip","file":f,"at":i});
                    flip_one(&ctx, &f, i, &mut scratch);
                    o.evaluations += 1;
                }
            }
            for (k, v) in &scratch.probes {
                o.probe_n(k, *v);
            }
            o.steps += scratch.probes.values().sum::<u64>();
            let seen: BTreeSet<String> = o.violations.iter().map(|v| v.signature.clone()).collect();
            for v in scratch.vios {
                if !seen.contains(&v.signature) {
                    o.violate(v);
                }
            }
        }
        SimFs::uninstall();
        o
    }
}
