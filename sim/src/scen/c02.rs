//! C02 — results do not depend on indexes, storage tier, planner mode, parallel-filter
//! threshold or process (hash seed).
//!
//! Sim: ONE generated graph history (Cypher writes through `QueryEngine::execute_mut` and
//! direct store API calls: creates, deletes, property and label changes, enough deletes for
//! id reuse) is *played* into several stores that differ only in scheduled maintenance:
//!
//! | store  | maintenance events it obeys                                   |
//! |--------|---------------------------------------------------------------|
//! | `base` | none (no index, never compacted)                              |
//! | `idx`  | `CREATE INDEX` / `DROP INDEX` at PRNG-chosen points           |
//! | `cmp`  | `compact_adjacency()` at PRNG-chosen points                   |
//! | `asy`  | `GraphStore::with_async_indexing()`, `CREATE INDEX`, and `drain` events that poll the real `start_background_indexer` future (always drained before a query) |
//! | `mix`  | index + compaction together                                   |
//! | `hs2`, `hs2mix` | `base` / `mix` replayed on a fresh thread after re-seeding the getrandom shim: another std `RandomState`, i.e. "another process" |
//!
//! Every read query is executed on every store in up to four planner/filter modes
//! (legacy|graph-native × sequential|parallel-forced, via the two environment variables the
//! engine reads at execution time).  Oracle: differential against `base` in legacy/sequential
//! mode — equal bags of rows (exact sequence under a total ORDER BY), equal columns.  A
//! refusal on one side only is counted (probe), not alarmed.

use crate::kit::core::*;
use crate::kit::dump::{dump, rows_canon, Dump};
use crate::kit::exec::Tasks;
use crate::kit::model::*;
use crate::kit::rng::{Rng, Streams};
use samyama::graph::{EdgeId, GraphStore, Label, NodeId, PropertyMap, PropertyValue};
use samyama::query::QueryEngine;
use serde_json::{json, Value};
use std::collections::{BTreeMap, BTreeSet};
use std::sync::Arc;

pub struct C02;

const LABELS: [&str; 2] = ["A", "B"];
const TYPES: [&str; 2] = ["T", "U"];
const SEQ_COST: &str = "1000000000";

// ------------------------------------------------------------------------------------
// values

fn gen_v(r: &mut Rng) -> Value {
    match r.below(24) {
        0..=3 => json!({"i": 1}),
        4..=6 => jf(1.0),
        7 | 8 => json!({"i": 0}),
        9 => jf(0.0),
        10 => jf(-0.0),
        11 | 12 => json!({"i": 2}),
        13 => jf(2.0),
        14 => jf(2.5),
        15 => json!({"i": -1}),
        16 => jf(-1.0),
        17 => json!({"i": 9007199254740992i64}),
        18 => json!({"i": 9007199254740993i64}),
        19 => jf(9007199254740992.0),
        20 => json!({"i": 3}),
        21 => {
            let x = ["a", "1", "true"][r.usize_below(3)];
            json!({"s": x})
        }
        22 => json!({"b": r.chance(1, 2)}),
        _ => json!({"i": r.range(-2, 4)}),
    }
}

fn gen_s(r: &mut Rng) -> Value {
    let x = ["a", "b", "ab", "", "true"][r.usize_below(5)];
    json!({"s": x})
}

/// Cypher literal for a value (only the variants the generators produce).
fn lit(v: &PropertyValue) -> String {
    match v {
        PropertyValue::Integer(i) => format!("{i}"),
        PropertyValue::Float(f) => format!("{f:?}"),
        PropertyValue::String(s) => format!("'{s}'"),
        PropertyValue::Boolean(b) => format!("{b}"),
        _ => "null".to_string(),
    }
}

fn type_name(v: &PropertyValue) -> &'static str {
    match v {
        PropertyValue::Integer(_) => "int",
        PropertyValue::Float(_) => "float",
        PropertyValue::String(_) => "string",
        PropertyValue::Boolean(_) => "bool",
        PropertyValue::Null => "null",
        _ => "other",
    }
}

// ------------------------------------------------------------------------------------
// history generator

fn gen_hist(r: &mut Rng, next_k: &mut i64, next_e: &mut i64) -> Value {
    let via = if r.chance(1, 2) { "cy" } else { "api" };
    match r.weighted(&[18, 20, 7, 7, 12, 5, 5, 5, 3]) {
        0 => {
            *next_k += 1;
            let labels: Vec<u64> = match r.below(8) {
                0 => vec![],
                1..=3 => vec![0],
                4 | 5 => vec![1],
                _ => vec![0, 1],
            };
            let mut ev = json!({"op":"node","via":via,"labels":labels,"k":*next_k});
            if r.chance(5, 6) {
                ev["v"] = gen_v(r);
            }
            if r.chance(1, 2) {
                ev["s"] = gen_s(r);
            }
            ev
        }
        1 => {
            *next_e += 1;
            json!({"op":"edge","via":via,"a":r.below(64),"b":r.below(64),"t":r.below(2),"e":*next_e,"w":r.below(3)})
        }
        2 => json!({"op":"del_edge","via":via,"x":r.below(64)}),
        3 => json!({"op":"del_node","via":via,"x":r.below(64)}),
        4 => json!({"op":"set","via":via,"x":r.below(64),"key":"v","val":gen_v(r)}),
        5 => json!({"op":"set","via":via,"x":r.below(64),"key":"s","val":gen_s(r)}),
        6 => json!({"op":"unset","via":if r.chance(1, 3) { "cynull" } else { via },"x":r.below(64),"key":if r.chance(3, 4) { "v" } else { "s" }}),
        7 => json!({"op":"label+","via":via,"x":r.below(64),"l":r.below(2)}),
        _ => json!({"op":"label-","via":via,"x":r.below(64),"l":r.below(2)}),
    }
}

// ------------------------------------------------------------------------------------
// query generator

struct QGen {
    text: String,
    diag: Option<String>,
    shape: String,
    ordered: bool,
    kcol: usize,
    anchor: Value,
    pat: Option<Value>,
    /// for aggregating pattern shapes: the same MATCH returning its rows
    prows: Option<String>,
}

fn gen_pred(r: &mut Rng, var: &str) -> (String, Value, Option<String>) {
    // returns (WHERE text or "", anchor description, inline-property text)
    let vlit = |r: &mut Rng| pv_from_json(&gen_v(r));
    match r.weighted(&[3, 10, 2, 10, 3, 4, 5, 3, 2, 2, 1, 2, 1]) {
        0 => (String::new(), json!({"op":"none"}), None),
        1 => {
            let l = vlit(r);
            (format!("{var}.v = {}", lit(&l)), json!({"op":"eq","prop":"v","lit":type_name(&l)}), None)
        }
        2 => {
            let l = vlit(r);
            (format!("{} = {var}.v", lit(&l)), json!({"op":"eq","prop":"v","lit":type_name(&l)}), None)
        }
        3 => {
            let l = vlit(r);
            let (o, name) = [(">", "gt"), (">=", "ge"), ("<", "lt"), ("<=", "le")][r.usize_below(4)];
            (format!("{var}.v {o} {}", lit(&l)), json!({"op":name,"prop":"v","lit":type_name(&l)}), None)
        }
        4 => {
            let l = vlit(r);
            let (o, name) = [(">", "lt"), (">=", "le"), ("<", "gt"), ("<=", "ge")][r.usize_below(4)];
            (format!("{} {o} {var}.v", lit(&l)), json!({"op":name,"prop":"v","lit":type_name(&l)}), None)
        }
        5 => {
            let (a, b) = (vlit(r), vlit(r));
            (format!("{var}.v >= {} AND {var}.v < {}", lit(&a), lit(&b)), json!({"op":"between","prop":"v","lit":format!("{}+{}", type_name(&a), type_name(&b))}), None)
        }
        6 => {
            let n = 1 + r.usize_below(3);
            let xs: Vec<PropertyValue> = (0..n).map(|_| vlit(r)).collect();
            let mut ts: Vec<&str> = xs.iter().map(type_name).collect();
            ts.sort();
            ts.dedup();
            (format!("{var}.v IN [{}]", xs.iter().map(lit).collect::<Vec<_>>().join(", ")), json!({"op":"in","prop":"v","lit":ts.join("+")}), None)
        }
        7 => {
            let l = vlit(r);
            (String::new(), json!({"op":"inline","prop":"v","lit":type_name(&l)}), Some(format!("{{v: {}}}", lit(&l))))
        }
        8 => {
            let l = pv_from_json(&gen_s(r));
            (format!("{var}.s = {}", lit(&l)), json!({"op":"eq","prop":"s","lit":"string"}), None)
        }
        9 => {
            let k = r.range(1, 12);
            (format!("{var}.k = {k}"), json!({"op":"eq","prop":"k","lit":"int"}), None)
        }
        10 => {
            let (a, b) = (vlit(r), vlit(r));
            (format!("({var}.v = {} OR {var}.v = {})", lit(&a), lit(&b)), json!({"op":"or","prop":"v","lit":"mixed"}), None)
        }
        11 => {
            let l = vlit(r);
            (format!("{var}.v <> {}", lit(&l)), json!({"op":"ne","prop":"v","lit":type_name(&l)}), None)
        }
        _ => {
            let t = if r.chance(1, 2) { "IS NULL" } else { "IS NOT NULL" };
            (format!("{var}.v {t}"), json!({"op":"nullcheck","prop":"v","lit":"none"}), None)
        }
    }
}

fn gen_query(r: &mut Rng) -> QGen {
    let l = LABELS[r.usize_below(2)];
    let shape_i = r.weighted(&[14, 4, 3, 3, 5, 12, 5, 4, 4, 3, 3, 3]);
    // predicate on the anchor variable
    let on_m = shape_i == 5 && r.chance(1, 4);
    let avar = if on_m { "m" } else { "n" };
    let (w, mut anchor, inline) = gen_pred(r, avar);
    let n_inline = if !on_m { inline.clone().map(|s| format!(" {s}")).unwrap_or_default() } else { String::new() };
    let m_inline = if on_m { inline.clone().map(|s| format!(" {s}")).unwrap_or_default() } else { String::new() };
    let wh = if w.is_empty() { String::new() } else { format!(" WHERE {w}") };
    let npat = format!("(n:{l}{n_inline})");
    let ty = if r.chance(2, 3) { format!(":{}", TYPES[r.usize_below(2)]) } else { String::new() };
    let (la, ra) = match r.below(6) {
        0..=2 => ("-", "->"),
        3 | 4 => ("<-", "-"),
        _ => ("-", "-"),
    };
    let mlabel = if on_m && r.chance(2, 3) { format!(":{}", LABELS[r.usize_below(2)]) } else if on_m { String::new() } else if r.chance(1, 4) { format!(":{}", LABELS[r.usize_below(2)]) } else { String::new() };
    anchor["label"] = json!(if on_m { mlabel.trim_start_matches(':').to_string() } else { l.to_string() });
    anchor["var"] = json!(avar);
    let dir = match (la, ra) {
        ("-", "->") => "out",
        ("<-", "-") => "in",
        _ => "both",
    };
    let typed = if ty.is_empty() { "untyped" } else { "typed" };
    let diag = if on_m { format!("MATCH (m{mlabel}{m_inline}){wh} RETURN m.k") } else { format!("MATCH {npat}{wh} RETURN n.k") };
    let mut q = QGen { text: String::new(), diag: Some(diag), shape: String::new(), ordered: false, kcol: 0, anchor, pat: None, prows: None };
    let pat1 = json!({"l": l, "ml": mlabel.trim_start_matches(':'), "dir": dir, "ty": ty.trim_start_matches(':')});
    match shape_i {
        0 => {
            q.shape = "scan".into();
            let ret = ["n.k, n.v", "n.k, n.v, n.s", "n.k, n", "n.k"][r.usize_below(4)];
            q.text = format!("MATCH {npat}{wh} RETURN {ret}");
        }
        1 => {
            q.shape = "count".into();
            let c = ["count(*)", "count(n.v)", "count(n)"][r.usize_below(3)];
            q.text = format!("MATCH {npat}{wh} RETURN {c} AS c");
        }
        2 => {
            q.shape = "distinct".into();
            q.text = format!("MATCH {npat}{wh} RETURN DISTINCT {}", ["n.v", "n.s", "n.v, n.s"][r.usize_below(3)]);
        }
        3 => {
            q.shape = "order_limit".into();
            q.ordered = true;
            let dir = if r.chance(1, 2) { " DESC" } else { "" };
            let skip = if r.chance(1, 4) { format!(" SKIP {}", r.below(3)) } else { String::new() };
            q.text = format!("MATCH {npat}{wh} RETURN n.k, n.v ORDER BY n.k{dir}{skip} LIMIT {}", 1 + r.below(5));
        }
        4 => {
            q.shape = "order_all".into();
            q.ordered = true;
            let dir = if r.chance(1, 2) { " DESC" } else { "" };
            q.text = format!("MATCH {npat}{wh} RETURN n.k, n.v ORDER BY n.k{dir}");
        }
        5 => {
            q.shape = format!("{}_{dir}_{typed}", if on_m { "expand1_pred_on_far_end" } else { "expand1" });
            q.kcol = if on_m { 2 } else { 0 };
            q.text = format!("MATCH {npat}{la}[r{ty}]{ra}(m{mlabel}{m_inline}){wh} RETURN n.k, r.e, m.k");
            q.pat = Some(pat1.clone());
        }
        6 => {
            let ty2 = if r.chance(1, 2) { format!(":{}", TYPES[r.usize_below(2)]) } else { String::new() };
            let (la2, ra2) = if r.chance(2, 3) { ("-", "->") } else { ("<-", "-") };
            q.shape = format!("expand2_{dir}_{}", if la2 == "-" { "out" } else { "in" });
            q.text = format!("MATCH {npat}{la}[r{ty}]{ra}(m{mlabel}){la2}[r2{ty2}]{ra2}(o){wh} RETURN n.k, r.e, m.k, r2.e, o.k");
            let mut p2 = pat1.clone();
            p2["dir2"] = json!(if la2 == "-" { "out" } else { "in" });
            p2["ty2"] = json!(ty2.trim_start_matches(':'));
            q.pat = Some(p2);
        }
        7 => {
            q.shape = format!("optional_{dir}_{typed}");
            q.text = format!("MATCH {npat}{wh} OPTIONAL MATCH (n){la}[r{ty}]{ra}(m{mlabel}) RETURN n.k, r.e, m.k");
            q.pat = Some(pat1.clone());
        }
        8 => {
            q.shape = format!("exists_{dir}_{typed}");
            let ex = format!("EXISTS {{ MATCH (n){la}[{ty}]{ra}(m{mlabel}) }}");
            let wh2 = if w.is_empty() { format!(" WHERE {ex}") } else { format!(" WHERE {w} AND {ex}") };
            q.text = format!("MATCH {npat}{wh2} RETURN n.k");
        }
        9 => {
            q.shape = format!("group_count_{dir}_{typed}");
            q.text = format!("MATCH {npat}{la}[r{ty}]{ra}(m{mlabel}){wh} RETURN n.k, count(r) AS c");
            q.prows = Some(format!("MATCH {npat}{la}[r{ty}]{ra}(m{mlabel}){wh} RETURN n.k, r.e, m.k"));
            q.pat = Some(pat1.clone());
        }
        10 => {
            q.shape = format!("with_then_match_{dir}_{typed}");
            q.text = format!("MATCH {npat}{wh} WITH n MATCH (n){la}[r{ty}]{ra}(m{mlabel}) RETURN n.k, r.e, m.k");
            q.pat = Some(pat1.clone());
        }
        _ => {
            q.shape = "two_patterns".into();
            let l2 = LABELS[r.usize_below(2)];
            let w2 = if w.is_empty() { " WHERE m.v = n.v".to_string() } else { format!(" WHERE {w} AND m.v = n.v") };
            q.text = format!("MATCH {npat}, (m:{l2}){w2} RETURN n.k, m.k");
        }
    }
    q
}

// ------------------------------------------------------------------------------------
// playing a case into one store

#[derive(Clone, Debug)]
struct StoreCfg {
    name: &'static str,
    /// obeys CREATE/DROP INDEX events
    index: bool,
    /// obeys compact events
    compact: bool,
    asynchronous: bool,
    /// planner/filter modes to run for every query: (native, parallel)
    modes: Vec<(bool, bool)>,
    explain: bool,
}

#[derive(Clone, Debug, Default)]
struct QRes {
    ok: bool,
    err: String,
    cols: Vec<String>,
    rows: Vec<String>, // in returned order
    keys: Vec<String>, // anchor keys (from the diagnostic query or column kcol)
    prows: Vec<String>, // rows of the pattern behind an aggregating query
}

#[derive(Default)]
struct Played {
    /// per query event index -> per mode results
    per_q: BTreeMap<usize, Vec<QRes>>,
    /// per query event index -> graph as dumped just before it
    graph_at: BTreeMap<usize, Arc<Dump>>,
    index_scan_chosen: u64,
    parallel_filter_ran: u64,
    hist_status: Vec<(usize, bool, String)>,
    probes: BTreeMap<String, u64>,
    final_canon: String,
    sig_parts: Vec<String>,
    had_edge: bool,
    had_delete: bool,
    maint_with_data: u64,
}

struct MNode {
    labels: BTreeSet<String>,
}

/// Deterministic bulk load (direct API): `n` nodes labelled A (every fifth also B) with keys
/// 100000.. and values drawn from the same domain as the history, as a pure function of `salt`.
pub(crate) fn bulk_load(g: &mut GraphStore, n: i64, salt: u64) -> Vec<(i64, BTreeSet<String>)> {
    let mut out = Vec::new();
    for i in 0..n {
        let k = 100_000 + i;
        let mut r = Rng::new(salt.wrapping_mul(31).wrapping_add(i as u64));
        let mut pm = PropertyMap::new();
        pm.insert("k".into(), PropertyValue::Integer(k));
        if r.chance(9, 10) {
            pm.insert("v".into(), pv_from_json(&gen_v(&mut r)));
        }
        if r.chance(1, 3) {
            pm.insert("s".into(), pv_from_json(&gen_s(&mut r)));
        }
        let labels: Vec<Label> = if i % 5 == 4 { vec![Label::new("A"), Label::new("B")] } else { vec![Label::new("A")] };
        let ls: BTreeSet<String> = labels.iter().map(|l| l.as_str().to_string()).collect();
        g.create_node_with_properties("default", labels, pm);
        out.push((k, ls));
    }
    out
}

fn find_node(g: &GraphStore, k: i64) -> Option<NodeId> {
    g.all_nodes().into_iter().find(|n| matches!(n.get_property("k"), Some(PropertyValue::Integer(x)) if *x == k)).map(|n| n.id)
}

fn find_edge(g: &GraphStore, e: i64) -> Option<EdgeId> {
    g.all_edges().into_iter().find(|x| matches!(x.properties.get("e"), Some(PropertyValue::Integer(y)) if *y == e)).map(|x| x.id)
}

fn set_modes(native: bool, parallel: bool) {
    if native {
        std::env::set_var("SAMYAMA_GRAPH_NATIVE", "true");
    } else {
        std::env::remove_var("SAMYAMA_GRAPH_NATIVE");
    }
    std::env::set_var("SAMYAMA_FILTER_PARALLEL_COST", if parallel { "0" } else { SEQ_COST });
}

fn clear_modes() {
    std::env::remove_var("SAMYAMA_GRAPH_NATIVE");
    std::env::remove_var("SAMYAMA_FILTER_PARALLEL_COST");
}

fn pick_k(keys: &[i64], i: u64) -> Option<i64> {
    if keys.is_empty() {
        None
    } else {
        Some(keys[(i as usize) % keys.len()])
    }
}

fn play(events: &[Value], cfg: &StoreCfg) -> Played {
    let mut p = Played::default();
    let engine = QueryEngine::new();
    let (mut g, rx) = if cfg.asynchronous {
        let (g, rx) = GraphStore::with_async_indexing();
        (g, Some(rx))
    } else {
        (GraphStore::new(), None)
    };
    let mut tasks: Tasks<'static> = Tasks::new();
    if let Some(rx) = rx {
        let tm = Arc::new(samyama::persistence::TenantManager::new());
        tasks.spawn("indexer", GraphStore::start_background_indexer(rx, g.vector_index.clone(), g.property_index.clone(), tm));
    }
    let mut nodes: BTreeMap<i64, MNode> = BTreeMap::new();
    let mut edges: BTreeSet<i64> = BTreeSet::new();
    let mut deleted_node_ids: BTreeSet<u64> = BTreeSet::new();
    let mut deleted_edge_ids: BTreeSet<u64> = BTreeSet::new();
    let mut dirty = true;
    let mut last_dump: Option<Arc<Dump>> = None;
    let mut pending_index_events = 0u64;
    clear_modes();
    std::env::set_var("SAMYAMA_FILTER_PARALLEL_COST", SEQ_COST);

    for (step, ev) in events.iter().enumerate() {
        let kind = op(ev);
        let via = s(ev, "via");
        let run_cy = |g: &mut GraphStore, text: String, p: &mut Played| -> bool {
            match engine.execute_mut(&text, g, "default") {
                Ok(_) => {
                    p.hist_status.push((step, true, String::new()));
                    true
                }
                Err(e) => {
                    p.hist_status.push((step, false, e.to_string()));
                    false
                }
            }
        };
        match kind {
            "bulk" => {
                let n = u(ev, "n") as i64;
                let salt = u(ev, "salt");
                for (k, ls) in bulk_load(&mut g, n, salt) {
                    nodes.insert(k, MNode { labels: ls });
                }
                p.sig_parts.push(format!("bulk{n}"));
                dirty = true;
            }
            "node" => {
                let k = ev.get("k").and_then(|x| x.as_i64()).unwrap_or(0);
                if nodes.contains_key(&k) {
                    continue;
                }
                let labels: Vec<&str> = ev["labels"].as_array().map(|a| a.iter().map(|x| LABELS[(x.as_u64().unwrap_or(0) % 2) as usize]).collect()).unwrap_or_default();
                let v = ev.get("v").map(pv_from_json);
                let sv = ev.get("s").map(pv_from_json);
                let ok = if via == "cy" {
                    let mut props = vec![format!("k: {k}")];
                    if let Some(v) = &v {
                        props.push(format!("v: {}", lit(v)));
                    }
                    if let Some(x) = &sv {
                        props.push(format!("s: {}", lit(x)));
                    }
                    let ls: String = labels.iter().map(|l| format!(":{l}")).collect();
                    run_cy(&mut g, format!("CREATE (n{ls} {{{}}})", props.join(", ")), &mut p)
                } else {
                    let mut pm = PropertyMap::new();
                    pm.insert("k".into(), PropertyValue::Integer(k));
                    if let Some(v) = v {
                        pm.insert("v".into(), v);
                    }
                    if let Some(x) = sv {
                        pm.insert("s".into(), x);
                    }
                    g.create_node_with_properties("default", labels.iter().map(|l| Label::new(*l)).collect(), pm);
                    true
                };
                if ok {
                    if let Some(id) = find_node(&g, k) {
                        if deleted_node_ids.contains(&id.as_u64()) {
                            *p.probes.entry("node_id_reused".into()).or_insert(0) += 1;
                        }
                    }
                    nodes.insert(k, MNode { labels: labels.iter().map(|l| l.to_string()).collect() });
                    p.sig_parts.push(format!("node{}{}", labels.join(""), via));
                }
                dirty = true;
            }
            "edge" => {
                let live: Vec<i64> = nodes.keys().cloned().collect();
                let (Some(a), Some(b)) = (pick_k(&live, u(ev, "a")), pick_k(&live, u(ev, "b"))) else { continue };
                let e = ev.get("e").and_then(|x| x.as_i64()).unwrap_or(0);
                if edges.contains(&e) {
                    continue;
                }
                let t = TYPES[(u(ev, "t") % 2) as usize];
                let w = u(ev, "w") as i64;
                let ok = if via == "cy" {
                    run_cy(&mut g, format!("MATCH (a {{k: {a}}}), (b {{k: {b}}}) CREATE (a)-[:{t} {{e: {e}, w: {w}}}]->(b)"), &mut p)
                } else {
                    match (find_node(&g, a), find_node(&g, b)) {
                        (Some(x), Some(y)) => {
                            let mut pm = PropertyMap::new();
                            pm.insert("e".into(), PropertyValue::Integer(e));
                            pm.insert("w".into(), PropertyValue::Integer(w));
                            g.create_edge_with_properties(x, y, t, pm).is_ok()
                        }
                        _ => false,
                    }
                };
                if ok {
                    if let Some(id) = find_edge(&g, e) {
                        if deleted_edge_ids.contains(&id.as_u64()) {
                            *p.probes.entry("edge_id_reused".into()).or_insert(0) += 1;
                            if cfg.compact {
                                *p.probes.entry("edge_id_reused_in_compacting_store".into()).or_insert(0) += 1;
                            }
                        }
                        edges.insert(e);
                        p.had_edge = true;
                    }
                    let rank = |x: i64| live.iter().position(|y| *y == x).unwrap_or(0);
                    p.sig_parts.push(format!("edge{}>{}{t}{via}", rank(a), rank(b)));
                }
                dirty = true;
            }
            "del_edge" => {
                let live: Vec<i64> = edges.iter().cloned().collect();
                let Some(e) = pick_k(&live, u(ev, "x")) else { continue };
                let id = find_edge(&g, e);
                let ok = if via == "cy" {
                    run_cy(&mut g, format!("MATCH ()-[r]->() WHERE r.e = {e} DELETE r"), &mut p)
                } else {
                    id.map(|i| g.delete_edge(i).is_ok()).unwrap_or(false)
                };
                if ok {
                    if let Some(i) = id {
                        deleted_edge_ids.insert(i.as_u64());
                    }
                    edges.remove(&e);
                    p.had_delete = true;
                    p.sig_parts.push(format!("del_edge{}{via}", live.iter().position(|y| *y == e).unwrap_or(0)));
                }
                dirty = true;
            }
            "del_node" => {
                let live: Vec<i64> = nodes.keys().cloned().collect();
                let Some(k) = pick_k(&live, u(ev, "x")) else { continue };
                let id = find_node(&g, k);
                // relationships that go with it
                let gone: Vec<(i64, u64)> = match id {
                    Some(i) => g
                        .all_edges()
                        .into_iter()
                        .filter(|e| e.source == i || e.target == i)
                        .filter_map(|e| match e.properties.get("e") {
                            Some(PropertyValue::Integer(x)) => Some((*x, e.id.as_u64())),
                            _ => None,
                        })
                        .collect(),
                    None => vec![],
                };
                let ok = if via == "cy" {
                    run_cy(&mut g, format!("MATCH (n) WHERE n.k = {k} DETACH DELETE n"), &mut p)
                } else {
                    id.map(|i| g.delete_node("default", i).is_ok()).unwrap_or(false)
                };
                if ok {
                    if let Some(i) = id {
                        deleted_node_ids.insert(i.as_u64());
                    }
                    for (e, eid) in gone {
                        edges.remove(&e);
                        deleted_edge_ids.insert(eid);
                    }
                    nodes.remove(&k);
                    p.had_delete = true;
                    p.sig_parts.push(format!("del_node{}{via}", live.iter().position(|y| *y == k).unwrap_or(0)));
                }
                dirty = true;
            }
            "set" | "unset" | "label+" | "label-" => {
                let live: Vec<i64> = nodes.keys().cloned().collect();
                let Some(k) = pick_k(&live, u(ev, "x")) else { continue };
                let key = s(ev, "key").to_string();
                let l = LABELS[(u(ev, "l") % 2) as usize];
                let id = find_node(&g, k);
                let ok = match (kind, via) {
                    ("set", "cy") => run_cy(&mut g, format!("MATCH (n) WHERE n.k = {k} SET n.{key} = {}", lit(&pv_from_json(&ev["val"]))), &mut p),
                    ("set", _) => id.map(|i| g.set_node_property("default", i, key.clone(), pv_from_json(&ev["val"])).is_ok()).unwrap_or(false),
                    ("unset", "cy") => run_cy(&mut g, format!("MATCH (n) WHERE n.k = {k} REMOVE n.{key}"), &mut p),
                    ("unset", "cynull") => run_cy(&mut g, format!("MATCH (n) WHERE n.k = {k} SET n.{key} = null"), &mut p),
                    ("unset", _) => id.map(|i| g.remove_node_property(i, &key)).is_some(),
                    ("label+", "cy") => run_cy(&mut g, format!("MATCH (n) WHERE n.k = {k} SET n:{l}"), &mut p),
                    ("label+", _) => id.map(|i| g.add_label_to_node("default", i, l).is_ok()).unwrap_or(false),
                    ("label-", "cy") => run_cy(&mut g, format!("MATCH (n) WHERE n.k = {k} REMOVE n:{l}"), &mut p),
                    (_, _) => id.map(|i| g.remove_label_from_node(i, &Label::new(l)).is_ok()).unwrap_or(false),
                };
                if ok {
                    if let Some(n) = nodes.get_mut(&k) {
                        if kind == "label+" {
                            n.labels.insert(l.to_string());
                        } else if kind == "label-" {
                            n.labels.remove(l);
                        }
                    }
                    p.sig_parts.push(format!("{kind}{}{}{via}", live.iter().position(|y| *y == k).unwrap_or(0), if kind.starts_with("label") { l.to_string() } else { key.clone() }));
                }
                dirty = true;
            }
            // ---- maintenance, addressed to one store
            "index" | "drop_index" => {
                if !cfg.index {
                    continue;
                }
                let l = LABELS[(u(ev, "l") % 2) as usize];
                let prop = s(ev, "p");
                let text = if kind == "index" { format!("CREATE INDEX ON :{l}({prop})") } else { format!("DROP INDEX ON :{l}({prop})") };
                let _ = run_cy(&mut g, text, &mut p);
                if !nodes.is_empty() {
                    p.maint_with_data += 1;
                }
                p.sig_parts.push(format!("{kind}{l}{prop}"));
            }
            "compact" => {
                if !cfg.compact {
                    continue;
                }
                g.compact_adjacency();
                if !edges.is_empty() {
                    p.maint_with_data += 1;
                    *p.probes.entry("compacted_with_edges".into()).or_insert(0) += 1;
                }
                p.sig_parts.push("compact".into());
            }
            "drain" => {
                if !cfg.asynchronous {
                    continue;
                }
                let polls = tasks.run_until_stalled(|_| 0, 4);
                if polls > 0 {
                    *p.probes.entry("indexer_polled".into()).or_insert(0) += 1;
                }
                pending_index_events = 0;
            }
            "q" => {
                if cfg.asynchronous {
                    // a read while the indexer lags is executed and counted, never asserted
                    if !tasks.runnable().is_empty() {
                        set_modes(false, false);
                        let lag = engine.execute(s(ev, "text"), &g).map(|b| { let mut r = rows_canon(&b, &g, false); r.sort(); r }).map_err(|e| e.to_string());
                        tasks.run_until_stalled(|_| 0, 4);
                        let now = engine.execute(s(ev, "text"), &g).map(|b| { let mut r = rows_canon(&b, &g, false); r.sort(); r }).map_err(|e| e.to_string());
                        *p.probes.entry("read_while_indexer_lagging".into()).or_insert(0) += 1;
                        if lag != now {
                            *p.probes.entry("read_while_indexer_lagging_differs_from_drained".into()).or_insert(0) += 1;
                        }
                    }
                    // always drained before the queries
                    tasks.run_until_stalled(|_| 0, 4);
                    if tasks.all_done() {
                        *p.probes.entry("indexer_task_ended".into()).or_insert(0) += 1;
                    }
                }
                if dirty || last_dump.is_none() {
                    last_dump = Some(Arc::new(dump(&g)));
                    dirty = false;
                }
                p.graph_at.insert(step, last_dump.clone().unwrap());
                let text = s(ev, "text");
                let diag = ev.get("diag").and_then(|x| x.as_str());
                let kcol = u(ev, "kcol") as usize;
                let mut out = Vec::new();
                for (mi, (native, parallel)) in cfg.modes.iter().enumerate() {
                    set_modes(*native, *parallel);
                    let mut r = QRes::default();
                    if std::env::var("C02_DEBUG").is_ok() {
                        let plan = engine.execute(&format!("EXPLAIN {text}"), &g).map(|b| rows_canon(&b, &g, false).join("\n")).unwrap_or_else(|e| e.to_string());
                        let res = engine.execute(text, &g).map(|b| rows_canon(&b, &g, false)).map_err(|e| e.to_string());
                        println!("[{}] native={native} parallel={parallel} {text}\n  plan: {}\n  result: {:?}", cfg.name, plan.split("--- Statistics").next().unwrap_or("").replace("\\n", "\n        "), res);
                    }
                    match engine.execute(text, &g) {
                        Ok(b) => {
                            r.ok = true;
                            r.cols = b.columns.clone();
                            r.rows = rows_canon(&b, &g, false);
                            if s(ev, "shape") == "distinct" {
                                // 0.0 = -0.0 in the engine's own value equality, so either is a
                                // valid representative of a DISTINCT group
                                for row in r.rows.iter_mut() {
                                    *row = row.replace("F:8000000000000000", "F:0000000000000000");
                                }
                            }
                            if diag.is_none() {
                                r.keys = r.rows.iter().map(|row| row.split(" | ").nth(kcol).unwrap_or("").to_string()).collect();
                            }
                        }
                        Err(e) => r.err = e.to_string(),
                    }
                    if let Some(d) = diag {
                        if let Ok(b) = engine.execute(d, &g) {
                            r.keys = rows_canon(&b, &g, false);
                        }
                    }
                    r.keys.sort();
                    if let Some(pq) = ev.get("prows").and_then(|x| x.as_str()) {
                        if let Ok(b) = engine.execute(pq, &g) {
                            r.prows = rows_canon(&b, &g, false);
                        }
                    }
                    if cfg.explain && (mi == 0 || *parallel) {
                        if let Ok(b) = engine.execute(&format!("EXPLAIN {text}"), &g) {
                            let plan = rows_canon(&b, &g, false).join("\n");
                            if mi == 0 && plan.contains("IndexScan") {
                                p.index_scan_chosen += 1;
                            }
                            if *parallel && plan.contains("Filter") && nodes.values().filter(|n| n.labels.contains("A")).count() >= 256 {
                                p.parallel_filter_ran += 1;
                            }
                        }
                    }
                    out.push(r);
                }
                set_modes(false, false);
                p.per_q.insert(step, out);
            }
            _ => continue,
        }
        if cfg.asynchronous && matches!(kind, "node" | "del_node" | "set" | "label+") {
            pending_index_events += 1;
            if pending_index_events >= 2 {
                *p.probes.entry("indexer_lagged_2_or_more_events".into()).or_insert(0) += 1;
            }
        }
    }
    if cfg.asynchronous {
        tasks.run_until_stalled(|_| 0, 4);
    }
    clear_modes();
    p.final_canon = dump(&g).canonical();
    p
}

// ------------------------------------------------------------------------------------
// comparison

fn sorted(mut v: Vec<String>) -> Vec<String> {
    v.sort();
    v
}

fn same_result(a: &QRes, b: &QRes, ordered: bool) -> bool {
    if a.cols != b.cols {
        return false;
    }
    if ordered {
        a.rows == b.rows
    } else {
        sorted(a.rows.clone()) == sorted(b.rows.clone())
    }
}

fn multiset_diff(a: &[String], b: &[String]) -> (Vec<String>, Vec<String>) {
    // (in a not in b, in b not in a) as multisets
    let mut ca: BTreeMap<&String, i64> = BTreeMap::new();
    for x in a {
        *ca.entry(x).or_insert(0) += 1;
    }
    for x in b {
        *ca.entry(x).or_insert(0) -= 1;
    }
    let mut only_a = Vec::new();
    let mut only_b = Vec::new();
    for (k, c) in ca {
        for _ in 0..c.max(0) {
            only_a.push(k.clone());
        }
        for _ in 0..(-c).max(0) {
            only_b.push(k.clone());
        }
    }
    (only_a, only_b)
}

/// Why is node `key` (canonical "I:<k>") a surprising member / non-member of the anchor set?
fn node_class(key: &str, graph: &Dump, anchor: &Value) -> String {
    let label = s(anchor, "label");
    let prop = s(anchor, "prop");
    let lit_t = s(anchor, "lit");
    let Some(node) = graph.nodes.values().find(|n| n.props.get("k").map(|x| x == key).unwrap_or(false)) else {
        return "node_not_in_graph".into();
    };
    if !label.is_empty() && !node.labels.contains(label) {
        return "node_lacks_the_label".into();
    }
    if prop.is_empty() {
        return "no_predicate".into();
    }
    match node.props.get(prop) {
        None => "property_absent".into(),
        Some(c) => {
            let t = match c.chars().next() {
                Some('I') => "int",
                Some('F') => "float",
                Some('S') => "string",
                Some('B') => "bool",
                _ => "other",
            };
            format!("{t}_value_vs_{lit_t}_literal")
        }
    }
}

/// Classify one result row of a pattern query (cells n.k, r.e, m.k[, r2.e, o.k]) against the
/// dumped graph: does it fit the pattern at all, and in which orientation?
fn row_class(row: &str, pat: &Value, graph: &Dump) -> String {
    let cells: Vec<&str> = row.split(" | ").collect();
    if cells.iter().any(|c| *c == "N") {
        return "null_padded_row".into();
    }
    if cells.len() >= 4 && cells[1] == cells[3] {
        return "same_relationship_bound_twice".into();
    }
    let node = |k: &str| graph.nodes.iter().find(|(_, n)| n.props.get("k").map(|x| x == k).unwrap_or(false));
    let has_label = |k: &str, l: &str| l.is_empty() || node(k).map(|(_, n)| n.labels.contains(l)).unwrap_or(false);
    if !has_label(cells[0], s(pat, "l")) || (cells.len() >= 3 && !has_label(cells[2], s(pat, "ml"))) {
        return "node_lacks_pattern_label".into();
    }
    // orientation of one hop: Some((forward, reverse)) when a relationship of the required type
    // connects the two nodes.  Relationships are located by their end points; the key `e` in
    // the row only disambiguates when both orientations exist (the Cypher view of a
    // relationship property can be stale after id reuse, which is not this property's subject).
    let hop = |a: &str, e: &str, b: &str, ty: &str| -> Option<(bool, bool)> {
        let (ia, ib) = (node(a)?.0, node(b)?.0);
        let typed = |x: &&crate::kit::dump::GEdge| ty.is_empty() || x.ty == ty;
        let f = graph.edges.values().filter(typed).any(|x| x.src == *ia && x.dst == *ib);
        let r = graph.edges.values().filter(typed).any(|x| x.src == *ib && x.dst == *ia);
        if f && r && ia != ib {
            if let Some(edge) = graph.edges.values().filter(typed).find(|x| x.props.get("e").map(|v| v == e).unwrap_or(false)) {
                return Some((edge.src == *ia && edge.dst == *ib, edge.src == *ib && edge.dst == *ia));
            }
        }
        if !f && !r {
            return None;
        }
        Some((f, r))
    };
    let fits = |o: Option<(bool, bool)>, dir: &str| -> bool {
        match (o, dir) {
            (Some((f, _)), "out") => f,
            (Some((_, r)), "in") => r,
            (Some((f, r)), _) => f || r,
            (None, _) => false,
        }
    };
    if cells.len() < 3 {
        return "short_row".into();
    }
    let h1 = hop(cells[0], cells[1], cells[2], s(pat, "ty"));
    if !fits(h1, s(pat, "dir")) {
        return "relationship_does_not_fit_pattern".into();
    }
    if cells.len() >= 5 && !fits(hop(cells[2], cells[3], cells[4], s(pat, "ty2")), s(pat, "dir2")) {
        return "relationship_does_not_fit_pattern".into();
    }
    if s(pat, "dir") == "both" {
        return match h1 {
            Some((true, true)) => "fits/self_loop_of_undirected_pattern".into(),
            Some((true, false)) => "fits/forward_orientation_of_undirected_pattern".into(),
            _ => "fits/reverse_orientation_of_undirected_pattern".into(),
        };
    }
    "fits_pattern".into()
}

struct Cmp<'a> {
    o: &'a mut Outcome,
    seen: BTreeSet<String>,
}

impl<'a> Cmp<'a> {
    fn violate(&mut self, sig: String, detail: String, step: usize) {
        if self.seen.insert(sig.clone()) && self.o.violations.len() < 8 {
            self.o.violate(Violation::new(sig, detail, step));
        }
    }
    /// Compare variant X with its immediate reference R (one dimension apart) and the ground
    /// reference B (base, legacy, sequential).
    #[allow(clippy::too_many_arguments)]
    fn check(&mut self, dim: &str, ev: &Value, step: usize, x: &QRes, r: &QRes, b: &QRes, graph: &Dump) {
        self.check_any(dim, ev, step, x, r, &[b], graph)
    }
    /// `r` is the immediate reference; `also` are other results that, when equal to `x`, mean the
    /// difference is not new (it is reported, if at all, where it first appears).
    #[allow(clippy::too_many_arguments)]
    fn check_any(&mut self, dim: &str, ev: &Value, step: usize, x: &QRes, r: &QRes, also: &[&QRes], graph: &Dump) {
        let ordered = ev.get("ordered").and_then(|v| v.as_bool()).unwrap_or(false);
        if !x.ok || !r.ok {
            if x.ok != r.ok {
                self.o.probe("refusal_on_one_side_only");
                self.o.probe(&format!("refusal_on_one_side_only:{dim}"));
            }
            return;
        }
        if same_result(x, r, ordered) || also.iter().any(|b| b.ok && same_result(x, b, ordered)) {
            return;
        }
        let text = s(ev, "text");
        let shape = s(ev, "shape");
        let anchor = &ev["anchor"];
        let aop = s(anchor, "op");
        if x.cols != r.cols {
            self.violate(format!("C02/{dim}/{shape}/columns"), format!("{text}: columns {:?} vs reference {:?}", x.cols, r.cols), step);
            return;
        }
        let (missing, extra) = multiset_diff(&r.keys, &x.keys);
        if missing.is_empty() && extra.is_empty() {
            let aggregated = ev.get("prows").is_some();
            let (only_r, only_x) = if aggregated { multiset_diff(&r.prows, &x.prows) } else { multiset_diff(&r.rows, &x.rows) };
            let what = if aggregated && only_r.is_empty() && only_x.is_empty() {
                "aggregate_over_same_pattern_rows"
            } else if only_r.is_empty() && only_x.is_empty() {
                "order"
            } else {
                "rows"
            };
            if let (Some(pat), "rows") = (ev.get("pat"), what) {
                let mut classes: BTreeMap<String, Vec<String>> = BTreeMap::new();
                for row in &only_r {
                    classes.entry(format!("missing/{}", row_class(row, pat, graph))).or_default().push(row.clone());
                }
                for row in &only_x {
                    classes.entry(format!("extra/{}", row_class(row, pat, graph))).or_default().push(row.clone());
                }
                for (c, rows) in classes {
                    self.violate(
                        format!("C02/{dim}/pattern_rows/{c}"),
                        format!("{text}: rows {:?} are {} the {dim} variant; reference {:?} variant {:?}", clip(&rows), if c.starts_with("missing") { "missing from" } else { "only in" }, clip(&r.rows), clip(&x.rows)),
                        step,
                    );
                }
                return;
            }
            self.violate(
                format!("C02/{dim}/{shape}/same_anchor_nodes/{what}"),
                format!("{text}: rows only in reference {:?}; rows only in {dim} variant {:?}; (ordered={ordered}) reference {:?} variant {:?}", only_r, only_x, clip(&r.rows), clip(&x.rows)),
                step,
            );
            return;
        }
        let mut classes: BTreeMap<String, Vec<String>> = BTreeMap::new();
        for k in &missing {
            classes.entry(format!("missing/{}", node_class(k, graph, anchor))).or_default().push(k.clone());
        }
        for k in &extra {
            classes.entry(format!("extra/{}", node_class(k, graph, anchor))).or_default().push(k.clone());
        }
        for (c, ks) in classes {
            self.violate(
                format!("C02/{dim}/anchor_{aop}/{c}"),
                format!("{text}: nodes with k in {:?} are {} the anchor set of the {dim} variant; reference rows {:?} variant rows {:?}", ks, if c.starts_with("missing") { "missing from" } else { "extra in" }, clip(&r.rows), clip(&x.rows)),
                step,
            );
        }
    }
}

fn clip(rows: &[String]) -> Vec<String> {
    let mut v: Vec<String> = rows.iter().take(12).cloned().collect();
    if rows.len() > 12 {
        v.push(format!("… {} more", rows.len() - 12));
    }
    v
}

fn mode_dim(native: bool, parallel: bool) -> &'static str {
    match (native, parallel) {
        (false, false) => "",
        (true, false) => "native",
        (false, true) => "parallel",
        (true, true) => "native+parallel",
    }
}

fn cfgs(case: &Case) -> Vec<StoreCfg> {
    let all = vec![(false, false), (true, false), (false, true), (true, true)];
    let m = |name: &str| -> Vec<(bool, bool)> {
        let k = case.knob_u64(&format!("modes_{name}"), 15);
        // native+parallel is only run together with parallel alone (needed to attribute a difference)
        let k = if (k >> 3) & 1 == 1 { k | 4 } else { k };
        all.iter().enumerate().filter(|(i, _)| *i == 0 || (k >> i) & 1 == 1).map(|(_, m)| *m).collect()
    };
    vec![
        // base runs every mode, and legacy+sequential a second time (fresh HashMaps, same process)
        StoreCfg { name: "base", index: false, compact: false, asynchronous: false, modes: { let mut v = m("base"); v.push((false, false)); v }, explain: true },
        StoreCfg { name: "idx", index: true, compact: false, asynchronous: false, modes: m("idx"), explain: true },
        StoreCfg { name: "cmp", index: false, compact: true, asynchronous: false, modes: m("cmp"), explain: false },
        StoreCfg { name: "asy", index: true, compact: false, asynchronous: true, modes: m("asy"), explain: true },
        StoreCfg { name: "mix", index: true, compact: true, asynchronous: false, modes: m("mix"), explain: false },
    ]
}

fn store_dim(name: &str) -> &'static str {
    match name {
        "idx" => "index",
        "cmp" => "compact",
        "asy" => "async_indexer",
        "mix" => "index+compact",
        _ => "",
    }
}

impl Scenario for C02 {
    fn id(&self) -> &'static str {
        "C02"
    }
    fn runs(&self, tier: Tier) -> u64 {
        match tier {
            Tier::Quick => 2_000,
            Tier::Thorough => 200_000,
        }
    }
    fn rule(&self) -> &'static str {
        "history = PRNG-generated sequence of <=40 graph writes (Cypher via QueryEngine::execute_mut or direct GraphStore API; <=~12 nodes, 2 labels, 2 relationship types, mixed-numeric values; 1 run in 8 also bulk-loads 260-420 nodes so the parallel filter path is reached) with maintenance events (CREATE/DROP INDEX, compact_adjacency, indexer drain) addressed to one of the stores idx/cmp/asy/mix at PRNG-chosen points, followed (and sometimes interleaved) by <=14 generated read queries; the same events are played into 5 stores on the run's thread and 2 more on a fresh thread with another hash seed; every query runs in up to 4 planner/filter modes per store. Non-trivial = the history created a relationship, deleted something, at least one maintenance event ran on a non-empty graph and at least one query returned rows on the baseline. Distinct = hash of (resolved history ops, maintenance kinds, query shapes and predicate kinds)."
    }
    fn real_components(&self) -> Vec<&'static str> {
        vec![
            "samyama::query::QueryEngine / parser / legacy planner / graph-native planner (SAMYAMA_GRAPH_NATIVE) / all physical operators",
            "FilterOperator parallel path (SAMYAMA_FILTER_PARALLEL_COST=0; rayon on the worker's single pool thread)",
            "IndexManager / PropertyIndex, CREATE INDEX backfill, DROP INDEX",
            "GraphStore::with_async_indexing + start_background_indexer (polled by kit::exec::Tasks)",
            "GraphStore write API, compact_adjacency (frozen CSR tier)",
            "std RandomState seeded through the getrandom shim (two seeds per run)",
        ]
    }
    fn stub_components(&self) -> Vec<&'static str> {
        vec!["the second process: a fresh thread (fresh RandomState keys) after re-seeding the getrandom shim, inside the same worker process", "TenantManager::new() without embed/agent configuration (the indexer never reaches tokio::spawn)"]
    }
    fn assumptions(&self) -> Vec<&'static str> {
        vec![
            "history writes address nodes by the unique key property k through label-free MATCH (never index-assisted), so all stores receive the same graph; this is verified (isomorphism-invariant dump) before queries are compared",
            "queries avoid legitimately unordered constructs (LIMIT/SKIP without a total ORDER BY, float sum/avg, collect, labels())",
            "a refusal on one side only is counted, not alarmed (physical choices may refuse a shape)",
            "reads before the async indexer is drained are not asserted",
        ]
    }
    fn required_probes(&self, _tier: Tier) -> Vec<&'static str> {
        vec!["index_scan_chosen", "parallel_filter_ran", "node_id_reused", "edge_id_reused_in_compacting_store", "compacted_with_edges", "indexer_polled", "indexer_lagged_2_or_more_events", "second_hash_seed_order_differs"]
    }
    fn stack_mb(&self) -> usize {
        64
    }
    fn generate(&self, s: &mut Streams, _run_index: u64, _tier: Tier) -> Case {
        let mut case = Case::new("C02");
        let nh = s.knobs.short_len(3, 40);
        let nq = 2 + s.knobs.usize_below(12);
        let bulk = s.knobs.chance(1, 8);
        let interleave = s.knobs.chance(1, 4);
        case.knobs.insert("hash_seed_b".into(), json!(s.hash.next_u64() >> 1));
        for name in ["base", "idx", "cmp", "asy", "mix"] {
            // which of the non-baseline modes to run on this store (bit i = mode i); base runs all
            let k = if name == "base" { 15 } else { 1 | (s.knobs.below(8) << 1) };
            case.knobs.insert(format!("modes_{name}"), json!(k));
        }
        let mut hist: Vec<Value> = Vec::new();
        let (mut nk, mut ne) = (0i64, 0i64);
        if bulk {
            hist.push(json!({"op":"bulk","n":260 + s.knobs.below(160),"salt":s.knobs.below(1 << 30)}));
        }
        for _ in 0..(1 + s.knobs.below(3)) {
            hist.push(gen_hist(&mut s.workload, &mut nk, &mut ne));
        }
        for _ in 0..nh {
            hist.push(gen_hist(&mut s.workload, &mut nk, &mut ne));
        }
        // maintenance: positions before / in the middle / after the history
        let mut maint: Vec<(usize, Value)> = Vec::new();
        let pos = |r: &mut Rng, len: usize| -> usize {
            match r.below(4) {
                0 => 0,
                1 => len,
                _ => r.usize_below(len + 1),
            }
        };
        for l in 0..2u64 {
            for p in ["v", "s", "k"] {
                if s.knobs.chance(if p == "v" { 9 } else { 5 }, 10) {
                    let at = pos(&mut s.sched, hist.len());
                    maint.push((at, json!({"op":"index","l":l,"p":p})));
                    if s.knobs.chance(1, 10) {
                        let at2 = at + s.sched.usize_below(hist.len() + 1 - at);
                        maint.push((at2, json!({"op":"drop_index","l":l,"p":p})));
                        if s.knobs.chance(2, 3) {
                            let at3 = at2 + s.sched.usize_below(hist.len() + 1 - at2);
                            maint.push((at3, json!({"op":"index","l":l,"p":p})));
                        }
                    }
                }
            }
        }
        for _ in 0..(1 + s.knobs.below(3)) {
            maint.push((pos(&mut s.sched, hist.len()), json!({"op":"compact"})));
        }
        for _ in 0..s.knobs.below(4) {
            maint.push((pos(&mut s.sched, hist.len()), json!({"op":"drain"})));
        }
        let mut queries: Vec<(usize, Value)> = Vec::new();
        for _ in 0..nq {
            let q = gen_query(&mut s.workload);
            let at = if interleave && s.sched.chance(1, 3) { s.sched.usize_below(hist.len() + 1) } else { hist.len() };
            let mut ev = json!({"op":"q","text":q.text,"shape":q.shape,"ordered":q.ordered,"kcol":q.kcol,"anchor":q.anchor});
            if let Some(d) = q.diag {
                ev["diag"] = json!(d);
            }
            if let Some(p) = q.pat {
                ev["pat"] = p;
            }
            if let Some(p) = q.prows {
                ev["prows"] = json!(p);
            }
            queries.push((at, ev));
        }
        // merge (stable): at each history position first maintenance, then queries
        for i in 0..=hist.len() {
            for (at, ev) in &maint {
                if *at == i {
                    case.events.push(ev.clone());
                }
            }
            for (at, ev) in &queries {
                if *at == i {
                    case.events.push(ev.clone());
                }
            }
            if i < hist.len() {
                case.events.push(hist[i].clone());
            }
        }
        case
    }
    fn shrink_event(&self, ev: &Value) -> Vec<Value> {
        let mut out = Vec::new();
        match op(ev) {
            "node" => {
                if ev.get("s").is_some() {
                    let mut e = ev.clone();
                    e.as_object_mut().unwrap().remove("s");
                    out.push(e);
                }
                if s(ev, "via") == "cy" {
                    let mut e = ev.clone();
                    e["via"] = json!("api");
                    out.push(e);
                }
                if ev["labels"].as_array().map(|a| a.len()).unwrap_or(0) > 1 {
                    let mut e = ev.clone();
                    e["labels"] = json!([ev["labels"][0]]);
                    out.push(e);
                }
            }
            "bulk" => {
                let n = u(ev, "n");
                if n > 256 {
                    let mut e = ev.clone();
                    e["n"] = json!(256);
                    out.push(e);
                }
                for m in [8u64, 2] {
                    if n > m {
                        let mut e = ev.clone();
                        e["n"] = json!(m);
                        out.push(e);
                    }
                }
            }
            "edge" | "del_edge" | "del_node" | "set" | "unset" | "label+" | "label-" => {
                if s(ev, "via") == "cy" || s(ev, "via") == "cynull" {
                    let mut e = ev.clone();
                    e["via"] = json!("api");
                    out.push(e);
                }
            }
            _ => {}
        }
        out
    }
    fn execute(&self, case: &Case) -> Outcome {
        let mut o = Outcome::new();
        static WARM: std::sync::Once = std::sync::Once::new();
        crate::kit::warm::once(&WARM, case.hash_seed, || {
            let evs = vec![
                json!({"op":"node","via":"cy","labels":[0,1],"k":1,"v":{"i":1},"s":{"s":"a"}}),
                json!({"op":"node","via":"api","labels":[0],"k":2,"v":{"i":2}}),
                json!({"op":"index","l":0,"p":"v"}),
                json!({"op":"edge","via":"cy","a":0,"b":1,"t":0,"e":1,"w":0}),
                json!({"op":"edge","via":"api","a":1,"b":0,"t":1,"e":2,"w":0}),
                json!({"op":"compact"}),
                json!({"op":"set","via":"cy","x":0,"key":"v","val":{"i":3}}),
                json!({"op":"unset","via":"cy","x":0,"key":"s"}),
                json!({"op":"label-","via":"cy","x":0,"l":1}),
                json!({"op":"del_edge","via":"cy","x":0}),
                json!({"op":"q","text":"MATCH (n:A)-[r]-(m) WHERE n.v >= 1 RETURN DISTINCT n.k, r.e, m.k ORDER BY n.k LIMIT 3","shape":"scan","ordered":false,"kcol":0,"anchor":{"op":"none"}}),
                json!({"op":"q","text":"MATCH (n:A) WHERE n.v = 2 OPTIONAL MATCH (n)-[r:U]->(m) RETURN n.k, count(r) AS c","shape":"scan","ordered":false,"kcol":0,"anchor":{"op":"none"}}),
                json!({"op":"del_node","via":"cy","x":0}),
            ];
            for asynchronous in [false, true] {
                let cfg = StoreCfg { name: "warm", index: true, compact: true, asynchronous, modes: vec![(false, false), (true, false), (false, true)], explain: true };
                let _ = play(&evs, &cfg);
            }
        });
        let cfgs = cfgs(case);
        let played: Vec<Played> = cfgs.iter().map(|c| play(&case.events, c)).collect();
        // ---- second hash seed: a fresh thread after re-seeding the shim
        let hs_cfgs = vec![
            StoreCfg { name: "base", index: false, compact: false, asynchronous: false, modes: vec![(false, false)], explain: false },
            StoreCfg { name: "mix", index: true, compact: true, asynchronous: false, modes: vec![(false, false)], explain: false },
        ];
        let seed_b = case.knob_u64("hash_seed_b", 12345);
        crate::kit::runner::reseed_hash(seed_b);
        let events = case.events.clone();
        let hs_cfgs2 = hs_cfgs.clone();
        let pool = rayon::ThreadPoolBuilder::new().num_threads(1).stack_size(64 * 1024 * 1024).build().expect("pool");
        let hs_played: Vec<Played> = pool.install(move || hs_cfgs2.iter().map(|c| play(&events, c)).collect());
        drop(pool);
        crate::kit::runner::reseed_hash(case.hash_seed);

        let base = &played[0];
        o.steps = case.events.len() as u64 * (played.len() as u64 + 2);
        o.evaluations = 1;
        for p in played.iter().chain(hs_played.iter()) {
            for (k, v) in &p.probes {
                o.probe_n(k, *v);
            }
            if p.index_scan_chosen > 0 {
                o.probe_n("index_scan_chosen", p.index_scan_chosen);
            }
            if p.parallel_filter_ran > 0 {
                o.probe_n("parallel_filter_ran", p.parallel_filter_ran);
            }
        }
        // ---- the history must have had the same effect everywhere
        let mut hist_ok = true;
        {
            let mut c = Cmp { o: &mut o, seen: BTreeSet::new() };
            for (i, p) in played.iter().enumerate().skip(1).chain(hs_played.iter().enumerate().map(|(i, p)| (i + 100, p))) {
                let name = if i >= 100 { if i == 100 { "hs2" } else { "hs2mix" } } else { cfgs[i].name };
                // statuses of the shared history statements (maintenance statements are store-specific)
                let strip = |p: &Played| -> Vec<(usize, bool)> { p.hist_status.iter().filter(|(st, _, _)| !matches!(op(&case.events[*st]), "index" | "drop_index")).map(|(st, ok, _)| (*st, *ok)).collect() };
                if strip(p) != strip(base) {
                    c.violate(format!("C02/history/{name}/write_statement_status_differs"), format!("base {:?} vs {name} {:?}", base.hist_status, p.hist_status), 0);
                    hist_ok = false;
                }
                if p.final_canon != base.final_canon {
                    c.violate(format!("C02/history/{name}/graph_differs_after_same_writes"), format!("base:\n{}\n{name}:\n{}", base.final_canon, p.final_canon), 0);
                    hist_ok = false;
                }
            }
        }
        if base.hist_status.iter().any(|(_, ok, _)| !ok) {
            o.probe("history_statement_refused");
        }
        let mut any_rows = false;
        let mut acc = String::new();
        if hist_ok {
            let mut c = Cmp { o: &mut o, seen: BTreeSet::new() };
            for (step, ev) in case.events.iter().enumerate() {
                if op(ev) != "q" {
                    continue;
                }
                let Some(b_all) = base.per_q.get(&step) else { continue };
                let b = &b_all[0];
                let ordered = ev.get("ordered").and_then(|v| v.as_bool()).unwrap_or(false);
                let graph = base.graph_at.get(&step).cloned().unwrap_or_default();
                if b.ok {
                    if !b.rows.is_empty() {
                        any_rows = true;
                    }
                    acc.push_str(&format!("{:?}{:?};", b.cols, if ordered { b.rows.clone() } else { sorted(b.rows.clone()) }));
                } else {
                    c.o.probe("query_refused_by_baseline");
                    acc.push_str("refused;");
                }
                for (si, p) in played.iter().enumerate() {
                    let Some(rs) = p.per_q.get(&step) else { continue };
                    let name = cfgs[si].name;
                    let sd = store_dim(name);
                    let at = |j: usize| -> Option<&QRes> { played[j].per_q.get(&step).map(|x| &x[0]) };
                    // the store itself, legacy + sequential, against the store(s) one dimension away
                    match name {
                        "idx" | "cmp" => c.check(sd, ev, step, &rs[0], b, b, &graph),
                        "asy" => {
                            if let Some(r) = at(1) {
                                c.check(sd, ev, step, &rs[0], r, b, &graph)
                            }
                        }
                        "mix" => {
                            // nothing new if it agrees with idx or with cmp
                            let agrees = [1usize, 2].iter().any(|j| at(*j).map(|x| x.ok && rs[0].ok && same_result(x, &rs[0], ordered)).unwrap_or(false));
                            if !agrees {
                                if let Some(r) = at(1) {
                                    c.check(sd, ev, step, &rs[0], r, b, &graph)
                                }
                            }
                        }
                        _ => {}
                    }
                    // planner / filter modes against the same store in legacy + sequential; nothing new
                    // if the result equals base, or what the same mode gives on base, or (for
                    // native+parallel) what native or parallel alone give on this store
                    for (mi, (native, parallel)) in cfgs[si].modes.iter().enumerate().skip(1) {
                        let md = if !*native && !*parallel { "rerun_in_same_process" } else { mode_dim(*native, *parallel) };
                        // the store is the same on both sides of this comparison: the dimension is the mode
                        let _ = sd;
                        // native+parallel: when parallel alone agrees with the reference, the
                        // native planner is what differs
                        let par_alone_ok = cfgs[si].modes.iter().position(|m| *m == (false, true)).map(|j| rs[j].ok && rs[0].ok && same_result(&rs[j], &rs[0], ordered)).unwrap_or(false);
                        let dim = if *native && *parallel && par_alone_ok { "native".to_string() } else { md.to_string() };
                        let mut also: Vec<&QRes> = vec![b];
                        let bmi = cfgs[0].modes.iter().skip(1).position(|m| *m == (*native, *parallel)).map(|j| j + 1);
                        if si > 0 {
                            if let Some(j) = bmi {
                                also.push(&b_all[j]);
                            }
                        }
                        if *native && *parallel {
                            for (mj, m) in cfgs[si].modes.iter().enumerate() {
                                if *m == (true, false) || *m == (false, true) {
                                    also.push(&rs[mj]);
                                }
                            }
                        }
                        c.check_any(&dim, ev, step, &rs[mi], &rs[0], &also, &graph);
                    }
                }
                // second hash seed
                for (hi, p) in hs_played.iter().enumerate() {
                    let Some(rs) = p.per_q.get(&step) else { continue };
                    let (dim, reference) = if hi == 0 { ("hash_seed", b) } else { ("hash_seed@index+compact", &played[4].per_q[&step][0]) };
                    if rs[0].ok && reference.ok && rs[0].rows != reference.rows && sorted(rs[0].rows.clone()) == sorted(reference.rows.clone()) {
                        c.o.probe("second_hash_seed_order_differs");
                    }
                    c.check(dim, ev, step, &rs[0], reference, b, &graph);
                }
            }
        }
        let maint: u64 = played.iter().map(|p| p.maint_with_data).sum();
        o.nontrivial = base.had_edge && base.had_delete && maint > 0 && any_rows;
        let qsig: Vec<String> = case.events.iter().filter(|e| op(e) == "q").map(|e| format!("{}:{}:{}", s(e, "shape"), s(&e["anchor"], "op"), s(&e["anchor"], "lit"))).collect();
        let msig: Vec<String> = played.iter().skip(1).flat_map(|p| p.sig_parts.iter().filter(|x| x.starts_with("index") || x.starts_with("drop") || x.starts_with("compact")).cloned()).collect();
        o.class_key = hash_str(&format!("{}|{}|{}", base.sig_parts.join(","), msig.join(","), qsig.join(",")));
        o.state_hash = hash_str(&format!("{}#{}", base.final_canon, acc));
        o
    }
}
