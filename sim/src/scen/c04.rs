//! C04 — write statements have exactly their openCypher effect (templated fragment).
//!
//! Sim: 1–3 logical clients issue statements, each an instance of a template over a small
//! vocabulary (labels A,B; types T,U; keys k = unique id handed out by the workload, v, w;
//! tiny value domain).  Which client's next statement takes the write lock next is a
//! pre-drawn scheduler pick; statements are rendered against the model when they enter
//! the pending set, so a statement may run after another client changed what it refers
//! to.  Two entry points (knob): `QueryEngine::execute_mut` on `&mut GraphStore`, and the
//! server path `CommandHandler::handle_command` over `Arc<tokio::sync::RwLock<GraphStore>>`
//! driven by the kit's executor.
//!
//! Oracle: `ModelGraph::apply` (kit::cymodel, openCypher 9 clause-at-a-time semantics) in
//! lock-grant order; after EVERY statement the full dump of the store equals the model
//! (isomorphism-invariant canonical form: labels, type-exact properties, relationship
//! multiset with endpoints by content — the unique `k` makes this exact) and the
//! returned rows equal the model's rows as bags.  Plain DELETE of a connected node must
//! fail and change nothing.  A statement the engine refuses although the model accepts it
//! is counted, not alarmed — except a plain DELETE refused "because the node still has
//! relationships" when no node it deletes has one.
//!
//! A third of the histories (knob `focus`) follow the life cycle of a relationship id: build
//! parallel relationships, DELETE one particular one of them (keyed on its own property map),
//! CREATE relationships (the freed id is handed out again), come back to the ends of the
//! deleted one (`revisit_*`: MATCH over all their relationships, DETACH DELETE, plain DELETE).

use crate::kit::core::*;
use crate::kit::cy::*;
use crate::kit::cymodel::*;
use crate::kit::dump::dump;
use crate::kit::exec::Tasks;
use crate::kit::model::*;
use crate::kit::rng::{Rng, Streams};
use samyama::graph::{GraphStore, PropertyValue};
use samyama::protocol::command::CommandHandler;
use samyama::protocol::resp::RespValue;
use samyama::query::executor::record::{RecordBatch, Value as QV};
use samyama::query::QueryEngine;
use serde_json::{json, Value};
use std::collections::BTreeSet;
use std::sync::Arc;

pub struct C04;

const TEMPLATES: [(&str, u32); 48] = [
    ("create_node", 10),
    ("create_path", 8),
    ("create_two", 3),
    ("create_chain3", 3),
    ("match_create_rel", 10),
    ("match_label_create_rel", 4),
    ("match_create_node_rel", 5),
    ("unwind_create", 5),
    ("unwind_create_path", 3),
    ("merge_node", 8),
    ("merge_node_other_label", 2),
    ("merge_node_nolabel", 3),
    ("merge_node_nonkey", 4),
    ("unwind_merge", 7),
    ("merge_rel", 7),
    ("merge_rel_scan", 3),
    ("merge_rel_props", 3),
    ("merge_path_full", 4),
    ("set_literal", 7),
    ("set_scan", 4),
    ("set_from_other", 5),
    ("set_plus_map", 4),
    ("set_null", 3),
    ("set_rel_prop", 4),
    ("remove_prop", 4),
    ("remove_prop_scan", 2),
    ("remove_label", 4),
    ("remove_label_scan", 2),
    ("set_label", 5),
    ("delete_rel", 5),
    ("delete_rel_scan", 2),
    ("delete_node", 7),
    ("delete_node_scan", 2),
    ("delete_node_and_rel", 3),
    ("detach_delete", 5),
    ("detach_delete_scan", 2),
    ("pipe_set_with_delete_rel", 3),
    ("pipe_create_with_match_create", 3),
    ("pipe_merge_with_set", 3),
    ("pipe_match_with_merge_rel", 3),
    ("pipe_create_with_set", 3),
    ("match_create_parallel_rel", 12),
    ("merge_rel_existing", 12),
    ("merge_rel_existing_incoming", 4),
    ("delete_parallel_rel", 8),
    ("revisit_set_rel_prop", 4),
    ("revisit_detach_delete", 3),
    ("revisit_delete_node", 3),
];

/// Templates that create at least one relationship when their MATCH part finds its ends.
const REL_CREATORS: [&str; 5] = ["create_path", "match_create_rel", "match_create_node_rel", "create_chain3", "unwind_create_path"];
const REVISITS: [&str; 3] = ["revisit_set_rel_prop", "revisit_detach_delete", "revisit_delete_node"];

fn dom(i: u64) -> V {
    match i % 8 {
        0 => V::I(0),
        1 => V::I(1),
        2 => V::I(2),
        3 => V::I(3),
        4 => V::S("a".into()),
        5 => V::S("b".into()),
        6 => V::B(true),
        _ => V::F(1.5),
    }
}

fn labels(i: u64) -> Vec<String> {
    match i % 4 {
        0 => vec!["A".into()],
        1 => vec!["B".into()],
        2 => vec!["A".into(), "B".into()],
        _ => vec![],
    }
}
fn label1(i: u64) -> String {
    if i % 2 == 0 { "A".into() } else { "B".into() }
}
fn ty(i: u64) -> String {
    if i % 2 == 0 { "T".into() } else { "U".into() }
}
fn li(i: i64) -> Expr {
    Expr::Lit(V::I(i))
}
fn np(var: &str, ls: Vec<String>, props: Vec<(&str, Expr)>) -> NodePat {
    NodePat { var: if var.is_empty() { None } else { Some(var.into()) }, labels: ls, props: props.into_iter().map(|(k, e)| (k.to_string(), e)).collect() }
}
fn kp(var: &str, k: i64) -> NodePat {
    np(var, vec![], vec![("k", li(k))])
}
fn rp(var: &str, t: Option<String>, props: Vec<(&str, Expr)>, out: bool) -> RelPat {
    RelPat { var: if var.is_empty() { None } else { Some(var.into()) }, ty: t, props: props.into_iter().map(|(k, e)| (k.to_string(), e)).collect(), out }
}
fn path(a: NodePat, hops: Vec<(RelPat, NodePat)>) -> PathPat {
    PathPat { start: a, hops }
}
fn rprop(v: &str, k: &str) -> RetItem {
    RetItem::Prop(v.into(), k.into())
}

struct Ctx<'a> {
    m: &'a ModelGraph,
    next_k: &'a mut i64,
    x: Vec<u64>,
    ret: bool,
    /// keys of nodes that were an end of a relationship which an earlier statement of this history deleted
    lost: &'a [i64],
}

impl<'a> Ctx<'a> {
    fn a(&self, i: usize) -> u64 {
        self.x.get(i).cloned().unwrap_or(0)
    }
    fn keys(&self) -> Vec<i64> {
        let mut s: BTreeSet<i64> = BTreeSet::new();
        for n in self.m.d.nodes.values() {
            if let Some(V::I(k)) = n.props.get("k").map(|c| V::from_canon(c)) {
                s.insert(k);
            }
        }
        s.into_iter().collect()
    }
    /// An existing key by rank; every 8th pick (or an empty graph) gives a key nothing holds.
    fn key(&self, i: usize) -> i64 {
        let ks = self.keys();
        let r = self.a(i);
        if ks.is_empty() || r % 8 == 7 {
            9000 + (r % 5) as i64
        } else {
            ks[(r / 8) as usize % ks.len()]
        }
    }
    /// A node that lost a relationship earlier in the history (3 picks in 4, if there is one that still
    /// exists), else as `key`.
    fn revisit_key(&self, i: usize) -> i64 {
        let ks = self.keys();
        let alive: Vec<i64> = self.lost.iter().cloned().filter(|k| ks.contains(k)).collect();
        let r = self.a(i);
        if alive.is_empty() || r % 4 == 3 {
            self.key(i)
        } else {
            alive[(r / 4) as usize % alive.len()]
        }
    }
    /// Existing relationships whose ends both carry a key, in id order: (k of source, k of target, type, properties).
    fn rels(&self) -> Vec<(i64, i64, String, std::collections::BTreeMap<String, String>)> {
        let kk = |id: u64| match self.m.d.nodes.get(&id).and_then(|n| n.props.get("k")).map(|c| V::from_canon(c)) {
            Some(V::I(k)) => Some(k),
            _ => None,
        };
        self.m.d.edges.values().filter_map(|e| Some((kk(e.src)?, kk(e.dst)?, e.ty.clone(), e.props.clone()))).collect()
    }
    fn fresh(&mut self) -> i64 {
        let k = *self.next_k;
        *self.next_k += 1;
        k
    }
    fn labels_of_key(&self, k: i64) -> Vec<String> {
        let want = format!("I:{k}");
        self.m.d.nodes.values().find(|n| n.props.get("k") == Some(&want)).map(|n| n.labels.iter().cloned().collect()).unwrap_or_default()
    }
    fn opt_props(&self, iv: usize, iw: usize) -> Vec<(&'static str, Expr)> {
        let mut p = Vec::new();
        if self.a(iv) % 3 != 0 {
            p.push(("v", Expr::Lit(dom(self.a(iv) / 3))));
        }
        if self.a(iw) % 3 == 1 {
            p.push(("w", Expr::Lit(dom(self.a(iw) / 3))));
        }
        p
    }
    fn with_k(&self, k: i64, mut rest: Vec<(&'static str, Expr)>) -> Vec<(&'static str, Expr)> {
        let mut p = vec![("k", li(k))];
        p.append(&mut rest);
        p
    }
}

/// Build the statement of one template instance.  `None`: nothing to act on.
fn resolve(t: &str, c: &mut Ctx) -> Option<Stmt> {
    use Clause::*;
    let mut cl: Vec<Clause> = Vec::new();
    let mut ret: Vec<RetItem> = Vec::new();
    match t {
        "create_node" => {
            let k = c.fresh();
            let p = c.with_k(k, c.opt_props(1, 2));
            cl.push(Create(vec![PathPat::node(np("n", labels(c.a(0)), p))]));
            ret = vec![rprop("n", "k"), rprop("n", "v"), RetItem::Labels("n".into())];
        }
        "create_path" => {
            let (k1, k2) = (c.fresh(), c.fresh());
            let rprops = if c.a(4) % 2 == 0 { vec![("w", Expr::Lit(dom(c.a(5))))] } else { vec![] };
            let out = c.a(6) % 3 != 0;
            cl.push(Create(vec![path(np("a", labels(c.a(0)), c.with_k(k1, c.opt_props(1, 2))), vec![(rp("r", Some(ty(c.a(3))), rprops, out), np("b", labels(c.a(7)), c.with_k(k2, vec![])))])]));
            ret = vec![rprop("a", "k"), RetItem::Type("r".into()), rprop("r", "w"), rprop("b", "k")];
        }
        "create_two" => {
            let (k1, k2) = (c.fresh(), c.fresh());
            cl.push(Create(vec![PathPat::node(np("a", labels(c.a(0)), c.with_k(k1, c.opt_props(1, 2)))), PathPat::node(np("b", labels(c.a(3)), c.with_k(k2, vec![])))]));
            ret = vec![rprop("a", "k"), rprop("b", "k")];
        }
        "create_chain3" => {
            let (k1, k2, k3) = (c.fresh(), c.fresh(), c.fresh());
            cl.push(Create(vec![path(
                np("a", labels(c.a(0)), c.with_k(k1, vec![])),
                vec![(rp("", Some(ty(c.a(1))), vec![], true), np("b", labels(c.a(2)), c.with_k(k2, vec![]))), (rp("", Some(ty(c.a(3))), vec![], false), np("c", labels(c.a(4)), c.with_k(k3, vec![])))],
            )]));
            ret = vec![rprop("a", "k"), rprop("b", "k"), rprop("c", "k")];
        }
        "match_create_rel" => {
            let (ka, kb) = (c.key(0), c.key(1));
            let rprops = if c.a(3) % 2 == 0 { vec![("w", Expr::Lit(dom(c.a(4))))] } else { vec![] };
            cl.push(Match(vec![PathPat::node(kp("a", ka)), PathPat::node(kp("b", kb))]));
            cl.push(Create(vec![path(np("a", vec![], vec![]), vec![(rp("r", Some(ty(c.a(2))), rprops, true), np("b", vec![], vec![]))])]));
            ret = vec![rprop("a", "k"), RetItem::Type("r".into()), rprop("b", "k")];
        }
        "match_label_create_rel" => {
            let kb = c.key(1);
            cl.push(Match(vec![PathPat::node(np("a", vec![label1(c.a(0))], vec![])), PathPat::node(kp("b", kb))]));
            cl.push(Create(vec![path(np("a", vec![], vec![]), vec![(rp("", Some(ty(c.a(2))), vec![], c.a(3) % 2 == 0), np("b", vec![], vec![]))])]));
            ret = vec![rprop("a", "k"), rprop("b", "k")];
        }
        "match_create_node_rel" => {
            let ka = c.key(0);
            let k = c.fresh();
            cl.push(Match(vec![PathPat::node(kp("a", ka))]));
            cl.push(Create(vec![path(np("a", vec![], vec![]), vec![(rp("", Some(ty(c.a(1))), vec![], c.a(2) % 2 == 0), np("b", labels(c.a(3)), c.with_k(k, c.opt_props(4, 5))))])]));
            ret = vec![rprop("a", "k"), rprop("b", "k")];
        }
        "unwind_create" => {
            let n = 1 + c.a(0) % 3;
            let ks: Vec<V> = (0..n).map(|_| V::I(c.fresh())).collect();
            let mut p = vec![("k", Expr::Var("x".into()))];
            p.extend(c.opt_props(1, 2));
            cl.push(Unwind(ks, "x".into()));
            cl.push(Create(vec![PathPat::node(np("n", labels(c.a(3)), p))]));
            ret = vec![rprop("n", "k"), RetItem::Val("x".into())];
        }
        "unwind_create_path" => {
            let n = 1 + c.a(0) % 2;
            // keys come in pairs (x, x + 500) so both ends stay unique
            let ks: Vec<V> = (0..n).map(|_| V::I(c.fresh())).collect();
            cl.push(Unwind(ks, "x".into()));
            cl.push(Create(vec![path(np("a", labels(c.a(1)), vec![("k", Expr::Var("x".into()))]), vec![(rp("", Some(ty(c.a(2))), vec![], true), np("b", labels(c.a(3)), vec![("k", Expr::VarPlus("x".into(), 500))]))])]));
            ret = vec![rprop("a", "k"), rprop("b", "k")];
        }
        "merge_node" | "merge_node_other_label" | "merge_node_nolabel" => {
            // an existing key (with a label the node really has) or a fresh one
            let existing = c.a(0) % 3 != 0 && !c.keys().is_empty();
            let k = if existing { c.key(1) } else { c.fresh() };
            let ls: Vec<String> = match t {
                "merge_node_nolabel" => vec![],
                "merge_node_other_label" => vec![label1(c.a(2))],
                _ => {
                    let have = c.labels_of_key(k);
                    if have.is_empty() { vec![label1(c.a(2))] } else { vec![have[c.a(2) as usize % have.len()].clone()] }
                }
            };
            let oc = if c.a(3) % 2 == 0 { vec![SetItem::Prop("n".into(), "v".into(), Expr::Lit(dom(c.a(4))))] } else { vec![] };
            let om = if c.a(5) % 2 == 0 { vec![SetItem::Prop("n".into(), "w".into(), Expr::Lit(dom(c.a(6))))] } else { vec![] };
            cl.push(Merge(PathPat::node(np("n", ls, vec![("k", li(k))])), oc, om));
            ret = vec![rprop("n", "k"), rprop("n", "v"), rprop("n", "w")];
        }
        "merge_node_nonkey" => {
            // MERGE on a non-unique property: matches ALL nodes with it
            let k = c.fresh();
            let oc = vec![SetItem::Prop("n".into(), "k".into(), li(k))];
            let om = if c.a(2) % 2 == 0 { vec![SetItem::Prop("n".into(), "w".into(), Expr::Lit(dom(c.a(3))))] } else { vec![] };
            cl.push(Merge(PathPat::node(np("n", vec![label1(c.a(0))], vec![("v", Expr::Lit(dom(c.a(1) % 4)))])), oc, om));
            ret = vec![rprop("n", "k")];
        }
        "unwind_merge" => {
            // duplicate keys inside one UNWIND, existing and new keys mixed
            let l = label1(c.a(0));
            let n = 2 + c.a(1) % 3;
            let fresh = c.fresh();
            let with_label: Vec<i64> = c.keys().into_iter().filter(|k| c.labels_of_key(*k).contains(&l)).collect();
            let mut ks: Vec<V> = Vec::new();
            for i in 0..n {
                let r = c.a(2 + i as usize);
                if r % 2 == 0 || with_label.is_empty() { ks.push(V::I(fresh)) } else { ks.push(V::I(with_label[(r / 2) as usize % with_label.len()])) }
            }
            let oc = if c.a(6) % 3 != 0 { vec![SetItem::Prop("n".into(), "v".into(), li(1))] } else { vec![] };
            let om = if c.a(7) % 3 != 0 { vec![SetItem::Prop("n".into(), "v".into(), li(2))] } else { vec![] };
            cl.push(Unwind(ks, "x".into()));
            cl.push(Merge(PathPat::node(np("n", vec![l], vec![("k", Expr::Var("x".into()))])), oc, om));
            ret = vec![rprop("n", "k"), RetItem::Val("x".into())];
        }
        "merge_rel" | "merge_rel_props" => {
            let (ka, kb) = (c.key(0), c.key(1));
            let pr = if t == "merge_rel_props" { vec![("w", Expr::Lit(dom(c.a(7) % 3)))] } else { vec![] };
            let oc = if c.a(3) % 2 == 0 { vec![SetItem::Prop("r".into(), "v".into(), Expr::Lit(dom(c.a(4))))] } else { vec![] };
            let om = if c.a(5) % 2 == 0 { vec![SetItem::Prop("r".into(), "v".into(), Expr::Lit(dom(c.a(6))))] } else { vec![] };
            cl.push(Match(vec![PathPat::node(kp("a", ka)), PathPat::node(kp("b", kb))]));
            cl.push(Merge(path(np("a", vec![], vec![]), vec![(rp("r", Some(ty(c.a(2))), pr, true), np("b", vec![], vec![]))]), oc, om));
            ret = vec![rprop("a", "k"), RetItem::Type("r".into()), rprop("b", "k")];
        }
        "match_create_parallel_rel" => {
            // one or two more relationships between the ends of an existing one (same type as a
            // rule), so that a pair ends up with several parallel relationships that differ in `w`
            let rels = c.rels();
            if rels.is_empty() {
                return None;
            }
            let (ka, kb, t0, _) = rels[c.a(0) as usize % rels.len()].clone();
            let t1 = if c.a(1) % 4 == 0 { ty(c.a(1) / 4) } else { t0 };
            let p1 = if c.a(5) % 3 == 0 { vec![] } else { vec![("w", Expr::Lit(dom(c.a(2))))] };
            let two = c.a(4) % 2 == 1;
            // (a relationship variable of a two-pattern CREATE is not visible to RETURN today: an
            // engine refusal, which would only be counted — the two-pattern form returns the ends)
            let mut pats = vec![path(np("a", vec![], vec![]), vec![(rp(if two { "" } else { "r" }, Some(t1.clone()), p1, true), np("b", vec![], vec![]))])];
            if two {
                pats.push(path(np("a", vec![], vec![]), vec![(rp("", Some(t1), vec![("w", Expr::Lit(dom(c.a(3))))], true), np("b", vec![], vec![]))]));
            }
            cl.push(Match(vec![PathPat::node(kp("a", ka)), PathPat::node(kp("b", kb))]));
            cl.push(Create(pats));
            ret = if two { vec![rprop("a", "k"), rprop("b", "k")] } else { vec![rprop("a", "k"), RetItem::Type("r".into()), rprop("r", "w"), rprop("b", "k")] };
        }
        "merge_rel_existing" | "merge_rel_existing_incoming" => {
            // MERGE between the ends of an existing relationship, keyed on that relationship's own
            // properties (it must be found, whichever of several parallel ones it is), on another
            // value of `w`, or on nothing
            let rels = c.rels();
            if rels.is_empty() {
                return None;
            }
            // three in four picks go to a relationship that has a parallel sibling (same ends and type), if any
            let sib: Vec<usize> = (0..rels.len()).filter(|i| rels.iter().filter(|o| (o.0, o.1, &o.2) == (rels[*i].0, rels[*i].1, &rels[*i].2)).count() >= 2).collect();
            let pick = if c.a(8) % 4 != 0 && !sib.is_empty() { sib[c.a(0) as usize % sib.len()] } else { c.a(0) as usize % rels.len() };
            let (ka, kb, t0, props) = rels[pick].clone();
            let own = |key: &'static str| props.get(key).map(|cv| (key, Expr::Lit(V::from_canon(cv))));
            let pr: Vec<(&str, Expr)> = match c.a(1) % 5 {
                0 | 1 => own("w").into_iter().collect(),
                2 => own("w").into_iter().chain(own("v")).collect(),
                3 => vec![("w", Expr::Lit(dom(c.a(2))))],
                _ => vec![],
            };
            let t1 = if c.a(3) % 8 == 0 { ty(c.a(3) / 8) } else { t0 };
            let oc = if c.a(4) % 2 == 0 { vec![SetItem::Prop("r".into(), "v".into(), Expr::Lit(dom(c.a(5))))] } else { vec![] };
            let om = if c.a(6) % 3 == 0 { vec![SetItem::Prop("r".into(), "v".into(), Expr::Lit(dom(c.a(7))))] } else { vec![] };
            cl.push(Match(vec![PathPat::node(kp("a", ka)), PathPat::node(kp("b", kb))]));
            if t == "merge_rel_existing_incoming" {
                // the same relationship written from its target: `(b)<-[r:T {..}]-(a)`
                cl.push(Merge(path(np("b", vec![], vec![]), vec![(rp("r", Some(t1), pr, false), np("a", vec![], vec![]))]), oc, om));
            } else {
                cl.push(Merge(path(np("a", vec![], vec![]), vec![(rp("r", Some(t1), pr, true), np("b", vec![], vec![]))]), oc, om));
            }
            ret = vec![rprop("a", "k"), RetItem::Type("r".into()), rprop("r", "w"), rprop("b", "k")];
        }
        "delete_parallel_rel" => {
            // DELETE of ONE particular relationship, singled out by its own type and property map —
            // as a rule one that has parallel siblings between the same ordered pair (any of them, not
            // just the first or last created); the siblings must survive, and nothing of the deleted one
            // may (its id is handed to the next relationship created anywhere)
            let rels = c.rels();
            if rels.is_empty() {
                return None;
            }
            let sib: Vec<usize> = (0..rels.len()).filter(|i| rels.iter().filter(|o| (o.0, o.1) == (rels[*i].0, rels[*i].1)).count() >= 2).collect();
            let pick = if c.a(8) % 4 != 0 && !sib.is_empty() { sib[c.a(0) as usize % sib.len()] } else { c.a(0) as usize % rels.len() };
            let (ka, kb, t0, props) = rels[pick].clone();
            let own = |key: &'static str| props.get(key).map(|cv| (key, Expr::Lit(V::from_canon(cv))));
            let pr: Vec<(&str, Expr)> = own("w").into_iter().chain(own("v")).collect();
            let t1 = if c.a(1) % 4 == 3 { None } else { Some(t0) };
            if c.a(2) % 4 == 0 {
                cl.push(Match(vec![path(kp("b", kb), vec![(rp("r", t1, pr, false), kp("a", ka))])]));
            } else {
                cl.push(Match(vec![path(kp("a", ka), vec![(rp("r", t1, pr, true), kp("b", kb))])]));
            }
            cl.push(Delete(vec!["r".into()], false));
            ret = vec![rprop("a", "k"), rprop("b", "k")];
        }
        "revisit_set_rel_prop" => {
            // every relationship leaving (or entering) a node that lost one earlier, whatever its type
            let ka = c.revisit_key(0);
            let t0 = if c.a(1) % 3 == 0 { Some(ty(c.a(1) / 3)) } else { None };
            cl.push(Match(vec![path(kp("a", ka), vec![(rp("r", t0, vec![], c.a(2) % 2 == 0), np("b", vec![], vec![]))])]));
            cl.push(Set(vec![SetItem::Prop("r".into(), "v".into(), Expr::Lit(dom(c.a(3))))]));
            ret = vec![rprop("a", "k"), RetItem::Type("r".into()), rprop("r", "w"), rprop("b", "k")];
        }
        "revisit_detach_delete" => {
            let k = c.revisit_key(0);
            cl.push(Match(vec![PathPat::node(kp("n", k))]));
            cl.push(Delete(vec!["n".into()], true));
        }
        "revisit_delete_node" => {
            let k = c.revisit_key(0);
            cl.push(Match(vec![PathPat::node(kp("n", k))]));
            cl.push(Delete(vec!["n".into()], false));
        }
        "merge_rel_scan" => {
            let kb = c.key(1);
            cl.push(Match(vec![PathPat::node(np("a", vec![label1(c.a(0))], vec![])), PathPat::node(kp("b", kb))]));
            cl.push(Merge(path(np("a", vec![], vec![]), vec![(rp("r", Some(ty(c.a(2))), vec![], true), np("b", vec![], vec![]))]), vec![], vec![]));
            ret = vec![rprop("a", "k"), rprop("b", "k")];
        }
        "merge_path_full" => {
            // whole-pattern MERGE over rows: the first row creates what the second must match
            let (k1, k2) = (c.fresh(), c.fresh());
            let n = 1 + c.a(0) % 2;
            cl.push(Unwind((0..=n).map(|i| V::I(i as i64)).collect(), "i".into()));
            cl.push(Merge(path(np("a", vec![label1(c.a(1))], vec![("k", li(k1))]), vec![(rp("r", Some(ty(c.a(2))), vec![], true), np("b", vec![label1(c.a(3))], vec![("k", li(k2))]))]), vec![], vec![]));
            ret = vec![rprop("a", "k"), rprop("b", "k"), RetItem::Val("i".into())];
        }
        "set_literal" => {
            let k = c.key(0);
            let mut items = vec![SetItem::Prop("n".into(), "v".into(), Expr::Lit(dom(c.a(1))))];
            if c.a(2) % 3 == 0 {
                items.push(SetItem::Prop("n".into(), "w".into(), Expr::Lit(dom(c.a(3)))));
            }
            cl.push(Match(vec![PathPat::node(kp("n", k))]));
            cl.push(Set(items));
            ret = vec![rprop("n", "k"), rprop("n", "v"), rprop("n", "w")];
        }
        "set_scan" => {
            cl.push(Match(vec![PathPat::node(np("n", vec![label1(c.a(0))], vec![]))]));
            cl.push(Set(vec![SetItem::Prop("n".into(), if c.a(1) % 2 == 0 { "v" } else { "w" }.into(), Expr::Lit(dom(c.a(2))))]));
            ret = if c.a(3) % 2 == 0 { vec![RetItem::CountStar] } else { vec![rprop("n", "k"), rprop("n", "v")] };
        }
        "set_from_other" => {
            // reads the other variable's pre-statement value (one row: both ends by unique key)
            let (ka, kb) = (c.key(0), c.key(1));
            let (dst, src) = if c.a(2) % 2 == 0 { ("v", "w") } else { ("v", "v") };
            cl.push(Match(vec![PathPat::node(kp("a", ka)), PathPat::node(kp("b", kb))]));
            cl.push(Set(vec![SetItem::Prop("a".into(), dst.into(), Expr::Prop("b".into(), src.into()))]));
            ret = vec![rprop("a", "k"), rprop("a", "v"), rprop("b", "k")];
        }
        "set_plus_map" => {
            let k = c.key(0);
            cl.push(Match(vec![PathPat::node(kp("n", k))]));
            cl.push(Set(vec![SetItem::MapMerge("n".into(), vec![("v".into(), Expr::Lit(dom(c.a(1)))), ("w".into(), Expr::Lit(dom(c.a(2))))])]));
            ret = vec![rprop("n", "k"), rprop("n", "v"), rprop("n", "w")];
        }
        "set_null" => {
            let k = c.key(0);
            cl.push(Match(vec![PathPat::node(kp("n", k))]));
            cl.push(Set(vec![SetItem::Prop("n".into(), if c.a(1) % 2 == 0 { "v" } else { "w" }.into(), Expr::Lit(V::Null))]));
            ret = vec![rprop("n", "k"), rprop("n", "v"), rprop("n", "w")];
        }
        "set_rel_prop" => {
            let ka = c.key(0);
            cl.push(Match(vec![path(kp("a", ka), vec![(rp("r", Some(ty(c.a(1))), vec![], c.a(2) % 2 == 0), np("b", vec![], vec![]))])]));
            cl.push(Set(vec![SetItem::Prop("r".into(), "w".into(), Expr::Lit(dom(c.a(3))))]));
            ret = vec![rprop("a", "k"), rprop("b", "k"), rprop("r", "w")];
        }
        "remove_prop" => {
            let k = c.key(0);
            let mut items = vec![RemItem::Prop("n".into(), if c.a(1) % 2 == 0 { "v" } else { "w" }.into())];
            if c.a(2) % 3 == 0 {
                items = vec![RemItem::Prop("n".into(), "v".into()), RemItem::Prop("n".into(), "w".into())];
            }
            cl.push(Match(vec![PathPat::node(kp("n", k))]));
            cl.push(Remove(items));
            ret = vec![rprop("n", "k"), rprop("n", "v"), rprop("n", "w")];
        }
        "remove_prop_scan" => {
            cl.push(Match(vec![PathPat::node(np("n", vec![label1(c.a(0))], vec![]))]));
            cl.push(Remove(vec![RemItem::Prop("n".into(), if c.a(1) % 2 == 0 { "v" } else { "w" }.into())]));
            ret = vec![rprop("n", "k")];
        }
        "remove_label" => {
            let k = c.key(0);
            cl.push(Match(vec![PathPat::node(kp("n", k))]));
            cl.push(Remove(vec![RemItem::Label("n".into(), label1(c.a(1)))]));
            ret = vec![rprop("n", "k"), RetItem::Labels("n".into())];
        }
        "remove_label_scan" => {
            let l = label1(c.a(0));
            cl.push(Match(vec![PathPat::node(np("n", vec![l.clone()], vec![]))]));
            cl.push(Remove(vec![RemItem::Label("n".into(), if c.a(1) % 2 == 0 { l } else { label1(c.a(2)) })]));
            ret = vec![rprop("n", "k")];
        }
        "set_label" => {
            let k = c.key(0);
            cl.push(Match(vec![PathPat::node(kp("n", k))]));
            let ls = if c.a(1) % 3 == 0 { vec!["A".to_string(), "B".to_string()] } else { vec![label1(c.a(2))] };
            cl.push(Set(vec![SetItem::Labels("n".into(), ls)]));
            ret = vec![rprop("n", "k"), RetItem::Labels("n".into())];
        }
        "delete_rel" => {
            let ka = c.key(0);
            let t0 = if c.a(3) % 4 == 0 { None } else { Some(ty(c.a(1))) };
            cl.push(Match(vec![path(kp("a", ka), vec![(rp("r", t0, vec![], c.a(2) % 2 == 0), np("b", vec![], vec![]))])]));
            cl.push(Delete(vec!["r".into()], false));
            ret = vec![rprop("a", "k"), rprop("b", "k")];
        }
        "delete_rel_scan" => {
            cl.push(Match(vec![path(np("a", vec![], vec![]), vec![(rp("r", Some(ty(c.a(0))), vec![], true), np("b", vec![], vec![]))])]));
            cl.push(Delete(vec!["r".into()], false));
            ret = vec![RetItem::CountStar];
        }
        "delete_node" => {
            let k = c.key(0);
            cl.push(Match(vec![PathPat::node(kp("n", k))]));
            cl.push(Delete(vec!["n".into()], false));
        }
        "delete_node_scan" => {
            cl.push(Match(vec![PathPat::node(np("n", vec![label1(c.a(0))], vec![]))]));
            cl.push(Delete(vec!["n".into()], false));
        }
        "delete_node_and_rel" => {
            let ka = c.key(0);
            cl.push(Match(vec![path(kp("a", ka), vec![(rp("r", None, vec![], c.a(1) % 2 == 0), np("b", vec![], vec![]))])]));
            cl.push(Delete(if c.a(2) % 2 == 0 { vec!["r".into(), "a".into()] } else { vec!["a".into(), "r".into()] }, false));
        }
        "detach_delete" => {
            let k = c.key(0);
            cl.push(Match(vec![PathPat::node(kp("n", k))]));
            cl.push(Delete(vec!["n".into()], true));
        }
        "detach_delete_scan" => {
            cl.push(Match(vec![PathPat::node(np("n", vec![label1(c.a(0))], vec![]))]));
            cl.push(Delete(vec!["n".into()], true));
        }
        "pipe_set_with_delete_rel" => {
            let k = c.key(0);
            cl.push(Match(vec![PathPat::node(kp("n", k))]));
            cl.push(Set(vec![SetItem::Prop("n".into(), "v".into(), Expr::Lit(dom(c.a(1))))]));
            cl.push(With(vec!["n".into()]));
            cl.push(Match(vec![path(np("n", vec![], vec![]), vec![(rp("r", Some(ty(c.a(2))), vec![], true), np("m", vec![], vec![]))])]));
            cl.push(Delete(vec!["r".into()], false));
            ret = vec![rprop("n", "k"), rprop("n", "v"), rprop("m", "k")];
        }
        "pipe_create_with_match_create" => {
            let k = c.fresh();
            let kb = c.key(0);
            cl.push(Create(vec![PathPat::node(np("a", labels(c.a(1)), c.with_k(k, vec![])))]));
            cl.push(With(vec!["a".into()]));
            cl.push(Match(vec![PathPat::node(kp("b", kb))]));
            cl.push(Create(vec![path(np("a", vec![], vec![]), vec![(rp("", Some(ty(c.a(2))), vec![], true), np("b", vec![], vec![]))])]));
            ret = vec![rprop("a", "k"), rprop("b", "k")];
        }
        "pipe_merge_with_set" => {
            let l = label1(c.a(0));
            let (k1, k2) = (c.fresh(), c.fresh());
            let ks = if c.a(1) % 2 == 0 { vec![V::I(k1), V::I(k2)] } else { vec![V::I(k1), V::I(k1)] };
            cl.push(Unwind(ks, "x".into()));
            cl.push(Merge(PathPat::node(np("n", vec![l], vec![("k", Expr::Var("x".into()))])), vec![], vec![]));
            cl.push(With(vec!["n".into()]));
            cl.push(Set(vec![SetItem::Prop("n".into(), "w".into(), Expr::Lit(dom(c.a(2))))]));
            ret = vec![rprop("n", "k")];
        }
        "pipe_match_with_merge_rel" => {
            // MERGE with one bound and one unbound end
            let ka = c.key(0);
            let existing_b = c.a(1) % 2 == 0 && !c.keys().is_empty();
            let kb = if existing_b { c.key(2) } else { c.fresh() };
            let lb = if existing_b { c.labels_of_key(kb).first().cloned().unwrap_or_else(|| label1(c.a(3))) } else { label1(c.a(3)) };
            cl.push(Match(vec![PathPat::node(kp("a", ka))]));
            cl.push(With(vec!["a".into()]));
            cl.push(Merge(path(np("a", vec![], vec![]), vec![(rp("", Some(ty(c.a(4))), vec![], true), np("b", vec![lb], vec![("k", li(kb))]))]), vec![], vec![]));
            ret = vec![rprop("a", "k"), rprop("b", "k")];
        }
        "pipe_create_with_set" => {
            let (ka, kb) = (c.key(0), c.key(1));
            cl.push(Match(vec![PathPat::node(kp("a", ka)), PathPat::node(kp("b", kb))]));
            cl.push(Create(vec![path(np("a", vec![], vec![]), vec![(rp("", Some(ty(c.a(2))), vec![], true), np("b", vec![], vec![]))])]));
            cl.push(With(vec!["a".into(), "b".into()]));
            cl.push(Set(vec![SetItem::Prop("a".into(), "w".into(), Expr::Lit(dom(c.a(3)))), SetItem::Prop("b".into(), "w".into(), Expr::Lit(dom(c.a(3))))]));
            ret = vec![rprop("a", "k"), rprop("b", "k")];
        }
        _ => return None,
    }
    if c.ret && !ret.is_empty() {
        cl.push(Return(ret));
    }
    Some(Stmt { clauses: cl })
}

// ---------------------------------------------------------------------------------
// result rows

fn pv_cell(p: &PropertyValue) -> String {
    match p {
        PropertyValue::Null => "N".into(),
        PropertyValue::Array(xs) => {
            let mut c: Vec<String> = xs.iter().map(pv_cell).collect();
            c.sort();
            format!("A:[{}]", c.join(","))
        }
        other => pv_canon(other),
    }
}

fn qv_cell(v: &QV) -> String {
    match v {
        QV::Property(p) => pv_cell(p),
        QV::Null => "N".into(),
        QV::List(xs) => {
            let mut c: Vec<String> = xs.iter().map(qv_cell).collect();
            c.sort();
            format!("A:[{}]", c.join(","))
        }
        other => format!("{other:?}"),
    }
}

fn batch_rows(b: &RecordBatch) -> Vec<String> {
    let mut rows: Vec<String> = b.records.iter().map(|r| b.columns.iter().map(|c| r.get(c).map(qv_cell).unwrap_or_else(|| "<unbound>".into())).collect::<Vec<_>>().join(" | ")).collect();
    rows.sort();
    rows
}

/// What the RESP reply can still tell apart: integers, text, null, lists.
fn lossy(cell: &str) -> String {
    if cell == "N" {
        return "null".into();
    }
    if let Some(rest) = cell.strip_prefix("A:[") {
        let _ = rest;
        return "<list>".into();
    }
    match V::from_canon(cell) {
        V::I(i) => format!("i:{i}"),
        V::S(s) => format!("s:{s}"),
        V::B(b) => format!("s:{b}"),
        V::F(f) => format!("s:{f}"),
        V::Null => format!("?:{cell}"),
    }
}

fn resp_cell(v: &RespValue) -> String {
    match v {
        RespValue::Integer(i) => format!("i:{i}"),
        RespValue::BulkString(Some(b)) => {
            // how the reply spells nulls and lists is the RESP encoder's business (C22/C23)
            let t = String::from_utf8_lossy(b);
            if t == "Null" {
                "null".into()
            } else if t.starts_with("Array(") {
                "<list>".into()
            } else {
                format!("s:{t}")
            }
        }
        RespValue::BulkString(None) | RespValue::Null => "null".into(),
        RespValue::SimpleString(s) => format!("s:{s}"),
        RespValue::Error(e) => format!("err:{e}"),
        RespValue::Array(_) => "<list>".into(),
    }
}

enum Reply {
    Rows(Vec<String>),
    Err(String),
    Panic(String),
}

/// `focus` (knob, a third of the runs): histories shaped like the life cycle of a relationship id —
/// build parallel relationships, delete one of them, create relationships (the freed id is handed out
/// again), come back to the ends of the deleted one.  `prev` = the two templates drawn before this one.
fn gen_event(r: &mut Rng, clients: u64, focus: bool, prev: (&str, &str)) -> Value {
    let w: Vec<u32> = TEMPLATES.iter().map(|t| t.1).collect();
    // (all draws are made in every mode, so the stream stays aligned)
    let mut t = TEMPLATES[r.weighted(&w)].0;
    let (follow, which) = (r.below(6), r.below(12) as usize);
    if focus {
        let (before, last) = prev;
        if last == "delete_parallel_rel" {
            if follow < 4 {
                t = REL_CREATORS[which % 3];
            }
        } else if REL_CREATORS.contains(&last) && before == "delete_parallel_rel" {
            if follow < 4 {
                t = REVISITS[which % 3];
            }
        } else if last == "match_create_parallel_rel" {
            if follow < 4 {
                t = "delete_parallel_rel";
            } else if follow == 4 {
                t = "match_create_parallel_rel";
            }
        } else if REL_CREATORS.contains(&last) && follow < 3 {
            t = "match_create_parallel_rel";
        }
    }
    let x: Vec<u64> = (0..10).map(|_| r.below(64)).collect();
    json!({"op":"stmt","t":t,"client":r.below(clients),"x":x,"ret":r.chance(2,3)})
}

/// Keys of the ends of relationships that `pre` has and `post` has not (by id and content).
fn lost_rel_ends(pre: &crate::kit::dump::Dump, post: &crate::kit::dump::Dump, into: &mut Vec<i64>) {
    for (id, e) in &pre.edges {
        if post.edges.get(id) == Some(e) {
            continue;
        }
        for end in [e.src, e.dst] {
            if let Some(V::I(k)) = pre.nodes.get(&end).and_then(|n| n.props.get("k")).map(|c| V::from_canon(c)) {
                into.retain(|x| *x != k);
                into.push(k);
            }
        }
    }
}

/// For `MATCH (a {k: ..}), (b {k: ..}) MERGE (a)-[r:T {map}]->(b)` with a non-empty map: how many
/// relationships of that type run between the two bound ends in `m`, how many of them carry the
/// map, and whether the oldest one does.
fn merge_rel_among_parallel(m: &ModelGraph, st: &Stmt) -> Option<(usize, usize, bool)> {
    let mut bound: std::collections::BTreeMap<String, u64> = Default::default();
    for c in &st.clauses {
        match c {
            Clause::Match(pats) => {
                for p in pats {
                    if let (true, Some(v), Some((_, Expr::Lit(kv)))) = (p.hops.is_empty(), &p.start.var, p.start.props.iter().find(|(k, _)| k == "k")) {
                        let want = kv.canon();
                        if let Some((id, _)) = m.d.nodes.iter().find(|(_, n)| want.is_some() && n.props.get("k") == want.as_ref()) {
                            bound.insert(v.clone(), *id);
                        }
                    }
                }
            }
            Clause::Merge(p, _, _) if p.hops.len() == 1 => {
                let (r, n) = &p.hops[0];
                let (a, b) = (bound.get(p.start.var.as_ref()?)?, bound.get(n.var.as_ref()?)?);
                let (src, dst) = if r.out { (*a, *b) } else { (*b, *a) };
                if r.props.is_empty() {
                    return None;
                }
                let carries = |e: &crate::kit::dump::GEdge| r.props.iter().all(|(k, ex)| matches!(ex, Expr::Lit(v) if v.canon().is_some() && e.props.get(k) == v.canon().as_ref()));
                let par: Vec<&crate::kit::dump::GEdge> = m.d.edges.values().filter(|e| e.src == src && e.dst == dst && Some(&e.ty) == r.ty.as_ref()).collect();
                return Some((par.len(), par.iter().filter(|e| carries(e)).count(), par.first().map_or(false, |e| carries(e))));
            }
            _ => {}
        }
    }
    None
}

/// Node ids (in `m`) bound by the single keyed node pattern `MATCH (n {k: ..})` that starts the statement.
fn match_start(m: &ModelGraph, st: &Stmt) -> Vec<u64> {
    if let Some(Clause::Match(pats)) = st.clauses.first() {
        if let Some(p) = pats.first() {
            if let Some((_, Expr::Lit(kv))) = p.start.props.iter().find(|(k, _)| k == "k") {
                let want = kv.canon();
                return m.d.nodes.iter().filter(|(_, n)| want.is_some() && n.props.get("k") == want.as_ref()).map(|(id, _)| *id).collect();
            }
        }
    }
    Vec::new()
}

/// Node ids (in `m`) that a `MATCH (n {k: ..}) DELETE n` / `MATCH (n:L) DELETE n` statement deletes: the nodes its
/// single node pattern matches.  Empty for any other statement shape.
fn delete_targets(m: &ModelGraph, st: &Stmt) -> Vec<u64> {
    match (st.clauses.first(), st.clauses.get(1)) {
        (Some(Clause::Match(pats)), Some(Clause::Delete(vars, _))) if pats.len() == 1 && pats[0].hops.is_empty() && vars.len() == 1 && pats[0].start.var.as_ref() == Some(&vars[0]) => {
            let p = &pats[0].start;
            m.d.nodes
                .iter()
                .filter(|(_, n)| p.labels.iter().all(|l| n.labels.contains(l)) && p.props.iter().all(|(k, e)| matches!(e, Expr::Lit(v) if v.canon().is_some() && n.props.get(k) == v.canon().as_ref())))
                .map(|(id, _)| *id)
                .collect()
        }
        _ => Vec::new(),
    }
}

/// Which part of the graph differs: computed from the two dumps only.
fn diff_class(real: &crate::kit::dump::Dump, model: &crate::kit::dump::Dump) -> (&'static str, String) {
    let nodes = |d: &crate::kit::dump::Dump| {
        let mut v: Vec<String> = d.nodes.values().map(|n| format!("{:?}{:?}", n.labels, n.props)).collect();
        v.sort();
        v
    };
    let (rn, mn) = (nodes(real), nodes(model));
    if rn != mn {
        let extra: Vec<&String> = rn.iter().filter(|x| !mn.contains(x)).collect();
        let missing: Vec<&String> = mn.iter().filter(|x| !rn.contains(x)).collect();
        let class = if rn.len() > mn.len() {
            "extra_node"
        } else if rn.len() < mn.len() {
            "missing_node"
        } else {
            // same number of nodes: labels or properties of some node differ
            let key = |s: &String| s.split("\"k\": ").nth(1).map(|x| x.split(|c| c == ',' || c == '}').next().unwrap_or("").to_string());
            let labels_differ = extra.iter().any(|e| missing.iter().any(|m| key(e) == key(m) && e.split('}').next() != m.split('}').next()));
            if labels_differ { "node_labels" } else { "node_properties" }
        };
        return (class, format!("store has {:?}, model has {:?}", extra, missing));
    }
    let edges = |d: &crate::kit::dump::Dump| {
        let mut v: Vec<(String, String)> = d
            .edges
            .values()
            .map(|e| {
                let end = |id: u64| d.nodes.get(&id).map(|n| format!("{:?}{:?}", n.labels, n.props)).unwrap_or_else(|| "DANGLING".into());
                (format!("{}-[{}]->{}", end(e.src), e.ty, end(e.dst)), format!("{:?}", e.props))
            })
            .collect();
        v.sort();
        v
    };
    let (re, me) = (edges(real), edges(model));
    let shape = |v: &Vec<(String, String)>| v.iter().map(|x| x.0.clone()).collect::<Vec<_>>();
    if shape(&re) != shape(&me) {
        let class = if re.len() > me.len() { "extra_relationship" } else if re.len() < me.len() { "missing_relationship" } else { "relationship_endpoints_or_type" };
        let extra: Vec<&(String, String)> = re.iter().filter(|x| !me.contains(x)).collect();
        let missing: Vec<&(String, String)> = me.iter().filter(|x| !re.contains(x)).collect();
        return (class, format!("store has {:?}, model has {:?}", extra, missing));
    }
    if re != me {
        return ("relationship_properties", format!("store {:?} model {:?}", re, me));
    }
    ("isomorphism", "same node and relationship multisets, different wiring".into())
}

impl Scenario for C04 {
    fn id(&self) -> &'static str {
        "C04"
    }
    fn runs(&self, tier: Tier) -> u64 {
        match tier {
            Tier::Quick => 12_000,
            Tier::Thorough => 300_000,
        }
    }
    fn stack_mb(&self) -> usize {
        16
    }
    fn rule(&self) -> &'static str {
        "history = <=14 statements, each an instance of one of 48 templates (CREATE node/path/two/chain, MATCH..CREATE rel, UNWIND CREATE, MERGE node by key / other label / no label / non-unique property, UNWIND MERGE with duplicate keys, MERGE rel / whole path over rows, further relationships parallel to an existing one (differing in w) and MERGE rel keyed on an existing relationship's own property map (written from either end), DELETE of one particular relationship among parallel ones (keyed on its own type and property map, written from either end), revisits of nodes that lost a relationship earlier (SET over all their relationships, DETACH DELETE, plain DELETE), SET literal / scan / from other variable / += map / null / rel property, REMOVE property/label, SET label, DELETE rel / node / node+rel, DETACH DELETE, five WITH pipelines) over labels A,B, types T,U, keys k,v,w, 8 values; 1-3 clients interleaved by pre-drawn picks; entry point = engine or RESP handler (knob); a third of the histories (knob focus) are biased to the sequence parallel relationships -> delete one -> create relationships (id reuse) -> revisit the old ends. Non-trivial = at least 3 statements executed and compared, including one that matched existing data and wrote. Distinct = hash of the sequence of (template, clause shape) of the statements that ran."
    }
    fn real_components(&self) -> Vec<&'static str> {
        vec!["samyama::query::QueryEngine (parser, AST cache, planner, MutQueryExecutor, all write operators)", "GraphStore", "protocol::command::CommandHandler::handle_command + tokio::sync::RwLock (RESP runs)"]
    }
    fn stub_components(&self) -> Vec<&'static str> {
        vec!["no sockets: RESP runs call handle_command with a RespValue array, polled by the kit's executor"]
    }
    fn assumptions(&self) -> Vec<&'static str> {
        vec![
            "claimed for the templated fragment only; the reference model (kit::cymodel) is correct for it",
            "engine refusals (Err where the model accepts) are counted, never alarmed; after one the model is re-synchronised from the store. One exception: `MATCH (n ..) DELETE n` refused with the 'still has relationship(s)' error although none of the nodes it deletes has a relationship (the property allows that refusal for connected nodes only)",
            "rows are not compared where openCypher 9 leaves them row-order dependent (RETURN of a property that another row of the same statement wrote, reads of deleted entities); effects are not compared where two rows of one SET write different values to one property (the run stops there)",
            "`SET a.v = b.v, b.v = a.v` style items whose reads and writes overlap inside one SET clause are not generated (sequential vs. atomic evaluation is not settled by openCypher 9)",
            "through RESP, cells are compared as far as the reply encodes them (integers exact; strings, booleans and floats by text; lists unordered)",
            "a RESP statement that the handler classifies as a read (no CREATE/SET/DELETE/MERGE keyword, e.g. MATCH..REMOVE) is a refusal of the server path — C23's subject — and is only counted",
        ]
    }
    fn required_probes(&self, _tier: Tier) -> Vec<&'static str> {
        vec![
            "merge_matched",
            "merge_created",
            "merge_saw_row_created_earlier",
            "delete_connected_node_attempted",
            "multi_row_write",
            "statement_ran_after_other_client_changed_target",
            "resp_statement",
            "rows_compared",
            "merge_rel_keyed_among_parallel_rels",
            "merge_rel_keyed_on_a_later_parallel_rel",
            "merge_rel_keyed_on_the_oldest_parallel_rel",
            "merge_rel_keyed_on_none_of_the_parallel_rels",
            "deleted_one_of_several_parallel_rels",
            "deleted_a_middle_one_of_parallel_rels",
            "created_rel_reused_a_freed_id",
            "revisited_end_of_deleted_rel_after_its_id_was_reused",
        ]
    }
    fn generate(&self, s: &mut Streams, _run_index: u64, _tier: Tier) -> Case {
        let mut case = Case::new("C04");
        let clients = 1 + s.knobs.below(3);
        case.knobs.insert("clients".into(), json!(clients));
        case.knobs.insert("path".into(), json!(if s.knobs.chance(3, 10) { "resp" } else { "engine" }));
        case.knobs.insert("width".into(), json!(1 + s.knobs.below(clients)));
        // constructs known to be wrong today are kept out of part of the runs so that the
        // rest of the oracle keeps running behind them
        case.knobs.insert("avoid".into(), json!(s.knobs.below(4)));
        case.knobs.insert("sched".into(), json!((0..24).map(|_| s.sched.below(6)).collect::<Vec<_>>()));
        let n = s.knobs.short_len(3, 14);
        let focus = s.knobs.chance(1, 3);
        case.knobs.insert("focus".into(), json!(focus));
        let n = if focus { n.max(5) } else { n };
        let mut prev: (String, String) = (String::new(), String::new());
        for _ in 0..n {
            let ev = gen_event(&mut s.workload, clients, focus, (&prev.0, &prev.1));
            prev = (prev.1, ev["t"].as_str().unwrap_or("").to_string());
            case.events.push(ev);
        }
        case
    }
    fn shrink_event(&self, ev: &Value) -> Vec<Value> {
        let mut out = Vec::new();
        if ev["ret"].as_bool() == Some(true) {
            let mut e = ev.clone();
            e["ret"] = json!(false);
            out.push(e);
        }
        if u(ev, "client") != 0 {
            let mut e = ev.clone();
            e["client"] = json!(0);
            out.push(e);
        }
        if let Some(x) = ev["x"].as_array() {
            for i in 0..x.len() {
                if x[i].as_u64().unwrap_or(0) > 1 {
                    let mut e = ev.clone();
                    e["x"][i] = json!(x[i].as_u64().unwrap_or(0) % 2);
                    out.push(e);
                }
            }
        }
        out
    }
    fn execute(&self, case: &Case) -> Outcome {
        let mut o = Outcome::new();
        let resp = case.knob_str("path", "engine") == "resp";
        let clients = case.knob_u64("clients", 1).clamp(1, 3) as usize;
        let width = case.knob_u64("width", 1).clamp(1, 3) as usize;
        let avoid = case.knob_u64("avoid", 0);
        let sched: Vec<u64> = case.knobs.get("sched").and_then(|v| v.as_array()).map(|a| a.iter().map(|x| x.as_u64().unwrap_or(0)).collect()).unwrap_or_else(|| vec![0]);
        let eng = QueryEngine::new();
        let handler = CommandHandler::new(None);
        let store = Arc::new(tokio::sync::RwLock::new(GraphStore::new()));
        let mut m = ModelGraph::default();
        m.next_node = 1;
        m.next_edge = 1;
        let mut next_k: i64 = 1;
        // keys of nodes that lost a relationship in an earlier statement (what the `revisit_*` templates go back to)
        let mut lost: Vec<i64> = Vec::new();
        // relationship ids that are free at the moment / that were freed and handed out again (probes only)
        let mut freed_rel_ids: BTreeSet<u64> = BTreeSet::new();
        let mut freed_reused: BTreeSet<u64> = BTreeSet::new();
        // per-client queues of event indices
        let mut queues: Vec<Vec<usize>> = vec![Vec::new(); clients];
        for (i, ev) in case.events.iter().enumerate() {
            if op(ev) == "stmt" {
                queues[(u(ev, "client") as usize) % clients].push(i);
            }
        }
        let mut heads = vec![0usize; clients];
        // pending: (client, event index, statement, model version it was rendered against)
        let mut pending: Vec<(usize, usize, Stmt, u64)> = Vec::new();
        let mut version: u64 = 0;
        let mut step = 0usize;
        let mut shapes: Vec<String> = Vec::new();
        let mut compared = 0;
        let mut matched_and_wrote = false;
        'outer: loop {
            // fill the pending set: at most one statement per client, `width` in flight
            for cidx in 0..clients {
                if pending.len() >= width {
                    break;
                }
                if pending.iter().any(|p| p.0 == cidx) {
                    continue;
                }
                while heads[cidx] < queues[cidx].len() {
                    let ei = queues[cidx][heads[cidx]];
                    heads[cidx] += 1;
                    let ev = &case.events[ei];
                    let t = s(ev, "t").to_string();
                    let x: Vec<u64> = ev["x"].as_array().map(|a| a.iter().map(|v| v.as_u64().unwrap_or(0)).collect()).unwrap_or_default();
                    let mut ctx = Ctx { m: &m, next_k: &mut next_k, x, ret: ev["ret"].as_bool().unwrap_or(false), lost: &lost };
                    // avoidance knobs (see generate)
                    if (avoid & 1) == 1 && t == "pipe_match_with_merge_rel" {
                        continue;
                    }
                    if let Some(st) = resolve(&t, &mut ctx) {
                        pending.push((cidx, ei, st, version));
                        break;
                    }
                }
            }
            if pending.is_empty() {
                break;
            }
            let pick = (sched[step % sched.len()] as usize) % pending.len();
            let (_client, ei, st, seen_version) = pending.remove(pick);
            let t = s(&case.events[ei], "t").to_string();
            step += 1;
            o.steps += 1;
            if seen_version != version {
                o.probe("statement_ran_after_other_client_changed_target");
            }
            // the model's verdict first (on a copy: the engine may refuse)
            let mut post = m.clone();
            let ap = post.apply(&st);
            if (avoid & 2) == 2 && ap.error.is_some() {
                // plain DELETE of a connected node is known to be accepted today: skipped in these runs
                continue;
            }
            if (avoid & 1) == 1 && ap.merge_max_matches > 1 {
                // MERGE binds only the first of several matches today: skipped in these runs
                continue;
            }
            if let Some(u) = &ap.undefined {
                o.probe(&format!("model_undefined"));
                let _ = u;
                continue;
            }
            if ap.order_dependent_effect {
                o.probe("order_dependent_effect_stop");
                break;
            }
            let q = st.render();
            shapes.push(format!("{t}:{}", st.shape()));
            // ---- run it
            let reply = if resp {
                o.probe("resp_statement");
                let cmd = RespValue::Array(vec![RespValue::BulkString(Some(b"GRAPH.QUERY".to_vec())), RespValue::BulkString(Some(b"default".to_vec())), RespValue::BulkString(Some(q.clone().into_bytes()))]);
                let mut out: Option<RespValue> = None;
                let r = std::panic::catch_unwind(std::panic::AssertUnwindSafe(|| {
                    let mut tasks = Tasks::new();
                    let slot = &mut out;
                    let (h, stc, cmdr) = (&handler, &store, &cmd);
                    tasks.spawn("client", async move {
                        *slot = Some(h.handle_command(cmdr, stc).await);
                    });
                    tasks.run_until_stalled(|_| 0, 10_000);
                    tasks.all_done()
                }));
                match (r, out) {
                    (Err(_), _) => Reply::Panic(crate::kit::runner::last_panic()),
                    (Ok(true), Some(RespValue::Error(e))) => Reply::Err(e),
                    (Ok(true), Some(RespValue::Array(rows))) => {
                        let mut v: Vec<String> = rows.iter().skip(1).map(|r| match r { RespValue::Array(cells) => cells.iter().map(resp_cell).collect::<Vec<_>>().join(" | "), other => resp_cell(other) }).collect();
                        v.sort();
                        Reply::Rows(v)
                    }
                    (Ok(true), Some(other)) => Reply::Err(format!("unexpected reply {other:?}")),
                    _ => {
                        o.violate(Violation::new("C04/harness/handle_command_did_not_complete", q.clone(), step));
                        break 'outer;
                    }
                }
            } else {
                let mut g = store.try_write().expect("uncontended");
                match exec_mut(&eng, &mut g, &q) {
                    Run::Ok(b) => Reply::Rows(batch_rows(&b)),
                    Run::Err(e) => Reply::Err(e),
                    Run::Panic(p) => Reply::Panic(p),
                }
            };
            let real = {
                let g = store.try_read().expect("uncontended");
                dump(&g)
            };
            let detail_head = format!("`{q}`");
            match reply {
                Reply::Panic(p) => {
                    o.violate(Violation::new(format!("C04/panic/{t}"), format!("{detail_head}: {p}"), step));
                    break;
                }
                Reply::Err(e) => {
                    if ap.error.is_some() {
                        o.probe("delete_connected_node_attempted");
                        o.probe("delete_connected_node_refused");
                        if real.canonical() != m.canonical() {
                            let (class, d) = diff_class(&real, &m.d);
                            o.violate(Violation::new(format!("C04/refused_delete_changed_graph/{t}/{class}"), format!("{detail_head} was refused ({e}) but changed the graph: {d}"), step));
                            break;
                        }
                    } else {
                        // "deleting a node that still has relationships without DETACH is refused" — and only
                        // such a node: the refusal states a fact about the graph, which must be true of it
                        if e.contains("still has") && e.contains("relationship") {
                            let bound: Vec<u64> = delete_targets(&m, &st);
                            if !bound.is_empty() && bound.iter().all(|id| m.degree(*id) == 0) {
                                o.violate(Violation::new(
                                    format!("C04/wrong_refusal/{t}/node_has_no_relationships"),
                                    format!("{detail_head} was refused ({e}) but no node it deletes has a relationship in {}", m.d.describe()),
                                    step,
                                ));
                                break;
                            }
                        }
                        o.probe("engine_refused");
                        o.probe(&format!("engine_refused/{t}"));
                        // what a refused statement leaves behind is C05's subject: re-synchronise
                        if real.canonical() != m.canonical() {
                            o.probe("refusal_left_partial_effect");
                        }
                        lost_rel_ends(&m.d, &real, &mut lost);
                        m = ModelGraph::from_dump(&real);
                        version += 1;
                    }
                    continue;
                }
                Reply::Rows(rows) => {
                    if let Some(why) = &ap.error {
                        o.probe("delete_connected_node_attempted");
                        let (class, d) = if real.canonical() == m.canonical() { ("graph_unchanged", String::new()) } else { diff_class(&real, &m.d) };
                        o.violate(Violation::new(
                            format!("C04/missing_refusal/{t}/{class}"),
                            format!("{detail_head} must fail ({why}) and change nothing, but it returned Ok; {d}"),
                            step,
                        ));
                        break;
                    }
                    // ---- effect
                    if real.canonical() != post.canonical() {
                        let (class, d) = diff_class(&real, &post.d);
                        let class = if st.shape().contains("MERGE") && (class == "extra_node" || class == "extra_relationship") { format!("merge_created_duplicate_{}", &class[6..]) } else { class.to_string() };
                        // one signature per construct where the construct, not the template, is what matters
                        let sig = if ap.merge_max_matches > 1 { format!("C04/wrong_effect/MERGE_{}/several_matches_per_row", ap.merge_kind) } else { format!("C04/wrong_effect/{t}/{class}") };
                        o.violate(Violation::new(sig, format!("{detail_head} on {} : {d}", m.d.describe()), step));
                        break;
                    }
                    // ---- rows
                    if ap.has_return && !ap.order_dependent_rows {
                        let mut want: Vec<String> = ap.rows.iter().map(|r| if resp { r.iter().map(|c| lossy(c)).collect::<Vec<_>>().join(" | ") } else { r.join(" | ") }).collect();
                        want.sort();
                        o.probe("rows_compared");
                        if rows != want {
                            let class = if rows.len() != want.len() { "row_count" } else { "cell_values" };
                            let sig = if ap.merge_max_matches > 1 { format!("C04/wrong_rows/MERGE_{}/several_matches_per_row", ap.merge_kind) } else { format!("C04/wrong_rows/{t}/{class}") };
                            o.violate(Violation::new(sig, format!("{detail_head} returned {:?}, openCypher defines {:?} (graph before: {})", rows, want, m.d.describe()), step));
                            break;
                        }
                    } else if !ap.has_return && !rows.is_empty() {
                        o.violate(Violation::new(format!("C04/wrong_rows/{t}/rows_without_return"), format!("{detail_head} has no RETURN but returned {:?}", rows), step));
                        break;
                    } else if ap.order_dependent_rows {
                        o.probe("rows_order_dependent_skipped");
                    }
                    compared += 1;
                    if ap.merge_matched > 0 {
                        o.probe("merge_matched");
                    }
                    if ap.merge_created > 0 {
                        o.probe("merge_created");
                    }
                    if ap.merge_matched > 0 && ap.merge_created > 0 {
                        o.probe("merge_saw_row_created_earlier");
                    }
                    if ap.input_rows_max > 1 {
                        o.probe("multi_row_write");
                    }
                    if let Some((parallel, carrying, oldest_carries)) = merge_rel_among_parallel(&m, &st) {
                        if parallel >= 2 {
                            o.probe("merge_rel_keyed_among_parallel_rels");
                            if carrying == 1 {
                                // exactly one of the parallel relationships is the match: it has to be
                                // found wherever it sits in the adjacency list
                                o.probe(if oldest_carries { "merge_rel_keyed_on_the_oldest_parallel_rel" } else { "merge_rel_keyed_on_a_later_parallel_rel" });
                            }
                            if carrying == 0 {
                                o.probe("merge_rel_keyed_on_none_of_the_parallel_rels");
                            }
                        }
                    }
                    if ap.input_rows_max >= 1 && (ap.merge_matched > 0 || st.shape().starts_with("MATCH")) && real.canonical() != m.canonical() {
                        matched_and_wrote = true;
                    }
                    // ---- what the new templates reached
                    if t == "delete_parallel_rel" && ap.deleted_rels > 0 {
                        // relationships between the same ordered pair before / after
                        let pairs = |d: &crate::kit::dump::Dump| d.edges.values().map(|e| (e.src, e.dst)).collect::<Vec<_>>();
                        let after = pairs(&real);
                        let gone: Vec<&crate::kit::dump::GEdge> = m.d.edges.iter().filter(|(id, e)| real.edges.get(*id) != Some(*e)).map(|(_, e)| e).collect();
                        if gone.iter().any(|e| after.iter().any(|p| *p == (e.src, e.dst))) {
                            o.probe("deleted_one_of_several_parallel_rels");
                            // neither the oldest nor the newest of its pair
                            if gone.iter().any(|e| {
                                let ids: Vec<u64> = m.d.edges.iter().filter(|(_, o2)| (o2.src, o2.dst) == (e.src, e.dst)).map(|(i, _)| *i).collect();
                                let me = m.d.edges.iter().find(|(_, o2)| *o2 == *e).map(|(i, _)| *i).unwrap_or(0);
                                ids.len() >= 3 && ids.first() != Some(&me) && ids.last() != Some(&me)
                            }) {
                                o.probe("deleted_a_middle_one_of_parallel_rels");
                            }
                        }
                    }
                    if ap.created_rels > 0 && real.edges.iter().any(|(id, e)| freed_rel_ids.contains(id) && m.d.edges.get(id) != Some(e)) {
                        o.probe("created_rel_reused_a_freed_id");
                    }
                    if t.starts_with("revisit_") && !lost.is_empty() {
                        let touched: BTreeSet<i64> = delete_targets(&m, &st).into_iter().chain(match_start(&m, &st)).filter_map(|id| m.d.nodes.get(&id).and_then(|n| n.props.get("k")).and_then(|c| match V::from_canon(c) { V::I(k) => Some(k), _ => None })).collect();
                        if touched.iter().any(|k| lost.contains(k)) {
                            o.probe("revisited_end_of_deleted_rel");
                            if !freed_reused.is_empty() {
                                o.probe("revisited_end_of_deleted_rel_after_its_id_was_reused");
                            }
                        }
                    }
                    for (id, e) in &m.d.edges {
                        if real.edges.get(id) != Some(e) {
                            freed_rel_ids.insert(*id);
                        }
                    }
                    for (id, e) in &real.edges {
                        if freed_rel_ids.contains(id) && m.d.edges.get(id) != Some(e) {
                            freed_rel_ids.remove(id);
                            freed_reused.insert(*id);
                        }
                    }
                    lost_rel_ends(&m.d, &real, &mut lost);
                    // keep the store's ids in the model from here on (ids are not compared, contents are)
                    m = ModelGraph::from_dump(&real);
                    version += 1;
                }
            }
        }
        o.nontrivial = compared >= 3 && matched_and_wrote;
        o.class_key = hash_str(&shapes.join(","));
        o.state_hash = hash_str(&m.canonical());
        o
    }
}
