//! C20 — RESP framing survives any TCP chunking and pipelining.
//!
//! Sim: the harness is the client.  A generated sequence of well-formed requests (RESP frames
//! and inline commands) is concatenated per connection and cut into deliveries (one delivery =
//! one TCP segment = one `read`).  Two layers consume the same deliveries:
//!   1. `decoder_loop`: `RespValue::decode` driven exactly as `handle_connection` drives it
//!      (append a delivery to a `BytesMut`, decode until None/Incomplete);
//!   2. `connection`: the REAL `handle_connection` future over a `SimStream` (spurious
//!      `Pending`, short writes), polled by `kit::exec::Tasks` under a pre-drawn schedule that
//!      interleaves "client c delivers its next segment" with "server task c is polled".
//! Oracle: an independent strict RESP reader (`kit::respwire`) parses the request stream into
//! frames; each frame is handed to `CommandHandler::handle_command` on a twin store; the
//! replies read from the socket must be exactly those, one per request, in order.
//! Small streams (<= 64 bytes): EVERY 1-, 2- and 3-way split is executed (fault enumeration,
//! pinned by cut offsets).  Larger ones: PRNG cuts.

use crate::kit::core::*;
use crate::kit::model::op;
use crate::kit::respsim::*;
use crate::kit::respwire::{self as w, HVal, Parsed};
use crate::kit::rng::{Rng, Streams};
use crate::kit::stream::Decisions;
use bytes::BytesMut;
use samyama::protocol::resp::{RespError, RespValue};
use serde_json::{json, Value};
use std::panic::{catch_unwind, AssertUnwindSafe};

pub struct C20;

pub const ENUM_MAX: usize = 64;

fn bulk(s: &[u8]) -> HVal {
    HVal::Bulk(Some(s.to_vec()))
}

fn cmd(words: &[&[u8]]) -> HVal {
    HVal::Array(words.iter().map(|x| bulk(x)).collect())
}

/// Payloads for binary-safe positions (ECHO argument, PING message is UTF-8 only).
pub fn gen_payload(r: &mut Rng, max: usize) -> Vec<u8> {
    match r.below(9) {
        0 => Vec::new(),
        1 => b"\r\n".to_vec(),
        2 => b"a\r\nb".to_vec(),
        3 => b"\r".to_vec(),
        4 => b"x\n".to_vec(),
        5 => b"\r\n$3\r\nabc\r\n".to_vec(), // looks like a frame
        6 => b"+OK\r\n*1\r\n".to_vec(),
        7 => {
            let n = r.usize_below(max.min(24) + 1);
            (0..n).map(|_| r.below(256) as u8).collect()
        }
        _ => {
            let n = r.usize_below(max.min(12) + 1);
            (0..n).map(|_| *r.pick(b"abz09 \r\n$*:+-_")).collect()
        }
    }
}

fn pk<'a>(r: &mut Rng, xs: &[&'a str]) -> &'a [u8] {
    xs[r.usize_below(xs.len())].as_bytes()
}

fn gen_nested(r: &mut Rng, depth: u32) -> HVal {
    match r.below(if depth == 0 { 6 } else { 8 }) {
        0 => HVal::Int(*r.pick(&[0, 1, -1, 42, i64::MAX, i64::MIN])),
        1 => HVal::Simple(pk(r, &["OK", "", "x y"]).to_vec()),
        2 => HVal::Bulk(None),
        3 => HVal::Null,
        4 => bulk(&gen_payload(r, 8)),
        5 => HVal::Error(b"ERR x".to_vec()),
        _ => {
            let n = r.usize_below(3);
            HVal::Array((0..n).map(|_| gen_nested(r, depth - 1)).collect())
        }
    }
}

const LABELS: [&str; 2] = ["A", "B"];

fn gen_text(r: &mut Rng) -> String {
    // string-literal bodies: CR / LF are legal inside a Cypher string literal and a bulk string
    r.pick(&["x", "", "a b", "line1\r\nline2", "cr\rlf\n", "$5\r\nhello", "*2"]).to_string()
}

fn gen_query(r: &mut Rng) -> String {
    match r.below(7) {
        0 => format!("CREATE (n:{} {{name: '{}'}})", r.pick(&LABELS), gen_text(r)),
        1 => format!("CREATE (n:{} {{name: '{}', v: {}}}) RETURN n.name", r.pick(&LABELS), gen_text(r), r.below(5)),
        2 => "MATCH (n) RETURN count(n)".to_string(),
        3 => format!("MATCH (n:{}) RETURN n.name ORDER BY n.name", r.pick(&LABELS)),
        4 => format!("MATCH (n) WHERE n.name = '{}' RETURN n.v", gen_text(r)),
        5 => format!("RETURN '{}'", gen_text(r)),
        _ => "MATCH (n:A) RETURN n.v ORDER BY n.v LIMIT 3".to_string(),
    }
}

fn gen_long_query(r: &mut Rng) -> String {
    let n = 4000 + r.usize_below(5000);
    let filler: String = (0..n).map(|i| if i % 97 == 96 { '\n' } else { (b'a' + (i % 26) as u8) as char }).collect();
    match r.below(3) {
        0 => format!("CREATE (n:A {{name: '{filler}'}})"),
        1 => format!("MATCH (n) WHERE n.name = '{filler}' RETURN count(n)"),
        _ => format!("RETURN '{filler}'"),
    }
}

/// A request event.  `small` restricts to frames of a few bytes (enumerated mode).
fn gen_request(r: &mut Rng, small: bool, stateless: bool) -> Value {
    let weights: [u32; 12] = if small { [10, 6, 10, 3, 6, 8, 4, 0, 2, 8, 2, 3] } else { [6, 5, 10, 2, 6, 6, 12, 3, 4, 8, 3, 3] };
    let mut k = r.weighted(&weights);
    if stateless && matches!(k, 6 | 7 | 8 | 10) {
        k = 2;
    }
    let frame = |v: HVal| json!({"op":"frame","v": w::to_json(&v)});
    match k {
        0 => frame(cmd(&[b"PING"])),
        1 => frame(cmd(&[pk(r, &["PING", "ping"]), pk(r, &["hi", "", "a b", "x\r\ny"])])),
        2 => frame(HVal::Array(vec![bulk(pk(r, &["ECHO", "echo", "Echo"])), bulk(&gen_payload(r, if small { 6 } else { 300 }))])),
        3 => frame(HVal::Array(vec![bulk(b"ECHO"), HVal::Bulk(None)])),
        4 => {
            // unknown command with arbitrary (nested) arguments
            let n = r.usize_below(if small { 2 } else { 4 });
            let mut xs = vec![bulk(pk(r, &["FOO", "SET", "x", "GRAPH.NOPE"]))];
            for _ in 0..n {
                xs.push(gen_nested(r, if small { 1 } else { 5 }));
            }
            frame(HVal::Array(xs))
        }
        5 => {
            // frames that are not commands at all: the server still owes exactly one reply
            frame(match r.below(9) {
                0 => HVal::Simple(b"OK".to_vec()),
                1 => HVal::Int(*r.pick(&[0, -7, i64::MAX, i64::MIN])),
                2 => bulk(&gen_payload(r, 6)),
                3 => HVal::Bulk(None),
                4 => HVal::Null,
                5 => HVal::Error(b"ERR boo".to_vec()),
                6 => HVal::Array(vec![]),
                7 => HVal::Array(vec![HVal::Array(vec![HVal::Int(1)])]),
                _ => HVal::Array(vec![HVal::Bulk(None)]),
            })
        }
        6 => {
            let name: &[u8] = pk(r, &["GRAPH.QUERY", "GRAPH.QUERY", "graph.query", "GRAPH.RO_QUERY"]);
            frame(cmd(&[name, b"default", gen_query(r).as_bytes()]))
        }
        7 => frame(cmd(&[b"GRAPH.QUERY", b"default", gen_long_query(r).as_bytes()])),
        8 => frame(match r.below(4) {
            0 => cmd(&[b"GRAPH.DELETE", b"default"]),
            1 => cmd(&[b"GRAPH.QUERY", b"other", b"RETURN 1"]),
            2 => cmd(&[b"GRAPH.QUERY", b"default"]),
            _ => HVal::Array(vec![bulk(b"GRAPH.QUERY"), HVal::Bulk(None), bulk(b"RETURN 1")]),
        }),
        9 => {
            // inline commands (stateless ones)
            let line: String = match r.below(8) {
                0 => "PING".into(),
                1 => "ping hello".into(),
                2 => format!("ECHO {}", r.pick(&["x", "hello", "a:b", "(n)"])),
                3 => "ECHO \"a b\"".into(),
                4 => "ECHO \"l1\\r\\nl2\"".into(),
                5 => "  PING  ".into(),
                6 => "ECHO\t\"q\\\"uote\\\\\"".into(),
                _ => "NOSUCH a b".into(),
            };
            json!({"op":"inline","line": line})
        }
        10 => {
            let q = gen_query(r);
            if q.contains('\r') || q.contains('\n') || q.contains('"') || q.contains('\\') {
                json!({"op":"inline","line": "GRAPH.QUERY default \"MATCH (n) RETURN count(n)\""})
            } else {
                json!({"op":"inline","line": format!("GRAPH.QUERY default \"{q}\"")})
            }
        }
        _ => frame(match r.below(2) {
            0 => cmd(&[b"INFO"]),
            _ => cmd(&[b"GRAPH.LIST"]),
        }),
    }
}

fn request_bytes(ev: &Value) -> Option<Vec<u8>> {
    match op(ev) {
        "frame" => w::from_json(&ev["v"]).map(|v| w::encoded(&v)),
        "inline" => {
            let mut b = w::unlatin1(ev["line"].as_str()?);
            if b.windows(2).any(|x| x == b"\r\n") {
                return None;
            }
            b.extend_from_slice(b"\r\n");
            Some(b)
        }
        _ => None,
    }
}

// ------------------------------------------------------------------------------------

struct ConnStream {
    bytes: Vec<u8>,
    /// (start, end, expected frame, is_inline)
    frames: Vec<(usize, usize, HVal, bool)>,
    /// cut offsets from `cut` events (random mode)
    cuts: Vec<usize>,
}

fn is_stateful(v: &HVal) -> bool {
    if let HVal::Array(xs) = v {
        if let Some(HVal::Bulk(Some(b))) = xs.first() {
            return b.to_ascii_uppercase().starts_with(b"GRAPH.") && b.to_ascii_uppercase() != b"GRAPH.LIST";
        }
    }
    false
}

fn unencodable(v: &HVal) -> bool {
    match v {
        HVal::Simple(s) | HVal::Error(s) => s.iter().any(|c| *c == b'\r' || *c == b'\n'),
        HVal::Array(xs) => xs.iter().any(unencodable),
        _ => false,
    }
}

/// Position class of the first cut strictly inside frame `k` (else "unsplit").
fn cut_class(cs: &ConnStream, k: usize, cuts: &[usize]) -> &'static str {
    let Some((s, e, v, inline)) = cs.frames.get(k) else { return "past_last_frame" };
    for &c in cuts {
        if c > *s && c < *e {
            if *inline {
                return "inline_line";
            }
            let classes = w::cut_classes(v);
            return classes.get(c - s).copied().unwrap_or("unknown");
        }
    }
    // the frame itself arrived whole: name the last split of the frame before it, if any
    // (a decoder that mishandles the tail of frame k-1 shows its damage on frame k)
    if k > 0 {
        let (ps, pe, pv, pinline) = &cs.frames[k - 1];
        if let Some(&c) = cuts.iter().rev().find(|c| **c > *ps && **c < *pe) {
            if *pinline {
                return "after_split_inline_line";
            }
            return match w::cut_classes(pv).get(c - ps).copied().unwrap_or("unknown") {
                "bulk_crlf" => "after_split_bulk_crlf",
                "bulk_payload" => "after_split_bulk_payload",
                "after_bulk_header" => "after_split_after_bulk_header",
                "bulk_header" => "after_split_bulk_header",
                "array_header" => "after_split_array_header",
                "between_elements" => "after_split_between_elements",
                "after_array_header" => "after_split_after_array_header",
                "line" => "after_split_line",
                _ => "after_split_other",
            };
        }
    }
    "unsplit"
}

fn chunks_of(bytes: &[u8], cuts: &[usize]) -> Vec<Vec<u8>> {
    let mut out = Vec::new();
    let mut prev = 0;
    for &c in cuts {
        if c > prev && c < bytes.len() {
            out.push(bytes[prev..c].to_vec());
            prev = c;
        }
    }
    if prev < bytes.len() {
        out.push(bytes[prev..].to_vec());
    }
    out
}

#[derive(Default)]
struct Sub {
    violations: Vec<Violation>,
    steps: u64,
    out_hash: u64,
    spurious: u64,
    short_writes: u64,
}

/// One sub-execution: the given cuts per connection, both layers.
fn run_split(case: &Case, conns: &[ConnStream], cuts: &[Vec<usize>], expected: &[Vec<HVal>], quiet_sched: bool) -> Sub {
    let mut sub = Sub::default();
    // ---------------- layer 1: the decoder loop
    let mut layer1_ok = true;
    for (ci, cs) in conns.iter().enumerate() {
        let chunks = chunks_of(&cs.bytes, &cuts[ci]);
        let r = catch_unwind(AssertUnwindSafe(|| {
            let mut buffer = BytesMut::with_capacity(4096);
            let mut got: Vec<HVal> = Vec::new();
            let mut err: Option<String> = None;
            // classification aid only: the delivery boundary at which decode said "need more"
            // although it had removed bytes from the buffer
            let mut consumed_at: Option<usize> = None;
            let mut delivered = 0usize;
            'outer: for ch in &chunks {
                buffer.extend_from_slice(ch);
                delivered += ch.len();
                loop {
                    let before = buffer.len();
                    match RespValue::decode(&mut buffer) {
                        Ok(Some(v)) => got.push(from_resp(&v)),
                        Ok(None) | Err(RespError::Incomplete) => {
                            if buffer.len() != before && consumed_at.is_none() {
                                consumed_at = Some(delivered);
                            }
                            break;
                        }
                        Err(e) => {
                            err = Some(e.to_string());
                            break 'outer;
                        }
                    }
                }
            }
            (got, err, buffer.len(), consumed_at)
        }));
        sub.steps += chunks.len() as u64;
        match r {
            Err(_) => {
                layer1_ok = false;
                sub.violations.push(Violation::new("C20/decoder_loop/panic", format!("decode panicked on a well-formed stream: {}", crate::kit::runner::last_panic()), 0));
            }
            Ok((got, err, left, consumed_at)) => {
                let want: Vec<&HVal> = cs.frames.iter().map(|f| &f.2).collect();
                let first_bad = (0..want.len().max(got.len())).find(|&i| got.get(i) != want.get(i).copied());
                if let Some(k) = first_bad {
                    layer1_ok = false;
                    let clause = if let Some(e) = &err {
                        if k >= got.len() {
                            format!("protocol_error_on_wellformed_frame ({e})")
                        } else {
                            "wrong_frame".to_string()
                        }
                    } else if k >= got.len() {
                        "frame_never_decoded".to_string()
                    } else if k >= want.len() {
                        "extra_frame".to_string()
                    } else {
                        "wrong_frame".to_string()
                    };
                    let clause_sig = clause.split(' ').next().unwrap().to_string();
                    // name the split that mattered: the one after which decode consumed input while
                    // reporting "incomplete" if there was one, else the first split inside frame k
                    let class = match consumed_at {
                        Some(off) => {
                            let fk = cs.frames.iter().position(|f| off > f.0 && off < f.1).unwrap_or(k);
                            format!("consumed_on_incomplete_at_{}", cut_class(cs, fk, &[off]))
                        }
                        None => cut_class(cs, k, &cuts[ci]).to_string(),
                    };
                    sub.violations.push(Violation::new(
                        format!("C20/decoder_loop/{}/{}", clause_sig, class),
                        format!(
                            "conn {ci} frame #{k}: {clause}; deliveries {:?}; decoded {} want {}",
                            chunks.iter().map(|c| w::show(c)).collect::<Vec<_>>(),
                            got.get(k).map(w::show_val).unwrap_or_else(|| "<nothing>".into()),
                            want.get(k).map(|v| w::show_val(v)).unwrap_or_else(|| "<nothing>".into())
                        ),
                        k,
                    ));
                } else if left != 0 || err.is_some() {
                    layer1_ok = false;
                    sub.violations.push(Violation::new(
                        format!("C20/decoder_loop/leftover_after_last_frame/{}", cut_class(cs, cs.frames.len().saturating_sub(1), &cuts[ci])),
                        format!("conn {ci}: all frames decoded but {left} bytes left / error {err:?}"),
                        cs.frames.len(),
                    ));
                }
            }
        }
    }
    if !layer1_ok {
        return sub;
    }
    // ---------------- layer 2: the real connection loop
    let n = conns.len();
    let decisions: Vec<u64> = case.knobs.get("decisions").and_then(|v| v.as_array()).map(|a| a.iter().filter_map(|x| x.as_u64()).collect()).unwrap_or_else(|| vec![1]);
    let cfg = StreamCfg {
        pending_1_in: if quiet_sched { 0 } else { case.knob_u64("pending_1_in", 0) },
        max_write: if quiet_sched { 0 } else { case.knob_u64("max_write", 0) as usize },
        decisions: if decisions.is_empty() { vec![1] } else { decisions },
    };
    let mut sim = ServerSim::new(&vec![cfg; n]);
    let sched: Vec<u64> = case.knobs.get("sched").and_then(|v| v.as_array()).map(|a| a.iter().filter_map(|x| x.as_u64()).collect()).unwrap_or_default();
    let mut sched = Decisions::new(if sched.is_empty() || quiet_sched { vec![0] } else { sched });
    let bias = if quiet_sched { 2 } else { case.knob_u64("sched_bias", 0) };
    let chunks: Vec<Vec<Vec<u8>>> = conns.iter().enumerate().map(|(ci, cs)| chunks_of(&cs.bytes, &cuts[ci])).collect();
    let mut next = vec![0usize; n];
    // harness guard against a livelock: every poll of a task either ends in a spurious Pending
    // (at most one per read / write call; a write call moves >= 1 byte) or in a real wait
    let expected_out: u64 = expected.iter().flatten().map(|v| w::encoded(v).len() as u64).sum();
    let max_polls: u64 = 10_000 + 64 * chunks.iter().map(|c| c.len() as u64).sum::<u64>() + 8 * (expected_out + conns.iter().map(|c| c.bytes.len() as u64).sum::<u64>());
    let mut guard = 0u64;
    loop {
        // enabled actions: deliveries first, then polls
        let deliver: Vec<usize> = (0..n).filter(|&c| next[c] < chunks[c].len()).collect();
        let polls = sim.runnable();
        if deliver.is_empty() && polls.is_empty() {
            break;
        }
        guard += 1;
        if guard > max_polls {
            sub.violations.push(Violation::new("C20/connection/livelock_before_close", format!("server tasks still runnable after {max_polls} scheduler steps"), 0));
            return sub;
        }
        // bias: 1 = deliver everything first, 2 = poll whenever possible, 0 = uniform
        let (use_deliver, idx) = if deliver.is_empty() {
            (false, sched.next(polls.len() as u64) as usize)
        } else if polls.is_empty() {
            (true, sched.next(deliver.len() as u64) as usize)
        } else {
            match bias {
                1 => (true, sched.next(deliver.len() as u64) as usize),
                2 => (false, sched.next(polls.len() as u64) as usize),
                _ => {
                    let k = sched.next((deliver.len() + polls.len()) as u64) as usize;
                    if k < deliver.len() {
                        (true, k)
                    } else {
                        (false, k - deliver.len())
                    }
                }
            }
        };
        if use_deliver {
            let c = deliver[idx];
            sim.deliver(c, chunks[c][next[c]].clone());
            next[c] += 1;
        } else {
            sim.poll(polls[idx]);
        }
        sub.steps += 1;
    }
    // everything delivered, every server task waits for more input (or has ended)
    let mut outs: Vec<Vec<u8>> = Vec::new();
    for ci in 0..n {
        let cs = &conns[ci];
        let out = sim.streams[ci].take_output();
        sub.out_hash = sub.out_hash.rotate_left(9) ^ crate::kit::rng::fnv1a(&out);
        if let Some(msg) = &sim.panicked[ci] {
            sub.violations.push(Violation::new("C20/connection/panic", format!("conn {ci}: connection task panicked: {msg}"), 0));
            outs.push(out);
            continue;
        }
        if sim.finished(ci) {
            sub.violations.push(Violation::new(
                "C20/connection/ended_before_client_close",
                format!("conn {ci}: handle_connection returned {:?} while the client was still connected", sim.result(ci)),
                0,
            ));
        }
        let want = &expected[ci];
        let (got, malformed) = match w::parse_all(&out) {
            Ok(v) => (v, None),
            Err((v, off, why)) => (v, Some((off, why))),
        };
        let first_bad = (0..want.len().max(got.len())).find(|&i| got.get(i) != want.get(i));
        if let Some(k) = first_bad {
            let clause = if k >= got.len() {
                if malformed.is_some() {
                    "reply_not_a_frame"
                } else {
                    "missing_reply"
                }
            } else if k >= want.len() {
                "extra_reply"
            } else {
                "wrong_reply"
            };
            sub.violations.push(Violation::new(
                format!("C20/connection/{clause}/{}", cut_class(cs, k, &cuts[ci])),
                format!(
                    "conn {ci} request #{k} ({}): got {} want {}; {} requests, {} replies{}; deliveries {:?}",
                    cs.frames.get(k).map(|f| w::show(&cs.bytes[f.0..f.1])).unwrap_or_default(),
                    got.get(k).map(w::show_val).unwrap_or_else(|| "<nothing>".into()),
                    want.get(k).map(w::show_val).unwrap_or_else(|| "<nothing>".into()),
                    want.len(),
                    got.len(),
                    malformed.as_ref().map(|(o, y)| format!("; reply stream malformed at {o}: {y}")).unwrap_or_default(),
                    chunks[ci].iter().take(12).map(|c| w::show(&c[..c.len().min(40)])).collect::<Vec<_>>()
                ),
                k,
            ));
        } else if let Some((off, why)) = malformed {
            sub.violations.push(Violation::new("C20/connection/trailing_garbage_after_replies", format!("conn {ci}: at {off}: {why}"), want.len()));
        }
        outs.push(out);
    }
    if !sub.violations.is_empty() {
        return sub;
    }
    // ---------------- liveness: client closes; every task must end, promptly, writing nothing more
    for ci in 0..n {
        let before = sim.stats(ci).spurious_pending;
        let polls_before = sim.polls;
        sim.close(ci);
        let done = {
            let mut k = 0u64;
            loop {
                if sim.finished(ci) || sim.panicked[ci].is_some() {
                    break true;
                }
                if !sim.runnable().contains(&ci) || k > max_polls {
                    break false;
                }
                sim.poll(ci);
                k += 1;
            }
        };
        sub.steps += sim.polls - polls_before;
        let spurious = sim.stats(ci).spurious_pending - before;
        if let Some(msg) = &sim.panicked[ci] {
            sub.violations.push(Violation::new("C20/connection/panic", format!("conn {ci}: panicked at close: {msg}"), 0));
        } else if !done {
            sub.violations.push(Violation::new("C20/connection/not_finished_after_close", format!("conn {ci}: task still pending and not woken after EOF"), 0));
        } else {
            let used = sim.polls - polls_before;
            if used > spurious + 2 {
                sub.violations.push(Violation::new("C20/connection/slow_finish_after_close", format!("conn {ci}: {used} polls after EOF with {spurious} spurious Pending"), 0));
            }
            match sim.result(ci) {
                Some(Ok(())) => {}
                other => sub.violations.push(Violation::new("C20/connection/error_result_after_clean_close", format!("conn {ci}: {other:?}"), 0)),
            }
        }
        let late = sim.streams[ci].take_output();
        if !late.is_empty() {
            sub.violations.push(Violation::new("C20/connection/output_after_close", format!("conn {ci}: {} bytes written after EOF: {}", late.len(), w::show(&late)), 0));
        }
        let st = sim.stats(ci);
        sub.spurious += st.spurious_pending;
        sub.short_writes += st.short_writes;
    }
    sub
}

impl Scenario for C20 {
    fn id(&self) -> &'static str {
        "C20"
    }
    fn level(&self) -> &'static str {
        "fault_enumeration"
    }
    fn runs(&self, tier: Tier) -> u64 {
        match tier {
            Tier::Quick => 2_400,
            Tier::Thorough => 160_000,
        }
    }
    fn rule(&self) -> &'static str {
        "case = 1-2 connections, each a sequence of well-formed requests (RESP arrays of bulk strings incl. empty/null/binary-with-CRLF payloads, nested arrays, non-command frames, inline commands, GRAPH.QUERY up to ~9 KB) + cut events placing segment boundaries relative to the preceding frame + stream faults (spurious Pending, short writes) + a pre-drawn schedule of deliver/poll steps. mode=enum (stream <= 64 bytes): every 1-, 2- and 3-way split is a sub-execution (evaluations counts them). Non-trivial = at least one cut strictly inside a frame or two frames in one delivery. Distinct = hash of (request kinds, cut position classes, mode)."
    }
    fn real_components(&self) -> Vec<&'static str> {
        vec![
            "protocol::resp::RespValue::decode / encode",
            "protocol::server::handle_connection (via verif_handle_connection, BoxedIo = SimStream)",
            "protocol::command::CommandHandler::handle_command (server and twin)",
            "query::QueryEngine + graph::GraphStore behind GRAPH.QUERY",
            "tokio::sync::RwLock, tokio::io::{AsyncReadExt::read_buf, AsyncWriteExt::write_all}",
        ]
    }
    fn stub_components(&self) -> Vec<&'static str> {
        vec!["TcpStream -> kit::stream::SimStream (in-memory duplex; one deliver() = one read)", "tokio runtime -> kit::exec::Tasks (no timers or spawn are reached on this path)"]
    }
    fn assumptions(&self) -> Vec<&'static str> {
        vec![
            "kit::respwire (strict RESP reader/encoder, inline-command subset: blank-separated words, double quotes with \\n \\r \\t \\\" \\\\) is correct",
            "handle_command on a twin store defines the expected reply of a parsed frame (C20 is about framing, not command semantics)",
            "the second connection only sends stateless commands, so the expected replies do not depend on the cross-connection interleaving",
            "requests whose expected reply is a simple error containing CR/LF are C22's subject and are removed from the stream before the run (probe c22_domain_request_skipped)",
            "'answers each one' is checked when all bytes are delivered and every server task waits for input, i.e. BEFORE the client closes",
        ]
    }
    fn required_probes(&self, _tier: Tier) -> Vec<&'static str> {
        vec![
            "split_in_bulk_payload",
            "split_in_header",
            "split_between_elements",
            "pipelined_delivery",
            "query_longer_than_read_buffer",
            "inline_command",
            "nested_array",
            "null_bulk",
            "empty_bulk",
            "binary_crlf_payload",
            "enumerated_small_stream",
            "two_connections",
        ]
    }
    fn generate(&self, s: &mut Streams, run_index: u64, _tier: Tier) -> Case {
        let mut case = Case::new("C20");
        let enum_mode = run_index % 3 == 0;
        case.knobs.insert("mode".into(), json!(if enum_mode { "enum" } else { "random" }));
        // stream faults and schedule (ignored by the enumerated splits except for the pinned replay)
        let pend = *s.knobs.pick(&[0u64, 0, 2, 3, 5]);
        let mw = *s.knobs.pick(&[0u64, 0, 1, 3, 7, 64]);
        case.knobs.insert("pending_1_in".into(), json!(pend));
        case.knobs.insert("max_write".into(), json!(mw));
        let mut d: Vec<u64> = (0..48).map(|_| s.fault.below(1 << 16)).collect();
        d[0] = 1; // never an all-zero list: spurious Pending cannot repeat forever
        case.knobs.insert("decisions".into(), json!(d));
        case.knobs.insert("sched".into(), json!((0..64).map(|_| s.sched.below(1 << 16)).collect::<Vec<_>>()));
        case.knobs.insert("sched_bias".into(), json!(s.sched.below(3)));
        if enum_mode {
            case.knobs.insert("conns".into(), json!(1));
            let mut total = 0usize;
            let want = 1 + s.knobs.usize_below(4);
            let mut tries = 0;
            while case.events.len() < want && tries < 40 {
                tries += 1;
                let mut ev = gen_request(&mut s.workload, true, false);
                let Some(b) = request_bytes(&ev) else { continue };
                if total + b.len() > ENUM_MAX {
                    continue;
                }
                total += b.len();
                ev["c"] = json!(0);
                case.events.push(ev);
            }
            return case;
        }
        let conns = if s.knobs.chance(1, 3) { 2 } else { 1 };
        case.knobs.insert("conns".into(), json!(conns));
        let nreq = s.knobs.short_len(1, 24);
        let style = s.knobs.below(5); // 0 random cuts, 1 byte-at-a-time for short streams, 2 no cuts (pure pipelining), 3 cut after every header-ish position, 4 random
        for _ in 0..nreq {
            let c = if conns == 2 && s.workload.chance(1, 3) { 1 } else { 0 };
            let mut ev = gen_request(&mut s.workload, false, c == 1);
            let Some(b) = request_bytes(&ev) else { continue };
            ev["c"] = json!(c);
            case.events.push(ev);
            let len = b.len();
            match style {
                2 => {
                    if s.sched.chance(1, 6) {
                        case.events.push(json!({"op":"cut","c":c,"back":0}));
                    }
                }
                1 if len <= 48 => {
                    for k in (0..len).rev() {
                        case.events.push(json!({"op":"cut","c":c,"back":k}));
                    }
                }
                _ => {
                    let ncuts = s.sched.below(4);
                    let mut backs: Vec<usize> = (0..ncuts)
                        .map(|_| match s.sched.below(4) {
                            0 => s.sched.usize_below(len.min(8) + 1),                   // near the end (CRLF of the last bulk)
                            1 => len.saturating_sub(s.sched.usize_below(len.min(24) + 1)), // near the start (headers)
                            _ => s.sched.usize_below(len + 1),
                        })
                        .collect();
                    backs.sort_unstable_by(|a, b| b.cmp(a));
                    backs.dedup();
                    for k in backs {
                        case.events.push(json!({"op":"cut","c":c,"back":k}));
                    }
                }
            }
        }
        case
    }
    fn shrink_event(&self, ev: &Value) -> Vec<Value> {
        let mut out = Vec::new();
        if op(ev) == "frame" {
            let c = ev["c"].clone();
            out.push(json!({"op":"frame","c":c,"v": w::to_json(&cmd(&[b"PING"]))}));
            out.push(json!({"op":"frame","c":c,"v": w::to_json(&cmd(&[b"ECHO", b"ab"]))}));
        }
        out
    }
    fn execute(&self, case: &Case) -> Outcome {
        let mut o = Outcome::new();
        let enum_mode = case.knob_str("mode", "random") == "enum";
        let nconn = if enum_mode { 1 } else { case.knob_u64("conns", 1).clamp(1, 2) as usize };
        // ---- build the request list (with cut marks), route stateful requests to connection 0
        struct Req {
            c: usize,
            bytes: Vec<u8>,
            frame: HVal,
            inline: bool,
            cuts_back: Vec<usize>,
        }
        let mut reqs: Vec<Req> = Vec::new();
        let mut kinds: Vec<String> = Vec::new();
        for ev in &case.events {
            match op(ev) {
                "frame" | "inline" => {
                    let Some(b) = request_bytes(ev) else { continue };
                    let frame = match w::parse_request(&b) {
                        Parsed::Frame(v, n) if n == b.len() => v,
                        _ => continue, // not a well-formed request: outside the property's domain
                    };
                    let mut c = (ev["c"].as_u64().unwrap_or(0) as usize) % nconn;
                    if c == 1 && is_stateful(&frame) {
                        c = 0;
                    }
                    reqs.push(Req { c, bytes: b, frame, inline: op(ev) == "inline", cuts_back: Vec::new() });
                }
                "cut" => {
                    let c = (ev["c"].as_u64().unwrap_or(0) as usize) % nconn;
                    let back = ev["back"].as_u64().unwrap_or(0) as usize;
                    // attaches to the latest request of that connection
                    if let Some(r) = reqs.iter_mut().rev().find(|r| r.c == c) {
                        if back < r.bytes.len() {
                            r.cuts_back.push(back);
                        }
                    }
                }
                _ => {}
            }
        }
        // ---- twin: expected replies; drop requests that belong to C22 (CR/LF in a simple error)
        let mut expected: Vec<Vec<HVal>>;
        let mut rounds = 0;
        loop {
            let twin = Twin::new();
            expected = vec![Vec::new(); nconn];
            let mut bad: Vec<usize> = Vec::new();
            // connection 1 is stateless, so "all of conn 0, then all of conn 1" is equivalent to any interleaving
            let order: Vec<usize> = (0..reqs.len()).filter(|&i| reqs[i].c == 0).chain((0..reqs.len()).filter(|&i| reqs[i].c == 1)).collect();
            for i in order {
                match twin.reply(&reqs[i].frame) {
                    Ok(v) => {
                        if unencodable(&v) {
                            bad.push(i);
                        }
                        expected[reqs[i].c].push(v);
                    }
                    Err(msg) => {
                        o.violate(Violation::new("C20/twin/handle_command_panic", format!("handle_command panicked on {}: {msg}", w::show_val(&reqs[i].frame)), i));
                        return o;
                    }
                }
            }
            if bad.is_empty() || rounds > 4 {
                break;
            }
            rounds += 1;
            o.probe_n("c22_domain_request_skipped", bad.len() as u64);
            bad.sort_unstable();
            for i in bad.into_iter().rev() {
                reqs.remove(i);
            }
        }
        if reqs.is_empty() {
            o.state_hash = 1;
            return o;
        }
        // ---- streams
        let mut conns: Vec<ConnStream> = (0..nconn).map(|_| ConnStream { bytes: Vec::new(), frames: Vec::new(), cuts: Vec::new() }).collect();
        for r in &reqs {
            let cs = &mut conns[r.c];
            let start = cs.bytes.len();
            cs.bytes.extend_from_slice(&r.bytes);
            let end = cs.bytes.len();
            cs.frames.push((start, end, r.frame.clone(), r.inline));
            for b in &r.cuts_back {
                cs.cuts.push(end - b);
            }
            kinds.push(match &r.frame {
                HVal::Array(xs) => match xs.first() {
                    Some(HVal::Bulk(Some(b))) => format!("{}{}/{}", if r.inline { "i:" } else { "" }, w::latin1(&b.to_ascii_uppercase()), xs.len()),
                    _ => "arr?".into(),
                },
                HVal::Simple(_) => "+".into(),
                HVal::Error(_) => "-".into(),
                HVal::Int(_) => ":".into(),
                HVal::Bulk(_) => "$".into(),
                HVal::Null => "_".into(),
            });
            // probes about the workload
            fn scan(v: &HVal, o: &mut Outcome, depth: usize) {
                match v {
                    HVal::Bulk(None) => o.probe("null_bulk"),
                    HVal::Bulk(Some(b)) => {
                        if b.is_empty() {
                            o.probe("empty_bulk");
                        }
                        if b.windows(2).any(|x| x == b"\r\n") {
                            o.probe("binary_crlf_payload");
                        }
                        if b.len() > 4096 {
                            o.probe("query_longer_than_read_buffer");
                        }
                    }
                    HVal::Array(xs) => {
                        if depth > 0 {
                            o.probe("nested_array");
                        }
                        for x in xs {
                            scan(x, o, depth + 1);
                        }
                    }
                    _ => {}
                }
            }
            if r.inline {
                o.probe("inline_command");
            } else {
                scan(&r.frame, &mut o, 0);
            }
        }
        for cs in conns.iter_mut() {
            cs.cuts.sort_unstable();
            cs.cuts.dedup();
            cs.cuts.retain(|c| *c > 0 && *c < cs.bytes.len());
        }
        if nconn == 2 && !conns[1].bytes.is_empty() && !conns[0].bytes.is_empty() {
            o.probe("two_connections");
        }
        // the harness's own reading of the whole stream must give the same frames (self-check of the reference reader)
        for (ci, cs) in conns.iter().enumerate() {
            let mut pos = 0;
            let mut k = 0;
            while pos < cs.bytes.len() {
                match w::parse_request(&cs.bytes[pos..]) {
                    Parsed::Frame(v, n) if cs.frames.get(k).map(|f| f.2 == v && f.1 == pos + n).unwrap_or(false) => {
                        pos += n;
                        k += 1;
                    }
                    other => {
                        o.violate(Violation::new("C20/harness/reference_reader_disagrees_with_itself", format!("conn {ci} at {pos}: {other:?}"), k));
                        return o;
                    }
                }
            }
        }
        // ---- round trip decode(encode(v)) == v for every generated value and every expected reply
        for v in reqs.iter().filter(|r| !r.inline).map(|r| &r.frame).chain(expected.iter().flatten()) {
            let Some(rv) = to_resp(v) else { continue };
            let r = catch_unwind(AssertUnwindSafe(|| {
                let mut enc = Vec::new();
                rv.encode(&mut enc).map_err(|e| e.to_string())?;
                let mut b = BytesMut::from(&enc[..]);
                let back = RespValue::decode(&mut b).map_err(|e| e.to_string())?;
                Ok::<_, String>((back, b.len(), enc))
            }));
            o.steps += 1;
            match r {
                Err(_) => {
                    o.violate(Violation::new("C20/roundtrip/panic", format!("encode/decode of {} panicked: {}", w::show_val(v), crate::kit::runner::last_panic()), 0));
                    return o;
                }
                Ok(Err(e)) => {
                    o.violate(Violation::new("C20/roundtrip/error", format!("encode/decode of {} failed: {e}", w::show_val(v)), 0));
                    return o;
                }
                Ok(Ok((back, left, enc))) => {
                    if back.as_ref() != Some(&rv) || left != 0 {
                        o.violate(Violation::new("C20/roundtrip/value_changed", format!("{} encoded as {} decodes to {:?} (+{left} bytes left)", w::show_val(v), w::show(&enc), back), 0));
                        return o;
                    }
                }
            }
        }
        // ---- sub-executions
        let mut subs: Vec<Vec<Vec<usize>>> = Vec::new(); // each: cuts per connection
        if let Some(pin) = case.pin() {
            let cuts: Vec<Vec<usize>> = (0..nconn)
                .map(|ci| pin["cuts"].get(ci).and_then(|x| x.as_array()).map(|a| a.iter().filter_map(|x| x.as_u64()).map(|x| x as usize).collect()).unwrap_or_default())
                .collect();
            subs.push(cuts);
        } else if enum_mode && conns[0].bytes.len() <= ENUM_MAX {
            let n = conns[0].bytes.len();
            subs.push(vec![vec![]]);
            for i in 1..n {
                subs.push(vec![vec![i]]);
            }
            for i in 1..n {
                for j in i + 1..n {
                    subs.push(vec![vec![i, j]]);
                }
            }
            o.probe("enumerated_small_stream");
        } else {
            subs.push(conns.iter().map(|c| c.cuts.clone()).collect());
        }
        o.evaluations = subs.len() as u64;
        let pinned = case.pin().is_some();
        let mut classes_seen: Vec<&'static str> = Vec::new();
        let mut nontrivial = false;
        let mut hash = 0u64;
        for (si, cuts) in subs.iter().enumerate() {
            // enumerated splits use the quiet stream/schedule except every 7th (and the pinned replay keeps what failed)
            let quiet = enum_mode && !pinned && si % 7 != 3;
            let quiet = if pinned { case.pin().and_then(|p| p["quiet"].as_bool()).unwrap_or(false) } else { quiet };
            let sub = run_split(case, &conns, cuts, &expected, quiet);
            o.steps += sub.steps;
            hash = hash.rotate_left(5) ^ sub.out_hash;
            if sub.spurious > 0 {
                o.fault("spurious_pending");
            }
            if sub.short_writes > 0 {
                o.fault("short_write");
            }
            // where the cuts fell
            for (ci, cs) in conns.iter().enumerate() {
                let mut prev = 0usize;
                for &c in cuts[ci].iter().chain(std::iter::once(&cs.bytes.len())) {
                    let inside = cs.frames.iter().filter(|f| f.0 >= prev && f.1 <= c).count();
                    if inside >= 2 {
                        if si == 0 || !enum_mode {
                            o.probe("pipelined_delivery");
                        }
                        nontrivial = true;
                    }
                    prev = c;
                }
                for (k, f) in cs.frames.iter().enumerate() {
                    if cuts[ci].iter().any(|c| *c > f.0 && *c < f.1) {
                        nontrivial = true;
                        o.fault("chunked_delivery");
                        let cl = cut_class(cs, k, &cuts[ci]);
                        if !classes_seen.contains(&cl) {
                            classes_seen.push(cl);
                        }
                        match cl {
                            "bulk_payload" | "after_bulk_header" | "bulk_crlf" => o.probe("split_in_bulk_payload"),
                            "bulk_header" | "array_header" => o.probe("split_in_header"),
                            "between_elements" | "after_array_header" => o.probe("split_between_elements"),
                            _ => {}
                        }
                    }
                }
            }
            if !sub.violations.is_empty() {
                let pin = json!({"cuts": cuts, "quiet": quiet});
                for v in sub.violations {
                    o.violate(v.with_pin(pin.clone()));
                }
                break;
            }
        }
        classes_seen.sort_unstable();
        o.nontrivial = nontrivial;
        o.class_key = hash_str(&format!("{}|{}|{}", kinds.join(","), classes_seen.join(","), enum_mode));
        o.state_hash = hash ^ hash_str(&kinds.join(","));
        o
    }
}
