//! C21 — the RESP decoder is safe on arbitrary bytes.
//!
//! Sim: a byzantine client.  Three kinds of run:
//!   * `enum`   — every byte string of a given length over a 12-symbol RESP alphabet sharing a
//!                prefix (one run = one block of the enumeration; the thorough tier covers ALL
//!                strings of length <= 6, the quick tier all of length <= 5 plus sampled blocks);
//!   * `mutate` — valid frames with mutated lengths (-2, i64::MIN, i64::MAX, 10^10, usize::MAX,
//!                non-digits), deep nesting (10 … 10^5), missing/garbled CRLF, truncation, byte
//!                flips, each given to the decoder loop whole and split in two deliveries;
//!   * `conn`   — the same inputs sent through the REAL `handle_connection` on connection 0
//!                while an honest client on connection 1 must keep getting correct replies.
//! Every probe runs in a forked CHILD of the worker (kit::forked) on a 2 MiB stack (tokio's
//! worker-thread default) with RLIMIT_AS lowered, per input, to
//! `current size + 1 MiB + 64 x input bytes`: a panic is caught and reported, a stack
//! overflow / allocation abort kills the child and the parent reports the input in flight.

use crate::kit::core::*;
use crate::kit::forked::{self, ChildEnd, Reporter};
use crate::kit::model::op;
use crate::kit::respsim::*;
use crate::kit::respwire::{self as w, HVal};
use crate::kit::rng::{Rng, Streams};
use bytes::BytesMut;
use samyama::protocol::resp::{RespError, RespValue};
use serde_json::{json, Value};
use std::panic::{catch_unwind, AssertUnwindSafe};

pub struct C21;

pub const ALPHABET: &[u8; 12] = b"*$+-:_\r\n012a";
const BLOCK_TAIL: usize = 3; // symbols enumerated inside one run: 12^3 = 1728 strings
const SLACK: u64 = 1 << 20; // allocation bound checked: 1 MiB + 64 x input bytes of address-space growth
const MULT: u64 = 64;
const LOOSE: u64 = 4 << 30;

// ---------------------------------------------------------------------------------
// inputs

#[derive(Clone)]
struct Item {
    label: String,
    bytes: Vec<u8>,
    /// deliver in two segments cut here (decoder-loop probes) / at these offsets (conn)
    cuts: Vec<usize>,
    /// conn mode: Some(frame) = honest request on connection 1
    honest: Option<HVal>,
}

fn nest_bytes(depth: usize, inner: &[u8], width: usize) -> Vec<u8> {
    let mut b = Vec::with_capacity(depth * 4 + inner.len());
    let head = format!("*{width}\r\n");
    for _ in 0..depth {
        b.extend_from_slice(head.as_bytes());
    }
    b.extend_from_slice(inner);
    b
}

fn event_item(ev: &Value) -> Option<Item> {
    let cuts: Vec<usize> = ev["cuts"].as_array().map(|a| a.iter().filter_map(|x| x.as_u64()).map(|x| x as usize).collect()).unwrap_or_default();
    match op(ev) {
        "bytes" => Some(Item { label: ev["label"].as_str().unwrap_or("bytes").to_string(), bytes: w::unlatin1(ev["s"].as_str()?), cuts, honest: None }),
        "nest" => {
            let depth = ev["depth"].as_u64()? as usize;
            let inner = w::unlatin1(ev["inner"].as_str().unwrap_or(""));
            let width = ev["width"].as_u64().unwrap_or(1) as usize;
            Some(Item { label: "deep_nesting".into(), bytes: nest_bytes(depth.min(2_000_000), &inner, width), cuts, honest: None })
        }
        "honest" => {
            let v = w::from_json(&ev["v"])?;
            Some(Item { label: "honest".into(), bytes: w::encoded(&v), cuts: vec![], honest: Some(v) })
        }
        _ => None,
    }
}

fn enum_string(prefix: &[u8], tail_len: usize, k: usize) -> Vec<u8> {
    let mut s = prefix.to_vec();
    let mut x = k;
    let mut tail = vec![0u8; tail_len];
    for i in (0..tail_len).rev() {
        tail[i] = ALPHABET[x % 12];
        x /= 12;
    }
    s.extend_from_slice(&tail);
    s
}

/// Items of an `enum` event: all strings `prefix ++ t`, |t| = tail (or, for "upto", every
/// string of length <= n).
fn enum_items(ev: &Value) -> Vec<Vec<u8>> {
    let mut out = Vec::new();
    if let Some(n) = ev["upto"].as_u64() {
        for len in 1..=(n as usize).min(4) {
            for k in 0..12usize.pow(len as u32) {
                out.push(enum_string(b"", len, k));
            }
        }
        return out;
    }
    let prefix = w::unlatin1(ev["prefix"].as_str().unwrap_or(""));
    let tail = (ev["tail"].as_u64().unwrap_or(BLOCK_TAIL as u64) as usize).min(4);
    for k in 0..12usize.pow(tail as u32) {
        out.push(enum_string(&prefix, tail, k));
    }
    out
}

fn gen_mutation(r: &mut Rng) -> Value {
    let b = |label: &str, s: Vec<u8>, r: &mut Rng| {
        let cut = if s.len() > 1 && r.chance(1, 2) { vec![1 + r.usize_below(s.len() - 1)] } else { vec![] };
        json!({"op":"bytes","label":label,"s": w::latin1(&s),"cuts": cut})
    };
    let lens: [&str; 16] =
        ["-2", "-9223372036854775808", "9223372036854775807", "10000000000", "18446744073709551615", "9223372036854775808", "-1", "-0", "+3", "abc", "", "1a", " 3", "3 ", "0x10", "99999999999999999999999"];
    match r.below(12) {
        0 => {
            // bulk string with a mutated length, alone or as an array element
            let l = *r.pick(&lens);
            let mut s = Vec::new();
            if r.chance(1, 2) {
                s.extend_from_slice(b"*2\r\n$4\r\nECHO\r\n");
            }
            s.extend_from_slice(format!("${l}\r\n").as_bytes());
            if r.chance(2, 3) {
                s.extend_from_slice(b"hello\r\n");
            }
            let label = match l {
                "-2" | "-9223372036854775808" | "-0" => "bulk_len_negative",
                "9223372036854775807" | "10000000000" => "bulk_len_huge",
                _ => "bulk_len_malformed",
            };
            b(label, s, r)
        }
        1 => {
            let l = *r.pick(&lens);
            let mut s = format!("*{l}\r\n").into_bytes();
            for _ in 0..r.below(3) {
                s.extend_from_slice(b"$1\r\nx\r\n");
            }
            let label = match l {
                "10000000000" | "9223372036854775807" | "18446744073709551615" => "array_len_huge",
                "-2" | "-1" | "-9223372036854775808" => "array_len_negative",
                _ => "array_len_malformed",
            };
            b(label, s, r)
        }
        2 => {
            // moderately large counts with little data behind them: the allocation bound
            let n = *r.pick(&[1000u64, 65_536, 1_000_000, 16_777_216, 300_000_000]);
            let mut s = format!("*{n}\r\n").into_bytes();
            for _ in 0..r.below(4) {
                s.extend_from_slice(b":1\r\n");
            }
            b("array_len_large_few_elements", s, r)
        }
        3 => {
            let depth = *r.pick(&[10u64, 100, 1000, 10_000, 30_000, 100_000]);
            let inner = *r.pick(&[":1\r\n", "", "$1\r\nx\r\n", "*0\r\n", "x"]);
            let width = if depth <= 1000 && r.chance(1, 4) { 2 } else { 1 };
            json!({"op":"nest","depth":depth,"inner":inner,"width":width,"cuts": if r.chance(1,3) { vec![depth * 2] } else { vec![] }})
        }
        4 => {
            // CRLF garbled somewhere in a valid frame
            let opts: [&[u8]; 6] = [b"*2\r\n$4\r\nECHO\r\n$5\r\nhello\r\n", b"$5\r\nhello\r\n", b"+OK\r\n", b":12\r\n", b"_\r\n", b"*1\r\n$4\r\nPING\r\n"];
            let base: &[u8] = *r.pick(&opts);
            let mut s = base.to_vec();
            let pos: Vec<usize> = (0..s.len() - 1).filter(|&i| s[i] == b'\r' && s[i + 1] == b'\n').collect();
            let p = *r.pick(&pos);
            match r.below(4) {
                0 => {
                    s.remove(p);
                }
                1 => {
                    s.remove(p + 1);
                }
                2 => {
                    s.drain(p..p + 2);
                }
                _ => s.swap(p, p + 1),
            }
            b("crlf_garbled", s, r)
        }
        5 => {
            // bulk payload longer / shorter than announced
            let n = r.below(8);
            let m = r.below(8);
            let mut s = format!("${n}\r\n").into_bytes();
            s.extend(std::iter::repeat(b'x').take(m as usize));
            s.extend_from_slice(b"\r\n");
            b("bulk_len_mismatch", s, r)
        }
        6 => {
            // truncated valid frame
            let base = b"*3\r\n$11\r\nGRAPH.QUERY\r\n$7\r\ndefault\r\n$8\r\nRETURN 1\r\n";
            let n = r.usize_below(base.len());
            b("truncated", base[..n].to_vec(), r)
        }
        7 => {
            // byte flips
            let mut s = b"*2\r\n$4\r\nECHO\r\n$5\r\nhello\r\n".to_vec();
            for _ in 0..1 + r.below(3) {
                let i = r.usize_below(s.len());
                s[i] = r.below(256) as u8;
            }
            b("byte_flip", s, r)
        }
        8 => {
            // random bytes over a slightly larger alphabet
            let n = 1 + r.usize_below(24);
            let s: Vec<u8> = (0..n).map(|_| *r.pick(b"*$+-:_\r\n0123456789a \"\\\t\xff\x00")).collect();
            b("random_bytes", s, r)
        }
        9 => {
            // integers and nulls with junk
            let opts: [&[u8]; 11] = [b":\r\n", b":-\r\n", b":9223372036854775808\r\n", b"_x\r\n", b":1 2\r\n", b"+\xff\xfe\r\n", b"-\xc3\x28\r\n", b"\xff\xfe\r\n", b"\"\r\n", b"a \"b\r\n", b"\"\\\r\n"];
            let s: &[u8] = *r.pick(&opts);
            b("scalar_junk", s.to_vec(), r)
        }
        10 => {
            // a long line that never ends / a big announced bulk with part of the payload
            let n = *r.pick(&[5_000usize, 70_000, 300_000]);
            let mut s = if r.chance(1, 2) { b"+".to_vec() } else { format!("${}\r\n", n * 2).into_bytes() };
            s.extend(std::iter::repeat(b'y').take(n));
            b("long_unterminated", s, r)
        }
        _ => {
            // array whose elements are themselves malformed
            let inner = *r.pick(&["$-2\r\n", "*-2\r\n", ":x\r\n", "$3\r\nab\r\n", "_y\r\n", "*10000000000\r\n"]);
            let s = format!("*2\r\n$1\r\na\r\n{inner}").into_bytes();
            b("malformed_element", s, r)
        }
    }
}

fn gen_honest(r: &mut Rng, tag: u64) -> Value {
    let v = match r.below(4) {
        0 => HVal::Array(vec![HVal::Bulk(Some(b"PING".to_vec()))]),
        1 => HVal::Array(vec![HVal::Bulk(Some(b"ECHO".to_vec())), HVal::Bulk(Some(format!("tag{tag}\r\nx").into_bytes()))]),
        2 => HVal::Array(vec![HVal::Bulk(Some(b"PING".to_vec())), HVal::Bulk(Some(format!("t{tag}").into_bytes()))]),
        _ => HVal::Array(vec![HVal::Bulk(Some(b"NOSUCH".to_vec())), HVal::Int(tag as i64)]),
    };
    json!({"op":"honest","v": w::to_json(&v)})
}

// ---------------------------------------------------------------------------------
// child side

fn hard_as() -> u64 {
    let mut r = libc::rlimit { rlim_cur: 0, rlim_max: 0 };
    unsafe {
        libc::getrlimit(libc::RLIMIT_AS, &mut r);
    }
    r.rlim_max as u64
}

fn set_soft_as(limit: u64, hard: u64) {
    let r = libc::rlimit { rlim_cur: limit.min(hard) as libc::rlim_t, rlim_max: hard as libc::rlim_t };
    unsafe {
        libc::setrlimit(libc::RLIMIT_AS, &r);
    }
}

/// The decoder loop of `handle_connection` on the deliveries of one item.
/// Returns "ok v=<values> n=<need-more> e=<protocol errors>" | "panic <msg>" | "noprogress".
fn probe_decode(bytes: &[u8], cuts: &[usize]) -> String {
    let mut buffer = BytesMut::with_capacity(4096);
    let (mut values, mut need, mut errs) = (0u64, 0u64, 0u64);
    let mut prev = 0usize;
    let mut bounds: Vec<usize> = cuts.iter().cloned().filter(|c| *c > 0 && *c < bytes.len()).collect();
    bounds.sort_unstable();
    bounds.dedup();
    bounds.push(bytes.len());
    for end in bounds {
        buffer.extend_from_slice(&bytes[prev..end]);
        prev = end;
        let mut iters = 0usize;
        loop {
            iters += 1;
            let before = buffer.len();
            let r = catch_unwind(AssertUnwindSafe(|| RespValue::decode(&mut buffer)));
            match r {
                Err(_) => return format!("panic {}", crate::kit::runner::last_panic()),
                Ok(Ok(Some(_v))) => {
                    values += 1;
                    if buffer.len() >= before || iters > bytes.len() + 8 {
                        return "noprogress".into();
                    }
                }
                Ok(Ok(None)) | Ok(Err(RespError::Incomplete)) => {
                    need += 1;
                    break;
                }
                Ok(Err(_)) => {
                    errs += 1;
                    break;
                }
            }
        }
    }
    format!("ok v={values} n={need} e={errs}")
}

struct Limits {
    hard: u64,
    tight: bool,
}

impl Limits {
    fn arm(&self, input_len: usize) {
        if self.tight {
            set_soft_as(forked::vm_size_bytes() + SLACK + MULT * input_len as u64, self.hard);
        }
    }
    fn disarm(&self) {
        if self.tight {
            set_soft_as(self.hard, self.hard);
        }
    }
}

fn child_decode(rep: &Reporter, items: &[(usize, Item)], lim: &Limits) {
    for (i, it) in items {
        rep.line(&format!("S {i}"));
        lim.arm(it.bytes.len());
        let whole = probe_decode(&it.bytes, &[]);
        let split = if it.cuts.is_empty() { None } else { Some(probe_decode(&it.bytes, &it.cuts)) };
        lim.disarm();
        let res = match (&whole, &split) {
            (a, _) if !a.starts_with("ok") => a.clone(),
            (_, Some(b)) if !b.starts_with("ok") => format!("{b} [split {:?}]", it.cuts),
            (a, _) => a.clone(),
        };
        rep.line(&format!("R {i} {res}"));
    }
}

/// Enumerated short strings: progress and per-string outcome go through shared memory
/// (`sh[0..8]` = 1 + position of the string in flight, `sh[8 + pos]` = outcome letter); only
/// anomalies are written to the pipe.
fn child_enum(rep: &Reporter, strings: &[(usize, Vec<u8>)], lim: &Limits, sh: &forked::Shared) {
    lim.arm(16);
    for (pos, (i, s)) in strings.iter().enumerate() {
        sh.set_u64(0, pos as u64 + 1);
        let res = probe_decode(s, &[]);
        if !res.starts_with("ok") {
            sh.set(8 + pos, b'A');
            rep.line(&format!("R {i} {res}"));
        } else {
            sh.set(8 + pos, if res.contains("v=0") { if res.contains("e=0") { b'n' } else { b'e' } } else { b'v' });
        }
    }
    sh.set_u64(0, 0);
    lim.disarm();
}

/// Connection layer: events in order; byzantine bytes go to connection 0, honest requests to
/// connection 1 and are checked at once.
fn child_conn(rep: &Reporter, items: &[(usize, Item)], lim: &Limits) {
    let mut sim = ServerSim::new(&[StreamCfg::default(), StreamCfg::default()]);
    let twin = Twin::new();
    let mut rr = 0usize;
    for (i, it) in items {
        rep.line(&format!("S {i}"));
        let mut res = String::from("ok");
        if let Some(frame) = &it.honest {
            let want = twin.reply(frame);
            sim.deliver(1, it.bytes.clone());
            sim.run_until_stalled(|n| { rr += 1; rr % n.max(1) }, 10_000);
            let out = sim.streams[1].take_output();
            if let Some(msg) = &sim.panicked[1] {
                res = format!("panic {msg}");
            } else if let Ok(wv) = want {
                if w::encoded(&wv) != out {
                    res = format!("honest_unserved got {} want {}", w::show(&out), w::show_val(&wv));
                }
            }
        } else if sim.panicked[0].is_none() && !sim.finished(0) {
            lim.arm(it.bytes.len());
            let mut prev = 0;
            let mut bounds: Vec<usize> = it.cuts.iter().cloned().filter(|c| *c > 0 && *c < it.bytes.len()).collect();
            bounds.sort_unstable();
            bounds.dedup();
            bounds.push(it.bytes.len());
            for end in bounds {
                sim.deliver(0, it.bytes[prev..end].to_vec());
                prev = end;
                if sim.run_until_stalled(|n| { rr += 1; rr % n.max(1) }, 100_000).is_none() {
                    res = "livelock".into();
                }
            }
            lim.disarm();
            let _ = sim.streams[0].take_output();
            if let Some(msg) = &sim.panicked[0] {
                res = format!("panic {msg}");
            }
        } else {
            res = "skipped".into();
        }
        rep.line(&format!("R {i} {res}"));
    }
    // close both; tasks that have not panicked must end
    rep.line("S close");
    let mut res = String::from("ok");
    for c in 0..2 {
        sim.close(c);
    }
    sim.run_until_stalled(|_| 0, 100_000);
    for c in 0..2 {
        if sim.panicked[c].is_none() && !sim.finished(c) {
            res = format!("conn{c}_not_finished_after_close");
        }
        if let Some(msg) = &sim.panicked[c] {
            if !res.starts_with("panic") {
                res = format!("panic_at_close {msg}");
            }
        }
    }
    rep.line(&format!("R close {res}"));
}

// ---------------------------------------------------------------------------------
// parent side

#[derive(PartialEq, Clone, Copy)]
enum Mode {
    Enum,
    Mutate,
    Conn,
}

struct Pass {
    /// item -> result text
    results: Vec<(String, String)>,
    /// item that was in flight when the child died, how it died
    death: Option<(String, String, String)>,
}

fn run_pass(mode: Mode, items: &[(usize, Item)], strings: &[(usize, Vec<u8>)], tight: bool) -> Result<Pass, String> {
    let sh = forked::Shared::new(8 + strings.len()).ok_or("mmap failed")?;
    let rpt = forked::run_in_child(Some(LOOSE), |rep| {
        let hard = hard_as();
        let lim = Limits { hard, tight };
        match mode {
            Mode::Enum => child_enum(rep, strings, &lim, &sh),
            Mode::Mutate => child_decode(rep, items, &lim),
            Mode::Conn => child_conn(rep, items, &lim),
        }
    })?;
    let text = String::from_utf8_lossy(&rpt.out).to_string();
    let mut results = Vec::new();
    let mut in_flight: Option<String> = None;
    for line in text.lines() {
        let mut p = line.splitn(3, ' ');
        match (p.next(), p.next(), p.next()) {
            (Some("S"), Some(i), _) => in_flight = Some(i.to_string()),
            (Some("R"), Some(i), rest) => {
                results.push((i.to_string(), rest.unwrap_or("").to_string()));
                in_flight = None;
            }
            _ => {}
        }
    }
    if mode == Mode::Enum {
        for (pos, (i, _)) in strings.iter().enumerate() {
            match sh.get(8 + pos) {
                c @ (b'v' | b'n' | b'e') => results.push((i.to_string(), format!("k{}", c as char))),
                _ => {}
            }
        }
        let f = sh.get_u64(0) as usize;
        in_flight = if f >= 1 && f <= strings.len() { Some(strings[f - 1].0.to_string()) } else { None };
    }
    let death = match &rpt.end {
        ChildEnd::Exited(0) => None,
        end => Some((in_flight.unwrap_or_else(|| "?".into()), forked::death_kind(end, &rpt.err_tail).to_string(), format!("{end:?}; stderr: {}", rpt.err_tail))),
    };
    Ok(Pass { results, death })
}

fn panic_sig(msg: &str) -> String {
    // message without digits + source file (no line numbers: they move with every edit)
    let m = msg.split(" @ ").next().unwrap_or("");
    let loc = msg.split(" @ ").nth(1).unwrap_or("");
    let file = loc.rsplit('/').next().unwrap_or(loc).split(':').next().unwrap_or("");
    let mut out = String::new();
    for c in m.chars() {
        if out.len() >= 48 {
            break;
        }
        if c.is_ascii_alphabetic() {
            out.push(c.to_ascii_lowercase());
        } else if !out.ends_with('_') {
            out.push('_');
        }
    }
    format!("{}@{}", out.trim_matches('_'), file)
}

impl Scenario for C21 {
    fn id(&self) -> &'static str {
        "C21"
    }
    fn runs(&self, tier: Tier) -> u64 {
        // every enum unit has an index below 13 + 2 * (units - 13)
        match tier {
            Tier::Quick => 13 + 2 * (Self::enum_units(tier) - 13) + 120,
            Tier::Thorough => 13 + 2 * (Self::enum_units(tier) - 13) + 12_000,
        }
    }
    fn stack_mb(&self) -> usize {
        2 // tokio's default worker-thread stack: recursion depth that overflows here overflows in the server
    }
    fn rule(&self) -> &'static str {
        "run kinds: enum (one block of 1728 strings of the exhaustive enumeration over the alphabet {* $ + - : _ CR LF 0 1 2 a}; run 0 = all strings of length <= 3; thorough = every string of length <= 6, quick = every string of length <= 5 + 60 sampled length-6 blocks), mutate (3-10 mutated frames to the decoder loop, whole and split), conn (mutated frames through handle_connection on connection 0 interleaved with an honest client on connection 1). Each run executes in a forked child with a 2 MiB stack and a per-input RLIMIT_AS. Non-trivial = at least one input reached an error or need-more outcome (enum: always). Distinct = hash of (mode, labels / prefix). evaluations counts inputs."
    }
    fn real_components(&self) -> Vec<&'static str> {
        vec!["protocol::resp::RespValue::decode", "protocol::server::handle_connection (conn runs)", "protocol::command::CommandHandler (conn runs)"]
    }
    fn stub_components(&self) -> Vec<&'static str> {
        vec!["TcpStream -> kit::stream::SimStream", "tokio runtime -> kit::exec::Tasks", "server process -> forked child of the worker (kit::forked), stack 2 MiB, RLIMIT_AS per input"]
    }
    fn assumptions(&self) -> Vec<&'static str> {
        vec![
            "allocation bound actually checked: during the decoding of one input the process address space may grow by at most 1 MiB + 64 x input bytes (RLIMIT_AS; an allocation beyond it fails and Rust aborts); allocations served from already-mapped free heap are not seen",
            "a death by allocation failure is confirmed by re-running the single input in a fresh child (tight limit must kill again) and classified by a third run under a 4 GiB limit",
            "stack overflow is judged on a 2 MiB stack, tokio's default for the worker threads that poll handle_connection",
            "well-formedness of the byzantine connection's replies is C22's subject and not judged here",
        ]
    }
    fn required_probes(&self, tier: Tier) -> Vec<&'static str> {
        let mut v = vec!["outcome_value", "outcome_need_more", "outcome_protocol_error", "deep_nesting_probe", "huge_length_probe", "negative_length_probe", "honest_request_checked", "split_probe"];
        if tier == Tier::Thorough {
            v.push("enum_len6_block");
        }
        v
    }
    fn extra_evidence(&self, tier: Tier) -> serde_json::Map<String, Value> {
        let mut m = serde_json::Map::new();
        m.insert("alphabet".into(), json!(w::latin1(ALPHABET)));
        m.insert(
            "enumeration".into(),
            json!(match tier {
                Tier::Quick => "all 271,452 strings of length <= 5 + 60 sampled blocks (103,680 strings) of length 6",
                Tier::Thorough => "all 3,257,436 strings of length <= 6 (space_size 3257436, exhaustive for that space)",
            }),
        );
        m
    }
    fn generate(&self, s: &mut Streams, run_index: u64, tier: Tier) -> Case {
        let mut case = Case::new("C21");
        // run order: the 13 blocks of length <= 4 first, then enum blocks interleaved 1:1 with
        // mutate / conn runs (so that any prefix of the run indices exercises all three kinds)
        let units = Self::enum_units(tier);
        let unit = if run_index < 13 {
            Some(run_index)
        } else if (run_index - 13) % 2 == 0 && 13 + (run_index - 13) / 2 < units {
            Some(13 + (run_index - 13) / 2)
        } else {
            None
        };
        if let Some(u) = unit {
            case.knobs.insert("mode".into(), json!("enum"));
            case.events.push(Self::enum_unit(u, tier, &mut s.workload));
            return case;
        }
        let conn = (run_index / 2) % 2 == 1;
        case.knobs.insert("mode".into(), json!(if conn { "conn" } else { "mutate" }));
        let n = 3 + s.knobs.usize_below(8);
        for t in 0..n {
            case.events.push(gen_mutation(&mut s.workload));
            if conn && s.workload.chance(2, 3) {
                case.events.push(gen_honest(&mut s.workload, t as u64));
            }
        }
        if conn {
            case.events.push(gen_honest(&mut s.workload, 99));
        }
        case
    }
    fn shrink_event(&self, ev: &Value) -> Vec<Value> {
        let mut out = Vec::new();
        match op(ev) {
            "nest" => {
                let d = ev["depth"].as_u64().unwrap_or(0);
                for nd in [d / 2, d * 3 / 4, d.saturating_sub(d / 10)] {
                    if nd > 0 && nd < d {
                        let mut e = ev.clone();
                        e["depth"] = json!(nd);
                        e["cuts"] = json!([]);
                        out.push(e);
                    }
                }
            }
            "bytes" => {
                if ev["cuts"].as_array().map(|a| !a.is_empty()).unwrap_or(false) {
                    let mut e = ev.clone();
                    e["cuts"] = json!([]);
                    out.push(e);
                }
                let s = w::unlatin1(ev["s"].as_str().unwrap_or(""));
                if s.len() > 1 {
                    // drop a trailing / leading part
                    for t in [&s[..s.len() / 2], &s[s.len() / 2..], &s[..s.len() - 1], &s[1..]] {
                        let mut e = ev.clone();
                        e["s"] = json!(w::latin1(t));
                        e["cuts"] = json!([]);
                        out.push(e);
                    }
                }
            }
            _ => {}
        }
        out
    }
    fn execute(&self, case: &Case) -> Outcome {
        let mut o = Outcome::new();
        let mode = match case.knob_str("mode", "mutate").as_str() {
            "enum" => Mode::Enum,
            "conn" => Mode::Conn,
            _ => Mode::Mutate,
        };
        // ---- expand
        let mut items: Vec<(usize, Item)> = Vec::new();
        let mut strings: Vec<(usize, Vec<u8>)> = Vec::new();
        let mut labels: Vec<String> = Vec::new();
        if mode == Mode::Enum {
            for ev in &case.events {
                if op(ev) == "enum" {
                    for sbytes in enum_items(ev) {
                        strings.push((strings.len(), sbytes));
                    }
                    labels.push(format!("enum:{}:{}", ev["prefix"].as_str().unwrap_or(""), ev["tail"].as_u64().or(ev["upto"].as_u64()).unwrap_or(0)));
                    if ev["prefix"].as_str().map(|p| p.chars().count() + ev["tail"].as_u64().unwrap_or(0) as usize == 6).unwrap_or(false) {
                        o.probe("enum_len6_block");
                    }
                }
            }
            if let Some(pin) = case.pin() {
                if let Some(sx) = pin["s"].as_str() {
                    strings = vec![(0, w::unlatin1(sx))];
                }
            }
        } else {
            for (i, ev) in case.events.iter().enumerate() {
                if let Some(it) = event_item(ev) {
                    if it.honest.is_some() && mode != Mode::Conn {
                        continue;
                    }
                    labels.push(it.label.clone());
                    match it.label.as_str() {
                        "deep_nesting" => o.probe("deep_nesting_probe"),
                        "bulk_len_huge" | "array_len_huge" | "array_len_large_few_elements" => o.probe("huge_length_probe"),
                        "bulk_len_negative" | "array_len_negative" => o.probe("negative_length_probe"),
                        _ => {}
                    }
                    if !it.cuts.is_empty() {
                        o.probe("split_probe");
                    }
                    items.push((i, it));
                }
            }
        }
        let total = if mode == Mode::Enum { strings.len() } else { items.len() };
        o.evaluations = total.max(1) as u64;
        if total == 0 {
            o.state_hash = 1;
            return o;
        }
        // ---- passes: after a death, report it and continue behind the killer (bounded)
        let label_of = |id: &str| -> (String, Vec<u8>) {
            if mode == Mode::Enum {
                let k: usize = id.parse().unwrap_or(usize::MAX);
                strings.iter().find(|(i, _)| *i == k).map(|(_, s)| ("short_string".to_string(), s.clone())).unwrap_or_default()
            } else {
                let k: usize = id.parse().unwrap_or(usize::MAX);
                items.iter().find(|(i, _)| *i == k).map(|(_, it)| (it.label.clone(), it.bytes.clone())).unwrap_or_else(|| ("close".into(), vec![]))
            }
        };
        let layer = match mode {
            Mode::Conn => "connection",
            _ => "decoder",
        };
        let mut rest_items = items.clone();
        let mut rest_strings = strings.clone();
        let mut state = String::new();
        let mut deaths = 0;
        loop {
            let pass = match run_pass(mode, &rest_items, &rest_strings, true) {
                Ok(p) => p,
                Err(e) => {
                    o.violate(Violation::new("C21/harness/fork_failed", e, 0));
                    return o;
                }
            };
            o.steps += pass.results.len() as u64;
            for (id, res) in &pass.results {
                state.push_str(id);
                state.push('=');
                if res.starts_with("kv") {
                    o.probe("outcome_value");
                    state.push('v');
                } else if res.starts_with("kn") {
                    o.probe("outcome_need_more");
                    state.push('n');
                } else if res.starts_with("ke") {
                    o.probe("outcome_protocol_error");
                    state.push('e');
                } else if res.starts_with("ok") {
                    state.push_str(res);
                    if res.contains("v=") && !res.contains("v=0") {
                        o.probe("outcome_value");
                    }
                    if res.contains("n=") && !res.contains("n=0") {
                        o.probe("outcome_need_more");
                    }
                    if res.contains("e=") && !res.contains("e=0") {
                        o.probe("outcome_protocol_error");
                    }
                    if mode == Mode::Conn && label_of(id).0 == "honest" {
                        o.probe("honest_request_checked");
                    }
                    if res.contains("n=") && !res.contains("n=0") || res.contains("e=") && !res.contains("e=0") {
                        o.nontrivial = true;
                    }
                } else {
                    let (label, bytes) = label_of(id);
                    let step: usize = id.parse().unwrap_or(0);
                    let pin = if mode == Mode::Enum { Some(json!({"s": w::latin1(&bytes)})) } else { None };
                    let v = if let Some(msg) = res.strip_prefix("panic ") {
                        Violation::new(format!("C21/{layer}/panic/{}", panic_sig(msg)), format!("input [{label}] {} : decoder panicked: {msg}", w::show(&bytes)), step)
                    } else if let Some(msg) = res.strip_prefix("panic_at_close ") {
                        Violation::new(format!("C21/{layer}/panic/{}", panic_sig(msg)), format!("at close: {msg}"), step)
                    } else if res.starts_with("noprogress") {
                        Violation::new(format!("C21/{layer}/value_without_progress"), format!("input [{label}] {}: decode returned a value without consuming input (the connection loop would spin)", w::show(&bytes)), step)
                    } else if res.starts_with("honest_unserved") {
                        Violation::new("C21/connection/honest_client_not_served", format!("honest request {}: {res}", w::show(&bytes)), step)
                    } else if res.starts_with("skipped") {
                        state.push('s');
                        continue;
                    } else {
                        Violation::new(format!("C21/{layer}/{}", res.split(' ').next().unwrap_or("other")), format!("input [{label}] {}: {res}", w::show(&bytes)), step)
                    };
                    state.push_str(&v.signature);
                    o.violate(match pin {
                        Some(p) => v.with_pin(p),
                        None => v,
                    });
                }
                state.push(';');
            }
            let Some((id, kind, detail)) = pass.death else { break };
            deaths += 1;
            let (label, bytes) = label_of(&id);
            let step: usize = id.parse().unwrap_or(0);
            // confirm and classify with single-input children
            let single_items: Vec<(usize, Item)> = rest_items.iter().filter(|(i, _)| i.to_string() == id).cloned().collect();
            let single_strings: Vec<(usize, Vec<u8>)> = rest_strings.iter().filter(|(i, _)| i.to_string() == id).cloned().collect();
            let solo_mode = if mode == Mode::Conn { Mode::Mutate } else { mode };
            let confirm = run_pass(solo_mode, &single_items, &single_strings, true).ok().and_then(|p| p.death);
            let loose = run_pass(solo_mode, &single_items, &single_strings, false).ok().and_then(|p| p.death);
            let pin = if mode == Mode::Enum { Some(json!({"s": w::latin1(&bytes)})) } else { None };
            let sig = if kind == "allocation_failure_abort" {
                match (&confirm, &loose) {
                    (None, _) if mode != Mode::Conn => {
                        // not reproducible alone: heap-state artefact of the harness, not a property violation
                        o.probe("alloc_death_not_reproduced_alone");
                        None
                    }
                    (_, None) => Some(format!("C21/{layer}/allocation_exceeds_bound")),
                    (_, Some(_)) => Some(format!("C21/{layer}/process_death/allocation_failure_abort")),
                }
            } else {
                Some(format!("C21/{layer}/process_death/{kind}"))
            };
            if let Some(sig) = sig {
                let v = Violation::new(
                    sig.clone(),
                    format!(
                        "input [{label}] {} ({} bytes) killed the process: {detail}; alone under the tight limit: {}; alone under a 4 GiB limit: {}",
                        w::show(&bytes[..bytes.len().min(60)]),
                        bytes.len(),
                        confirm.as_ref().map(|d| d.1.clone()).unwrap_or_else(|| "survives".into()),
                        loose.as_ref().map(|d| d.1.clone()).unwrap_or_else(|| "survives".into())
                    ),
                    step,
                );
                state.push_str(&sig);
                o.violate(match pin {
                    Some(p) => v.with_pin(p),
                    None => v,
                });
            }
            // continue behind the killer
            if mode == Mode::Enum {
                let k: usize = id.parse().unwrap_or(usize::MAX);
                rest_strings.retain(|(i, _)| *i > k);
            } else if id == "close" || id == "?" {
                break;
            } else {
                let k: usize = id.parse().unwrap_or(usize::MAX);
                if mode == Mode::Conn {
                    // the connection state is gone with the child: replay the history without the killer
                    rest_items.retain(|(i, _)| *i != k);
                } else {
                    rest_items.retain(|(i, _)| *i > k);
                }
            }
            if deaths >= 6 || (rest_items.is_empty() && rest_strings.is_empty()) {
                break;
            }
        }
        if mode == Mode::Enum {
            o.nontrivial = true;
        }
        labels.sort();
        o.class_key = hash_str(&format!("{}|{}", case.knob_str("mode", ""), labels.join(",")));
        o.state_hash = hash_str(&state);
        o
    }
}

impl C21 {
    fn enum_units(tier: Tier) -> u64 {
        match tier {
            Tier::Quick => 1 + 12 + 144 + 60,
            Tier::Thorough => 1 + 12 + 144 + 1728,
        }
    }
    /// Unit 0: all strings of length <= 3.  Then blocks (prefix, 3 enumerated symbols) for
    /// lengths 4, 5, 6.  Quick samples 60 of the 1728 length-6 blocks.
    fn enum_unit(k: u64, tier: Tier, r: &mut Rng) -> Value {
        if k == 0 {
            return json!({"op":"enum","upto":3});
        }
        let (len, idx) = if k < 13 {
            (4usize, (k - 1) as usize)
        } else if k < 157 {
            (5, (k - 13) as usize)
        } else {
            (6, if tier == Tier::Thorough { (k - 157) as usize } else { r.usize_below(1728) })
        };
        let plen = len - BLOCK_TAIL;
        let prefix = enum_string(b"", plen, idx);
        json!({"op":"enum","prefix": w::latin1(&prefix),"tail":BLOCK_TAIL})
    }
}
