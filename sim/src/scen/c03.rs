//! C03 — the parsed-query cache never changes what a query means.
//!
//! Sim: 1–3 logical clients share one `QueryEngine` (as RESP connections share the server's
//! engine) and issue query *strings* drawn from a near-duplicate generator: a small pool of
//! base statements per run, each spelled differently every time it is issued — whitespace
//! outside literals, whitespace **inside** string literals, block/line comments (including a
//! line comment terminated by a newline in one spelling and by a space in another), keyword
//! case, quote style, back-ticked identifiers.  Literals may carry escape sequences (escaped
//! backslash at the very end of a literal, escaped quotes, the other quote kind unescaped) —
//! fixed per run and per slot, so that near-duplicates share them and differ only in the
//! whitespace inside a *later* literal.  Whitespace the grammar does not know (NBSP, FF, VT,
//! U+2028, U+3000 …) appears between keywords, inside literals, and at the very start / very
//! end of the text.  A block comment with a per-run body built from comment markers and quotes
//! (`/*/ it's */`, `/* ** */`, `/*'/ *"*/` …) sits at a fixed gap of every spelling, so that
//! near-duplicates share it and differ only in the whitespace inside a literal *after* it.
//! Multi-word operators and keywords (STARTS WITH, ENDS WITH, IS NOT NULL, ORDER BY, DETACH
//! DELETE, ON CREATE SET, OPTIONAL MATCH, UNION ALL …) are spelled with blanks, tabs, newlines
//! or comments *between their words*.  The scheduler stream interleaves the clients;
//! the cache capacity is a knob (1, 2, 3, 1024) so eviction and re-insertion happen.
//!
//! Oracle (every call): `engine.execute*(s, storeA)` ≡ `parse_query(s)` + a fresh executor on
//! the twin store B that received exactly the same strings — same status, same columns, same
//! bag of rows (cells type-exact, nodes by content), same error text, and after every write
//! the same graph (isomorphism-invariant dump).

use crate::kit::core::*;
use crate::kit::dump::{bag, dump, rows_canon};
use crate::kit::model::*;
use crate::kit::rng::{Rng, Streams};
use samyama::graph::GraphStore;
use samyama::query::{parse_query, MutQueryExecutor, QueryEngine, QueryExecutor};
use serde_json::{json, Value};
use std::collections::BTreeMap;

pub struct C03;

// ------------------------------------------------------------------------------------
// Near-duplicate generator

/// String-literal families: members differ only in whitespace (or sit next to comment
/// markers / quotes so that a lexer-unaware cache key gets them wrong).
const FAMILIES: [&[&str]; 10] = [
    &["a b", "a  b", "a\tb", "a\nb", "a b ", " a b", "a   b"],
    &["x", "x ", " x", "x  "],
    &["p//q", "p //q", "p// q", "p //  q"],
    &["/* z */", "/*  z */", "/* z  */"],
    &["it\\'s a", "it\\'s  a", "it\\'s a "],
    &["say \\\"hi\\\" now", "say  \\\"hi\\\" now", "say \\\"hi\\\"  now"],
    &["", " ", "  "],
    &["x y", "X y", "x  y", "x Y"],
    // whitespace the grammar does not know is ordinary content inside a literal
    &["a b", "a\u{a0}b", "a\u{2003}b", "a \u{a0}b", "a  b"],
    &["p q", "p  q", "p q\u{a0}", "\u{3000}p q", "p\tq"],
];

/// Escape decorations of a string slot: (prefix, suffix, whole).  `whole` = the literal is
/// just prefix+suffix (no family member, so it is identical in every spelling); `¶` stands for
/// the quote kind the literal is *not* delimited by (legal unescaped).  `escape_seq` of the
/// grammar is a backslash followed by any character, so every entry is valid in both quote
/// styles.  What a lexer-unaware scanner gets wrong: where the literal ends.
const DECOR: [(&str, &str, bool); 16] = [
    ("", "\\\\", false),         // 'a b\\'   ends in an escaped backslash
    ("x", "\\\\", true),         // 'x\\'
    ("", "\\\\", true),          // '\\'
    ("", "\\\\\\\\", false), // 'a b\\\\' two escaped backslashes
    ("\\\\", "", false),         // '\\a b'
    ("", "\\'", false),            // 'a b\''
    ("", "\\\"", false),          // 'a b\"'
    ("\\'", "\\'", false),       // '\'a b\''
    ("", "\\\\\\'", false),    // 'a b\\\''  escaped backslash, then escaped quote
    ("\\\"", "\\\\", false),  // '\"a b\\'
    ("¶", "", false),                // '"a b'
    ("", "¶", false),                // 'a b"'
    ("it¶s ", "", false),            // "it's a b"
    ("¶", "\\\\", true),         // '"\\'
    ("\\n", "", false),            // '\na b'
    ("\\'¶", "¶\\\\", false),  // '\'"a b"\\'
];

/// Base statements.  Tokens are separated by single blanks; `§n` is string slot n (all slots
/// of one statement use the same family), `#` an integer slot.  ALL-CAPS words are keywords
/// (their case is varied), everything else is copied.
const READS: [&str; 16] = [
    "RETURN §0 AS x",
    "RETURN §0",
    "RETURN §0 AS x , §1 AS y",
    "RETURN # AS y",
    "UNWIND [ §0 , §1 ] AS x RETURN x",
    "MATCH ( n : A ) WHERE n . s = §0 RETURN n . k",
    "MATCH ( n : A { s : §0 } ) RETURN count ( n ) AS c",
    "MATCH ( n ) WHERE n . s CONTAINS §0 RETURN n . k , n . s",
    "MATCH ( n : A ) RETURN n . k , n . s ORDER BY n . k",
    "RETURN size ( §0 ) AS l",
    "MATCH ( n ) WHERE n . s IN [ §0 , §1 ] RETURN n",
    "MATCH ( n : a ) WHERE n . S = §0 RETURN n . k",
    "RETURN §0 AS a , §1 AS b , §2 AS c",
    "MATCH ( n : A ) WHERE n . s = §0 RETURN n . k , §1 AS t",
    "RETURN §0 + §1 AS x",
    "MATCH ( n : A ) WHERE n . t = §0 RETURN n . s , §1 AS u",
];
const WRITES: [&str; 9] = [
    "CREATE ( n : A { k : # , s : §0 } )",
    "MERGE ( n : A { s : §0 } )",
    "MATCH ( n : A ) WHERE n . s = §0 SET n . t = §1",
    "MATCH ( n ) WHERE n . s = §0 SET n . k = #",
    "MATCH ( n : A { s : §0 } ) DETACH DELETE n",
    "MATCH ( n : A ) WHERE n . s = §0 REMOVE n . t",
    "CREATE ( n : a { k : # , S : §0 } )",
    "CREATE ( n : A { k : # , t : §0 , s : §1 } )",
    "MERGE ( n : A { t : §0 , s : §1 } )",
];

/// Statements built around multi-word operators / keywords (runs with `style.mw`).  The words
/// of such a token are separate template tokens, so the gap *inside* it is spelled like any
/// other gap — and, in these runs, more aggressively (see `mw_gap`).
const MW_READS: [&str; 12] = [
    "RETURN §0 STARTS WITH §1 AS x",
    "RETURN §0 ENDS WITH §1 AS x , §0 STARTS WITH §1 AS y",
    "MATCH ( n : A ) WHERE n . s STARTS WITH §0 RETURN n . k , n . s",
    "MATCH ( n ) WHERE n . s ENDS WITH §0 RETURN n . k , n . s",
    "MATCH ( n : A ) WHERE n . t IS NULL RETURN n . k , n . s",
    "MATCH ( n : A ) WHERE n . t IS NOT NULL RETURN n . s , n . t",
    "MATCH ( n ) WHERE NOT n . s IN [ §0 , §1 ] RETURN n . k , n . s",
    "OPTIONAL MATCH ( n : A { s : §0 } ) RETURN n . k , n . t IS NOT NULL AS d",
    "RETURN §0 AS x UNION ALL RETURN §1 AS x",
    "MATCH ( n : A ) WITH n . s AS s WHERE s IS NOT NULL RETURN DISTINCT s ORDER BY s DESC",
    "MATCH ( n : A ) WHERE n . s STARTS WITH §0 OR n . s ENDS WITH §1 RETURN count ( n ) AS c",
    "UNWIND [ §0 , §1 , null ] AS x RETURN x IS NULL AS z , x STARTS WITH §0 AS w",
];
const MW_WRITES: [&str; 6] = [
    // label M is only ever written by these two MERGEs, so at most one node matches (MERGE binds
    // only the first of several matches — C04's finding — and which one is first differs per store)
    "MERGE ( n : M { s : §0 } ) ON CREATE SET n . k = # ON MATCH SET n . t = §1",
    "MATCH ( n : A ) WHERE n . s STARTS WITH §0 DETACH DELETE n",
    "MATCH ( n : A ) WHERE n . t IS NULL SET n . t = §0",
    "MATCH ( n : A ) WHERE n . s ENDS WITH §0 AND n . t IS NOT NULL REMOVE n . t",
    "CREATE ( n : A { k : # , s : §0 } )",
    "MERGE ( n : M { s : §0 } ) ON MATCH SET n . k = # ON CREATE SET n . t = §1 , n . k = #",
];

/// Adjacent template tokens that form one multi-word operator / keyword.
const MW_PAIRS: [(&str, &str); 14] = [
    ("STARTS", "WITH"),
    ("ENDS", "WITH"),
    ("IS", "NOT"),
    ("IS", "NULL"),
    ("NOT", "NULL"),
    ("ORDER", "BY"),
    ("DETACH", "DELETE"),
    ("ON", "CREATE"),
    ("ON", "MATCH"),
    ("CREATE", "SET"),
    ("MATCH", "SET"),
    ("OPTIONAL", "MATCH"),
    ("UNION", "ALL"),
    ("RETURN", "DISTINCT"),
];

fn mw_pair(a: &str, b: &str) -> bool {
    MW_PAIRS.iter().any(|(x, y)| *x == a && *y == b)
}

/// The gap between two words of a multi-word token: one blank in half of the spellings, else
/// more blanks / tab / newline(s) (all of which a whitespace-collapsing cache key equates with
/// the single blank) or, when the run has comments, a comment.
fn mw_gap(r: &mut Rng, comments: bool) -> String {
    if r.chance(1, 2) {
        return " ".into();
    }
    let n = if comments { 10 } else { 7 };
    ["  ", "\n", "\t", " \n  ", "\r\n", "   ", "\n\n", "/**/", " /* c */ ", " //c\n"][r.usize_below(n)].to_string()
}

/// Pieces a per-run block-comment body is assembled from.  Neutral ones: comment markers, runs
/// of `*` and `/`, blanks, a newline, a backslash …
const BC_PLAIN: [&str; 16] = ["/", "*", "**", "//", "c", "c  d", " ", "  ", "* /", "/ *", "/*", "\\", "\n", "***", "///", "--"];
/// … and ones that carry a quote of either kind or a back-tick (one of them = unbalanced).
const BC_QUOTED: [&str; 12] = ["'", "\"", "it's", "*'", "'*", "/'", "\"/", "say \"hi", " ' ", "`", "x 'y  z'", "'\""];

/// A block-comment body (the text between `/*` and `*/`).  It never contains `*/`, so
/// `/*{body}*/` is exactly one comment to the grammar — wherever a scanner with a different
/// idea of where a block comment ends, or of what a quote inside one means, thinks it stops.
fn bc_body(r: &mut Rng) -> String {
    let mut pieces: Vec<&str> = (0..r.usize_below(4)).map(|_| BC_PLAIN[r.usize_below(BC_PLAIN.len())]).collect();
    if r.chance(2, 3) {
        let at = r.usize_below(pieces.len() + 1);
        pieces.insert(at, BC_QUOTED[r.usize_below(BC_QUOTED.len())]);
    }
    if r.chance(1, 4) {
        pieces.push(BC_QUOTED[r.usize_below(BC_QUOTED.len())]);
    }
    let mut b = String::new();
    if r.chance(1, 2) {
        b.push('/'); // `/*/ … */`
    }
    b.push_str(&pieces.concat());
    if r.chance(1, 5) {
        b.push('*'); // `/* … **/`
    }
    while b.contains("*/") {
        b = b.replace("*/", "* /");
    }
    b
}

#[derive(Clone)]
struct Base {
    write: bool,
    template: &'static str,
    family: usize,
}

fn is_kw(t: &str) -> bool {
    t.len() >= 2 && t.chars().all(|c| c.is_ascii_uppercase())
}

fn wordy(c: char) -> bool {
    c.is_ascii_alphanumeric() || c == '_' || c == '\'' || c == '"' || c == '`' || c == '§' || c == '#'
}

fn spell_kw(r: &mut Rng, kw: &str) -> String {
    match r.below(5) {
        0 | 1 => kw.to_string(),
        2 => kw.to_lowercase(),
        3 => {
            let mut s = kw.to_lowercase();
            if let Some(f) = s.get_mut(0..1) {
                f.make_ascii_uppercase();
            }
            s
        }
        _ => kw.chars().enumerate().map(|(i, c)| if i % 2 == 0 { c.to_ascii_lowercase() } else { c }).collect(),
    }
}

const EDGE_LEAD: [&str; 10] = ["\u{a0}", "\u{0c}", "\u{0b}", "\u{2028}", "\u{3000}", " \u{a0}", "\u{a0} ", "\n\u{0c}", "\u{85}", "\u{2003}\u{a0}"];
const EDGE_TRAIL: [&str; 12] = ["\u{a0}", "\u{0c}", "\u{0b}", "\u{2028}", "\u{3000}", " \u{a0}", "\u{a0}\n", "\n\u{0c}", "\u{85}", ";\u{a0}", " ;\u{2029} ", "\u{1680}"];

const COMMENT_BODIES: [&str; 6] = ["c", "c  d", "'", "\"", "it's", "x 'y  z'"];

/// One gap between two tokens.  Returns (text, swallows_rest): a line comment closed by a
/// blank instead of a newline turns the rest of the statement into comment text.
fn gap(r: &mut Rng, required: bool, allow_swallow: bool, comments: bool) -> (String, bool) {
    let pick = if required { r.below(40) } else { r.below(160) };
    let body = COMMENT_BODIES[r.usize_below(COMMENT_BODIES.len())];
    if pick >= 40 {
        return (String::new(), false);
    }
    if pick >= 32 && !comments {
        return (" ".into(), false);
    }
    match pick {
        0..=21 => (" ".into(), false),
        22..=25 => ("  ".into(), false),
        26 | 27 => ("\t".into(), false),
        28 | 29 => ("\n".into(), false),
        30 => (" \n  ".into(), false),
        31 => ("\r\n".into(), false),
        32 | 33 => (format!(" /* {body} */ "), false),
        34 => (format!("/*{body}*/"), false),
        35 => (format!(" //{body}\n"), false),
        36 => (format!(" //{body}\n "), false),
        37 | 38 => {
            if allow_swallow {
                (format!(" //{body} "), true)
            } else {
                (format!(" //{body}\n"), false)
            }
        }
        _ => (format!(" /* {body}  */ "), false),
    }
}

/// Spell a base statement.  Returns (text, skeleton): the skeleton is the list of effective
/// tokens (keywords upper-cased, literals verbatim, tokens swallowed by a line comment
/// dropped) — two strings with equal skeletons mean the same thing.
///
/// Third result: how many multi-word operators / keywords have something other than one blank
/// between two of their words.
fn spell(r: &mut Rng, b: &Base, ints: &mut u64, style: &Style) -> (String, Vec<String>, u64) {
    let fam = FAMILIES[b.family];
    let toks: Vec<&str> = b.template.split(' ').collect();
    let mut out = String::new();
    let mut skel: Vec<String> = Vec::new();
    let mut swallowed = false;
    let mut mw_apart = 0u64;
    let quote = if style.mixed_quotes && r.chance(1, 3) { '"' } else { '\'' };
    let lead = if r.chance(1, 6) { [" ", "\n", "  ", "/* h */ "][r.usize_below(4)] } else { "" };
    // whitespace the grammar does not know at the very start of the text (alone or next to
    // ordinary padding): a fresh parse refuses it, `str::trim` would strip it
    let lead = if style.exotic_edge && r.chance(1, 5) { EDGE_LEAD[r.usize_below(EDGE_LEAD.len())] } else { lead };
    out.push_str(lead);
    let mut prev_wordy = false;
    for (i, t) in toks.iter().enumerate() {
        let text: String = if let Some(n) = t.strip_prefix('§') {
            let slot: usize = n.parse().unwrap_or(0);
            // the slots draw independently from the family
            let content = fam[(style.fam_lo + r.usize_below(style.fam_n.max(1))) % fam.len()];
            // the families escape both quote kinds where they use one, so any quote works
            let quote = match style.slot_quotes.get(slot) {
                Some(1) => '\'',
                Some(2) => '"',
                _ => quote,
            };
            let other = if quote == '"' { "'" } else { "\"" };
            match style.decor.get(slot).copied().unwrap_or(0) {
                0 => format!("{quote}{content}{quote}"),
                d => {
                    let (pre, suf, whole) = DECOR[(d - 1) % DECOR.len()];
                    let body = if whole { format!("{pre}{suf}") } else { format!("{pre}{content}{suf}") };
                    format!("{quote}{}{quote}", body.replace('¶', other))
                }
            }
        } else if *t == "#" {
            *ints += 1;
            if style.small_ints {
                format!("{}", r.below(3))
            } else {
                format!("{}", *ints)
            }
        } else if is_kw(t) {
            if style.kw_case {
                spell_kw(r, t)
            } else {
                t.to_string()
            }
        } else if style.backticks && t.chars().all(|c| c.is_ascii_alphabetic()) && t.len() == 1 && r.chance(1, 20) {
            format!("`{t}`")
        } else {
            t.to_string()
        };
        if i > 0 {
            let first = text.chars().next().unwrap_or(' ');
            let required = prev_wordy && wordy(first);
            let (g, sw) = if style.bc_gap > 0 && i == style.bc_gap {
                // the run's block comment: same body in every spelling, only the blanks around
                // it vary (they are between tokens)
                let pad = |r: &mut Rng| if style.plain_gaps || r.chance(3, 4) { " " } else { "" };
                (format!("{}/*{}*/{}", pad(r), style.bc_body, pad(r)), false)
            } else if style.mw && mw_pair(toks[i - 1], t) {
                let g = mw_gap(r, style.comments);
                if g != " " {
                    mw_apart += 1;
                }
                (g, false)
            } else if style.lc_gap > 0 && i == style.lc_gap {
                if r.chance(1, 3) {
                    (" //c ".to_string(), true)
                } else {
                    (" //c\n".to_string(), false)
                }
            } else if !required && !style.opt_gaps {
                (String::new(), false)
            } else if !required && style.opt_mask != 0 {
                if (style.opt_mask >> (i % 64)) & 1 == 1 {
                    ([" ", "  ", "\t", "\n", " \n  "][r.usize_below(5)].to_string(), false)
                } else {
                    (String::new(), false)
                }
            } else if style.plain_gaps {
                (if required { " ".to_string() } else { String::new() }, false)
            } else {
                gap(r, required, style.swallow && i >= 2, style.comments)
            };
            // a space character that `char::is_whitespace` accepts and the grammar does not
            let g = if style.exotic_ws && required && g == " " && r.chance(1, 6) {
                ["\u{0c}", "\u{a0}", "\u{2003}", "\u{0b}"][r.usize_below(4)].to_string()
            } else {
                g
            };
            out.push_str(&g);
            if sw {
                swallowed = true;
            }
        }
        out.push_str(&text);
        if !swallowed {
            skel.push(if is_kw(t) { t.to_string() } else { text.clone() });
        }
        prev_wordy = text.chars().last().map(wordy).unwrap_or(false);
    }
    if style.exotic_edge && r.chance(1, 5) {
        // … and at the very end
        out.push_str(EDGE_TRAIL[r.usize_below(EDGE_TRAIL.len())]);
    } else if r.chance(1, 8) {
        out.push_str([" ", "\n", " ;", ";", " /* t */", " // t"][r.usize_below(6)]);
    }
    (out, skel, mw_apart)
}

#[derive(Clone, Default)]
struct Style {
    kw_case: bool,
    mixed_quotes: bool,
    backticks: bool,
    swallow: bool,
    plain_gaps: bool,
    small_ints: bool,
    comments: bool,
    opt_gaps: bool,
    fam_lo: usize,
    fam_n: usize,
    exotic_ws: bool,
    /// when > 0: exactly this gap carries a line comment with a fixed body, ended by a
    /// newline in most spellings and by a blank (swallowing the rest) in some
    lc_gap: usize,
    /// with `opt_gaps`: which optional gaps carry whitespace in *every* spelling of the run (only the
    /// amount and kind vary), so that spellings differing inside an expression share a cache key
    opt_mask: u64,
    /// non-grammar whitespace at the very start / very end of some spellings
    exotic_edge: bool,
    /// per string slot: 0 = plain, d > 0 = `DECOR[d-1]` in *every* spelling of the run
    decor: Vec<usize>,
    /// per string slot: 0 = the spelling's quote, 1 = always single, 2 = always double
    slot_quotes: Vec<usize>,
    /// when > 0: exactly this gap carries the block comment `/*{bc_body}*/` in every spelling
    bc_gap: usize,
    bc_body: String,
    /// statements around multi-word operators / keywords, the gaps inside them varied
    mw: bool,
}

// ------------------------------------------------------------------------------------
// Oracle helpers

fn collapse(s: &str) -> String {
    s.split_whitespace().collect::<Vec<_>>().join(" ")
}

/// What a string means lexically (following `cypher.pest`: `WHITESPACE`, `COMMENT`, `string`,
/// `escape_seq`): tokens outside literals separated by single blanks, comments dropped, string
/// literals verbatim — or, with `collapse_in_strings`, with their inner whitespace collapsed
/// (used only to *classify* a difference).
fn lex_meaning(text: &str, collapse_in_strings: bool) -> (String, bool) {
    let cs: Vec<char> = text.chars().collect();
    let mut out = String::new();
    let mut has_line_comment = false;
    let mut i = 0;
    let gws = |c: char| matches!(c, ' ' | '\t' | '\r' | '\n');
    let sep = |out: &mut String| {
        if !out.ends_with(' ') && !out.is_empty() {
            out.push(' ');
        }
    };
    while i < cs.len() {
        let c = cs[i];
        if gws(c) {
            sep(&mut out);
            i += 1;
        } else if c == '/' && cs.get(i + 1) == Some(&'/') {
            has_line_comment = true;
            while i < cs.len() && cs[i] != '\n' {
                i += 1;
            }
            sep(&mut out);
        } else if c == '/' && cs.get(i + 1) == Some(&'*') {
            // closed block comment only; an unclosed one is not a comment to the grammar
            let mut j = i + 2;
            let mut closed = None;
            while j + 1 < cs.len() {
                if cs[j] == '*' && cs[j + 1] == '/' {
                    closed = Some(j + 2);
                    break;
                }
                j += 1;
            }
            match closed {
                Some(k) => {
                    i = k;
                    sep(&mut out);
                }
                None => {
                    out.push(c);
                    i += 1;
                }
            }
        } else if c == '\'' || c == '"' {
            let mut lit = String::new();
            lit.push(c);
            i += 1;
            while i < cs.len() {
                let d = cs[i];
                lit.push(d);
                i += 1;
                if d == '\\' {
                    if i < cs.len() {
                        lit.push(cs[i]);
                        i += 1;
                    }
                } else if d == c {
                    break;
                }
            }
            if collapse_in_strings {
                out.push_str(&lit.split_whitespace().collect::<Vec<_>>().join(" "));
            } else {
                out.push_str(&lit);
            }
        } else {
            out.push(c);
            i += 1;
        }
    }
    // only separators this function itself inserted: any other character at either end of the
    // text (non-grammar whitespace included) is part of what the string means
    (out.trim_matches(' ').to_string(), has_line_comment)
}

/// The string literals of a text in order (delimiters included), lexed like `lex_meaning`.
fn lits(text: &str) -> Vec<String> {
    lits_and_comments(text).0.into_iter().map(|(_, l)| l).collect()
}

/// (string literals, bodies of closed block comments), each with the char offset it starts at.
fn lits_and_comments(text: &str) -> (Vec<(usize, String)>, Vec<(usize, String)>) {
    let cs: Vec<char> = text.chars().collect();
    let mut out = Vec::new();
    let mut comments = Vec::new();
    let mut i = 0;
    while i < cs.len() {
        let c = cs[i];
        if c == '/' && cs.get(i + 1) == Some(&'/') {
            while i < cs.len() && cs[i] != '\n' {
                i += 1;
            }
        } else if c == '/' && cs.get(i + 1) == Some(&'*') {
            let mut j = i + 2;
            let mut closed = None;
            while j + 1 < cs.len() {
                if cs[j] == '*' && cs[j + 1] == '/' {
                    closed = Some(j + 2);
                    break;
                }
                j += 1;
            }
            if let Some(k) = closed {
                comments.push((i, cs[i + 2..k - 2].iter().collect::<String>()));
            }
            i = closed.unwrap_or(i + 1);
        } else if c == '\'' || c == '"' {
            let start = i;
            let mut lit = String::new();
            lit.push(c);
            i += 1;
            while i < cs.len() {
                let d = cs[i];
                lit.push(d);
                i += 1;
                if d == '\\' {
                    if i < cs.len() {
                        lit.push(cs[i]);
                        i += 1;
                    }
                } else if d == c {
                    break;
                }
            }
            out.push((start, lit));
        } else {
            i += 1;
        }
    }
    (out, comments)
}

/// Bodies of the block comments of `a` that precede the first literal in which `a` and `b`
/// differ and contain a quote or a comment-marker character (so that a scanner with its own
/// idea of where such a comment ends — or of what a quote inside it means — is inside-out by
/// the time it reaches that literal), plus the quote kind of that literal.
fn marked_comments_before_difference(a: &str, b: &str) -> (Vec<String>, char) {
    let ((la, ca), lb) = (lits_and_comments(a), lits(b));
    let first = match la.iter().zip(lb.iter()).position(|((_, x), y)| x != y) {
        Some(f) => f,
        None => return (vec![], '\''),
    };
    let (at, lit) = &la[first];
    let bodies = ca.into_iter().filter(|(p, body)| p < at && body.chars().any(|c| matches!(c, '\'' | '"' | '`' | '/' | '*' | '\\'))).map(|(_, body)| body).collect();
    (bodies, lit.chars().next().unwrap_or('\''))
}

/// Does the first literal in which the two texts differ come after a literal that contains an
/// escape sequence (so that a scanner which misjudges where *that* literal ends is inside-out
/// by the time it reaches the differing one)?
fn differs_after_escape(a: &str, b: &str) -> bool {
    let (la, lb) = (lits(a), lits(b));
    let first = la.iter().zip(lb.iter()).position(|(x, y)| x != y).unwrap_or(la.len().min(lb.len()));
    la[..first].iter().any(|l| l.contains('\\'))
}

/// Is there a STARTS WITH / ENDS WITH whose two words are separated by anything but one blank?
fn operator_words_apart(text: &str) -> bool {
    let low = text.to_ascii_lowercase();
    for first in ["starts", "ends"] {
        let mut from = 0;
        while let Some(p) = low[from..].find(first) {
            let after = from + p + first.len();
            if let Some(w) = low[after..].find("with") {
                let gap = &low[after..after + w];
                if gap != " " && !gap.is_empty() && gap.chars().all(|c| grammar_ws(c) || matches!(c, '/' | '*' | 'c')) {
                    return true;
                }
            }
            from = after;
        }
    }
    false
}

fn grammar_ws(c: char) -> bool {
    matches!(c, ' ' | '\t' | '\r' | '\n')
}

/// Whitespace by `char::is_whitespace` that the grammar does not accept, at the very start or
/// very end of the text (ordinary padding around it allowed).
fn exotic_edge(text: &str) -> bool {
    let t = text.trim_matches(grammar_ws);
    let ex = |c: Option<char>| c.map(|c| c.is_whitespace() && !grammar_ws(c)).unwrap_or(false);
    ex(t.chars().next()) || ex(t.chars().last())
}

/// How does `cur` differ from an earlier string with the same whitespace-collapsed text?
///
/// `earlier` = (event, did it parse).  With `hit` (the engine answered from the cache) only a
/// predecessor that parsed can be the entry that answered: a text that does not parse is
/// never inserted.
fn collision_class(cur: &Value, earlier: &[(&Value, bool)], hit: bool) -> &'static str {
    let text = s(cur, "s");
    let key = collapse(text);
    let exotic = |x: &str| x.chars().any(|c| c.is_whitespace() && !matches!(c, ' ' | '\t' | '\r' | '\n'));
    let (m, lc) = lex_meaning(text, false);
    // every colliding predecessor is a candidate explanation; the most specific one names the class
    let rank = |c: &str| match c {
        "non_grammar_whitespace_at_text_end" => 9,
        "whitespace_in_string_literal_after_escape_sequence" => 8,
        "whitespace_in_string_literal_after_block_comment" => 7,
        "non_grammar_whitespace" => 5,
        "whitespace_in_string_literal" => 4,
        "line_comment_newline_collapsed" => 3,
        "other_collision" => 2,
        "same_meaning_predecessor" => 1,
        _ => 0,
    };
    let mut class = "no_colliding_predecessor";
    for (e, e_parsed) in earlier {
        let et = s(e, "s");
        if et == text || collapse(et) != key || (hit && !*e_parsed) {
            continue;
        }
        let (em, elc) = lex_meaning(et, false);
        let c = if em == m {
            "same_meaning_predecessor"
        } else if (exotic_edge(text) || exotic_edge(et)) && lex_meaning(text.trim(), false).0 == lex_meaning(et.trim(), false).0 {
            // the two differ only in what `str::trim` strips and the grammar does not
            "non_grammar_whitespace_at_text_end"
        } else if exotic(text) != exotic(et) {
            "non_grammar_whitespace"
        } else if lex_meaning(text, true).0 == lex_meaning(et, true).0 {
            if differs_after_escape(text, et) {
                "whitespace_in_string_literal_after_escape_sequence"
            } else if !marked_comments_before_difference(text, et).0.is_empty() {
                // … or after a block comment made of quotes / comment markers
                "whitespace_in_string_literal_after_block_comment"
            } else {
                "whitespace_in_string_literal"
            }
        } else if lc || elc {
            "line_comment_newline_collapsed"
        } else {
            "other_collision"
        };
        if rank(c) > rank(class) {
            class = c;
        }
    }
    class
}

struct Res {
    status: String, // "ok" | "err"
    cols: Vec<String>,
    rows: Vec<String>,
    err: String,
}

fn res_of(r: Result<samyama::query::RecordBatch, String>, g: &GraphStore) -> Res {
    match r {
        Ok(b) => Res { status: "ok".into(), cols: b.columns.clone(), rows: bag(rows_canon(&b, g, false)), err: String::new() },
        Err(e) => Res { status: "err".into(), cols: vec![], rows: vec![], err: e },
    }
}

impl Scenario for C03 {
    fn id(&self) -> &'static str {
        "C03"
    }
    fn runs(&self, tier: Tier) -> u64 {
        match tier {
            Tier::Quick => 15_000,
            Tier::Thorough => 1_500_000,
        }
    }
    fn rule(&self) -> &'static str {
        "sequence of <=14 query strings issued by 1-3 logical clients to one shared QueryEngine (cache capacity 1|2|3|1024), each string a random spelling (whitespace outside/inside string literals, comments, keyword case, quote style, back-ticks) of one of 2-4 base statements (reads and writes) chosen per run; every call is compared with parse_query + fresh executor on a twin store. Non-trivial = at least one cache hit by a string textually different from every string issued before with the same cache key, or an eviction followed by re-insertion. Distinct = hash of (capacity, sequence of whitespace-collapsed strings)."
    }
    fn real_components(&self) -> Vec<&'static str> {
        vec!["samyama::query::QueryEngine (cached_parse, LRU)", "parse_query (pest grammar)", "QueryExecutor / MutQueryExecutor", "GraphStore"]
    }
    fn stub_components(&self) -> Vec<&'static str> {
        vec!["the RESP/HTTP front ends that share the engine: replaced by logical clients calling QueryEngine directly in scheduler order"]
    }
    fn assumptions(&self) -> Vec<&'static str> {
        vec![
            "read vs write entry point (execute / execute_mut) is chosen by the generator per base statement, as the server does by statement kind",
            "results are compared as bags (row order of an unordered MATCH may legitimately differ between two stores because HashSet iteration differs per instance)",
            "error texts are compared exactly: both sides parse the same string on the same thread",
        ]
    }
    fn stack_mb(&self) -> usize {
        8
    }
    fn required_probes(&self, _tier: Tier) -> Vec<&'static str> {
        vec![
            "cache_hit_by_different_text",
            "cache_evicted",
            "reinserted_after_eviction",
            "collision_with_different_meaning",
            "write_executed",
            "literal_varies_after_literal_with_escape",
            "literal_varies_after_literal_ending_in_escaped_backslash",
            "padded_text_after_clean_twin",
            "clean_text_after_padded_twin",
            "padded_text_refused_while_clean_twin_cached",
            "literal_varies_after_block_comment",
            "literal_varies_after_comment_with_odd_quote_of_literal_kind",
            "literal_varies_after_comment_body_starting_with_slash",
            "hit_by_text_with_multiword_token_spelled_apart",
            "hit_by_text_with_operator_words_apart",
        ]
    }
    fn generate(&self, s: &mut Streams, _run_index: u64, _tier: Tier) -> Case {
        let mut case = Case::new("C03");
        let cap = [1u64, 2, 3, 1024][s.knobs.usize_below(4)];
        let clients = 1 + s.knobs.below(3);
        case.knobs.insert("capacity".into(), json!(cap));
        case.knobs.insert("clients".into(), json!(clients));
        let comments = s.knobs.chance(1, 3);
        let mut style = Style {
            kw_case: s.knobs.chance(1, 3),
            mixed_quotes: s.knobs.chance(1, 5),
            backticks: s.knobs.chance(1, 10),
            swallow: comments && s.knobs.chance(1, 2),
            plain_gaps: s.knobs.chance(1, 10),
            small_ints: s.knobs.chance(1, 2),
            comments,
            opt_gaps: s.knobs.chance(1, 4),
            fam_lo: s.knobs.usize_below(8),
            fam_n: 2 + s.knobs.usize_below(2),
            exotic_ws: s.knobs.chance(1, 8),
            lc_gap: if !comments && s.knobs.chance(1, 5) { 2 + s.knobs.usize_below(5) } else { 0 },
            opt_mask: if s.knobs.chance(2, 3) { s.knobs.next_u64() & s.knobs.next_u64() } else { 0 },
            exotic_edge: s.knobs.chance(1, 6),
            decor: if s.knobs.chance(1, 3) {
                (0..3).map(|_| if s.knobs.chance(2, 3) { 1 + s.knobs.usize_below(DECOR.len()) } else { 0 }).collect()
            } else {
                vec![]
            },
            slot_quotes: if s.knobs.chance(1, 8) { (0..3).map(|_| s.knobs.usize_below(3)).collect() } else { vec![] },
            bc_gap: 0,
            bc_body: String::new(),
            mw: false,
        };
        if !style.decor.is_empty() && s.knobs.chance(1, 2) {
            // near-duplicates that differ *only* inside literals
            style.plain_gaps = true;
            style.kw_case = false;
            style.lc_gap = 0;
        }
        if s.knobs.chance(1, 4) {
            // one block comment, the same in every spelling, somewhere before the literals
            style.bc_gap = 1 + s.knobs.usize_below(6);
            style.bc_body = bc_body(&mut s.knobs);
            if s.knobs.chance(1, 2) {
                style.plain_gaps = true;
                style.kw_case = false;
                style.lc_gap = 0;
            }
        }
        if s.knobs.chance(1, 4) {
            style.mw = true;
            if s.knobs.chance(1, 2) {
                // every literal the same member: spellings differ only between tokens
                style.fam_n = 1;
            }
        }
        case.knobs.insert("style".into(), json!({"kw_case":style.kw_case,"mixed_quotes":style.mixed_quotes,"backticks":style.backticks,"swallow":style.swallow,"plain_gaps":style.plain_gaps,"small_ints":style.small_ints,"comments":style.comments,"opt_gaps":style.opt_gaps,"fam_lo":style.fam_lo,"fam_n":style.fam_n,"exotic_ws":style.exotic_ws,"lc_gap":style.lc_gap,"opt_mask":style.opt_mask,"exotic_edge":style.exotic_edge,"decor":style.decor,"slot_quotes":style.slot_quotes,"bc_gap":style.bc_gap,"bc_body":style.bc_body,"mw":style.mw}));
        // pool of base statements; one family per run most of the time so literals collide
        let nb = 2 + s.knobs.usize_below(3);
        let fam0 = s.knobs.usize_below(FAMILIES.len());
        // with escape decorations most statements of the pool carry two or more literals
        let multi = !style.decor.is_empty();
        let mut pool: Vec<Base> = Vec::new();
        for i in 0..nb {
            let write = if i == 0 { true } else { s.knobs.chance(1, 3) };
            let mut template = if write { WRITES[s.knobs.usize_below(WRITES.len())] } else { READS[s.knobs.usize_below(READS.len())] };
            if multi && !template.contains("§1") && s.knobs.chance(2, 3) {
                let m: Vec<&'static str> = if write { WRITES.iter() } else { READS.iter() }.copied().filter(|t| t.contains("§1")).collect();
                template = m[s.knobs.usize_below(m.len())];
            }
            if style.mw && s.knobs.chance(3, 4) {
                template = if write { MW_WRITES[s.knobs.usize_below(MW_WRITES.len())] } else { MW_READS[s.knobs.usize_below(MW_READS.len())] };
            }
            let family = if s.knobs.chance(4, 5) { fam0 } else { s.knobs.usize_below(FAMILIES.len()) };
            pool.push(Base { write, template, family });
        }
        let n = s.knobs.short_len(2, 14);
        let mut ints = 0u64;
        for _ in 0..n {
            let client = s.sched.below(clients);
            let b = pool[s.workload.usize_below(pool.len())].clone();
            let (text, skel, mw_apart) = spell(&mut s.workload, &b, &mut ints, &style);
            case.events.push(json!({"op":"q","client":client,"w":b.write,"s":text,"skel":skel,"mw":mw_apart}));
        }
        case
    }
    fn execute(&self, case: &Case) -> Outcome {
        let mut o = Outcome::new();
        static WARM: std::sync::Once = std::sync::Once::new();
        crate::kit::warm::once(&WARM, case.hash_seed, || {
            let engine = QueryEngine::with_capacity(2);
            let mut g = GraphStore::new();
            for q in ["CREATE (n:A {k: 1, s: 'a b'})", "MERGE (n:A {s: 'a b'})", "MATCH (n:A) WHERE n.s = 'a b' SET n.t = 'x'", "MATCH (n:A) WHERE n.s = 'a b' REMOVE n.t", "MATCH (n:A {s: 'a b'}) DETACH DELETE n"] {
                let _ = engine.execute_mut(q, &mut g, "default");
                let _ = engine.execute("MATCH (n) WHERE n.s CONTAINS 'a' RETURN n.k, n.s ORDER BY n.k", &g);
                let _ = engine.execute("UNWIND ['a', 'b'] AS x RETURN x, size(x) AS l", &g);
                let _ = engine.execute("MATCH (n:A {s: 'a b'}) RETURN count(n) AS c", &g);
                let _ = dump(&g).canonical();
            }
        });
        std::env::remove_var("SAMYAMA_GRAPH_NATIVE");
        std::env::remove_var("SAMYAMA_FILTER_PARALLEL_COST");
        let cap = case.knob_u64("capacity", 1024) as usize;
        let engine = QueryEngine::with_capacity(cap);
        let mut a = GraphStore::new();
        let mut b = GraphStore::new();
        let mut seen_keys: BTreeMap<String, Vec<String>> = BTreeMap::new(); // key -> distinct texts issued
        let mut evicted_keys: Vec<String> = Vec::new();
        let mut lru: Vec<String> = Vec::new(); // harness mirror of the key order, most recent last
        let mut acc = String::new();
        let mut near_dup_hit = false;
        let mut reinsertion = false;
        let mut keyseq: Vec<String> = Vec::new();
        let mut parsed: Vec<bool> = Vec::new(); // per event: did the fresh parse accept it
        for (step, ev) in case.events.iter().enumerate() {
            if op(ev) != "q" {
                parsed.push(false);
                continue;
            }
            let text = s(ev, "s").to_string();
            let write = ev.get("w").and_then(|x| x.as_bool()).unwrap_or(false);
            let key = collapse(&text);
            keyseq.push(key.clone());
            let earlier: Vec<(&Value, bool)> = case.events[..step].iter().zip(parsed.iter().copied()).filter(|(e, _)| op(e) == "q").collect();
            let hits0 = engine.cache_stats().hits();
            let misses0 = engine.cache_stats().misses();
            // A panic inside the engine (e.g. `RETURN size()`: index out of bounds in
            // eval_function) is not this property's subject: it is a refusal, compared like one.
            use std::panic::{catch_unwind, AssertUnwindSafe};
            // ---- engine side
            let ra = catch_unwind(AssertUnwindSafe(|| {
                if write {
                    engine.execute_mut(&text, &mut a, "default").map_err(|e| e.to_string())
                } else {
                    engine.execute(&text, &a).map_err(|e| e.to_string())
                }
            }))
            .unwrap_or_else(|_| Err("<panicked>".to_string()));
            // ---- fresh side
            let pq = parse_query(&text);
            let parsed_ok = pq.is_ok();
            parsed.push(parsed_ok);
            let rb = match pq {
                Err(e) => Err(e.to_string()),
                Ok(q) => catch_unwind(AssertUnwindSafe(|| {
                    if write {
                        MutQueryExecutor::new(&mut b, "default".to_string()).execute(&q).map_err(|e| e.to_string())
                    } else {
                        QueryExecutor::new(&b).execute(&q).map_err(|e| e.to_string())
                    }
                }))
                .unwrap_or_else(|_| Err("<panicked>".to_string())),
            };
            if matches!(&rb, Err(e) if e == "<panicked>") {
                o.probe("engine_panicked_on_fresh_side_too");
            }
            o.steps += 1;
            let hit = engine.cache_stats().hits() > hits0;
            let missed = engine.cache_stats().misses() > misses0;
            // probes (from observable counters + the issued strings)
            if hit {
                o.probe("cache_hit");
                let texts = seen_keys.get(&key).cloned().unwrap_or_default();
                if !texts.contains(&text) {
                    o.probe("cache_hit_by_different_text");
                    near_dup_hit = true;
                }
            }
            if missed && parsed_ok {
                // a successful parse was inserted
                if evicted_keys.contains(&key) {
                    o.probe("reinserted_after_eviction");
                    reinsertion = true;
                }
                lru.retain(|k| k != &key);
                lru.push(key.clone());
                while lru.len() > cap {
                    let k = lru.remove(0);
                    evicted_keys.push(k);
                    o.probe("cache_evicted");
                }
            } else if hit {
                lru.retain(|k| k != &key);
                lru.push(key.clone());
            }
            let cclass = collision_class(ev, &earlier, hit);
            if cclass == "whitespace_in_string_literal" || cclass == "line_comment_newline_collapsed" || cclass == "other_collision" || cclass == "non_grammar_whitespace" || cclass == "whitespace_in_string_literal_after_escape_sequence" || cclass == "non_grammar_whitespace_at_text_end" || cclass == "whitespace_in_string_literal_after_block_comment" {
                o.probe("collision_with_different_meaning");
            }
            if cclass == "whitespace_in_string_literal_after_escape_sequence" {
                // near-duplicates that differ only inside a literal which follows a literal with
                // an escape sequence; the sharper probe: that literal *ends* in an escaped backslash
                o.probe("literal_varies_after_literal_with_escape");
                let ls = lits(&text);
                if ls.iter().take(ls.len().saturating_sub(1)).any(|l| l.strip_suffix(['\'', '"']).map(|x| x.ends_with("\\\\")).unwrap_or(false)) {
                    o.probe("literal_varies_after_literal_ending_in_escaped_backslash");
                }
            }
            if cclass == "whitespace_in_string_literal_after_block_comment" {
                // near-duplicates that differ only inside a literal which follows a block comment
                // whose body holds quotes / comment markers; sharper: which lexical corner
                o.probe("literal_varies_after_block_comment");
                let (m, _) = lex_meaning(&text, true);
                for (e, e_parsed) in &earlier {
                    let et = s(e, "s");
                    if et == text || collapse(et) != key || (hit && !*e_parsed) || lex_meaning(et, true).0 != m {
                        continue;
                    }
                    let (bodies, q) = marked_comments_before_difference(&text, et);
                    let odd = bodies.iter().any(|b| b.chars().filter(|c| *c == q).count() % 2 == 1);
                    let slash = bodies.iter().any(|b| b.starts_with('/'));
                    if odd {
                        o.probe("literal_varies_after_comment_with_odd_quote_of_literal_kind");
                    }
                    if slash {
                        o.probe("literal_varies_after_comment_body_starting_with_slash");
                    }
                    if bodies.iter().any(|b| b.ends_with('*')) {
                        o.probe("literal_varies_after_comment_body_ending_with_star");
                    }
                    if bodies.iter().any(|b| b.starts_with('/') && b.chars().filter(|c| *c == q).count() % 2 == 1) {
                        o.probe("literal_varies_after_comment_starting_with_slash_with_odd_quote");
                    }
                    if odd || slash {
                        break;
                    }
                }
            }
            let mw_apart = ev.get("mw").and_then(|x| x.as_u64()).unwrap_or(0);
            if mw_apart > 0 {
                o.probe("multiword_token_spelled_apart");
                if hit && !seen_keys.get(&key).map(|t| t.contains(&text)).unwrap_or(false) {
                    o.probe("hit_by_text_with_multiword_token_spelled_apart");
                    if operator_words_apart(&text) {
                        o.probe("hit_by_text_with_operator_words_apart");
                    }
                }
                if !hit && operator_words_apart(&text) {
                    o.probe("miss_by_text_with_operator_words_apart");
                }
            }
            if cclass == "non_grammar_whitespace_at_text_end" {
                // which of the two came first matters: only a cached clean spelling can answer
                // for the padded one
                if exotic_edge(&text) {
                    o.probe("padded_text_after_clean_twin");
                    if !hit && !parsed_ok && lru.contains(&key) {
                        o.probe("padded_text_refused_while_clean_twin_cached");
                    }
                } else {
                    o.probe("clean_text_after_padded_twin");
                }
            }
            if text.contains('`') && rb.is_err() {
                o.probe("backtick_refused");
            }
            if rb.is_err() {
                o.probe("refused_by_fresh_parse_or_exec");
            } else if write {
                o.probe("write_executed");
            }
            seen_keys.entry(key.clone()).or_default().push(text.clone());

            let xa = res_of(ra, &a);
            let xb = res_of(rb, &b);
            let rw = if write { "write" } else { "read" };
            let mut bad: Option<(&str, String)> = None;
            if xa.status != xb.status {
                bad = Some(("status", format!("engine: {} {} | fresh: {} {}", xa.status, xa.err, xb.status, xb.err)));
            } else if xa.status == "ok" && xa.cols != xb.cols {
                bad = Some(("columns", format!("engine {:?} | fresh {:?}", xa.cols, xb.cols)));
            } else if xa.status == "ok" && xa.rows != xb.rows {
                bad = Some(("rows", format!("engine {:?} | fresh {:?}", xa.rows, xb.rows)));
            } else if xa.status == "err" && xa.err != xb.err {
                bad = Some(("error_text", format!("engine {:?} | fresh {:?}", xa.err, xb.err)));
            }
            let mut diverged = false;
            if write || xa.status != xb.status {
                let (da, db) = (dump(&a).canonical(), dump(&b).canonical());
                if da != db {
                    diverged = true;
                    if bad.is_none() {
                        bad = Some(("graph_after_write", format!("engine store: {} | fresh store: {}", dump(&a).describe(), dump(&b).describe())));
                    }
                }
            }
            if let Some((clause, detail)) = bad {
                o.violate(Violation::new(
                    format!("C03/{clause}/{rw}/{cclass}"),
                    format!("string {:?} (cache {}, capacity {cap}): {detail}", text, if hit { "hit" } else { "miss" }),
                    step,
                ));
            }
            acc.push_str(&format!("{}|{:?}|{:?}|{};", xa.status, xa.cols, xa.rows, xa.err));
            if diverged || o.violations.len() >= 4 {
                break;
            }
        }
        o.nontrivial = near_dup_hit || reinsertion;
        o.class_key = hash_str(&format!("{cap}|{}", keyseq.join("\u{1}")));
        o.state_hash = hash_str(&format!("{}#{}", acc, dump(&a).canonical()));
        o
    }
}
