//! C08 — version garbage collection never changes a read it must preserve.
//!
//! Sim: C07's write histories plus transaction actors (begin / record write / commit /
//! abort, so that 0..3 transactions are active at any point) and a maintenance actor
//! (`gc_versions(w)`, `gc_auto()` events at PRNG-chosen points of the main history).
//! After every step of the main history the store is *forked* (the trace prefix is
//! replayed into a second store — `GraphStore` is not `Clone`) once per watermark
//! w in 0..=current+1 and once for `gc_auto`; on each fork the vector of all reads is
//! taken, the collection is run, and the vector is taken again.
//!
//! Oracle: pure before/after comparison on one real store — no reference model of what
//! a read *should* return, so none of C07's findings can leak in:
//!   * `gc_versions(w)`: every `get_node_at_version` / `get_edge_at_version` read at a
//!     version v >= w (v up to current+1) is identical before and after, and so is every
//!     `get_node_for_txn` / `get_edge_for_txn` of an *active* transaction whose
//!     prescribed read version is >= w;
//!   * `gc_auto()`: every read of every active transaction is identical before and after,
//!     and so is every read at a version >= `gc_watermark()` as reported before the call.
//!
//! Signature: `C08/<gc_versions|gc_auto>/<view>/<appeared|vanished|altered>/<class>`.

use crate::kit::core::*;
use crate::kit::model::*;
use crate::kit::mvcc::*;
use crate::kit::rng::Streams;
use crate::scen::c07::{gen_hist_event, gen_props, shrink_hist_event, GenCfg};
use samyama::graph::{EdgeId, GraphStore, NodeId};
use serde_json::{json, Value};
use std::collections::BTreeMap;

pub struct C08;

type Reads = BTreeMap<(char, u64, u64), String>;
type TxnReads = BTreeMap<(usize, char, u64), String>;

fn txn_reads(g: &GraphStore, m: &Model) -> TxnReads {
    let mut out = BTreeMap::new();
    for ti in m.active_txns() {
        let tid = m.txns[ti].id;
        for id in 1..=m.max_node() + 1 {
            out.insert((ti, 'n', id), show_n(&node_of(g.get_node_for_txn(tid, NodeId::new(id)))));
        }
        for id in 1..=m.max_edge() + 1 {
            out.insert((ti, 'e', id), show_e(&edge_of(g.get_edge_for_txn(tid, EdgeId::new(id)))));
        }
    }
    out
}

fn shape(before: &str, after: &str) -> &'static str {
    match (before == "absent", after == "absent") {
        (true, false) => "appeared",
        (false, true) => "vanished",
        _ => "altered",
    }
}

fn fork(events: &[Value], upto: usize, lim: &Limits) -> (GraphStore, Model) {
    let mut g = GraphStore::new();
    let mut m = Model::default();
    for ev in &events[..=upto] {
        let _ = apply(ev, &mut g, &mut m, lim);
    }
    (g, m)
}

#[derive(Clone, Copy, PartialEq, Eq, Debug)]
enum Gc {
    Versions(u64),
    Auto,
}

struct GcResult {
    violations: Vec<Violation>,
    pruned_nodes: usize,
    pruned_edges: usize,
    watermark: u64,
}

/// Run one collection on `g` and compare every read that must be preserved.
fn gc_and_compare(g: &mut GraphStore, m: &Model, gc: Gc, step: usize, ctx: &str) -> GcResult {
    let upto = m.current + 1;
    let before = read_vector(g, m, upto);
    let tbefore = txn_reads(g, m);
    let (name, w) = match gc {
        Gc::Versions(w) => ("gc_versions", w),
        Gc::Auto => ("gc_auto", g.gc_watermark()),
    };
    let (pn, pe) = match gc {
        Gc::Versions(w) => g.gc_versions(w),
        Gc::Auto => g.gc_auto(),
    };
    let after = read_vector(g, m, upto);
    let tafter = txn_reads(g, m);
    let mut out: Vec<Violation> = Vec::new();
    let mut push = |sig: String, detail: String| {
        if out.len() < 6 && !out.iter().any(|v| v.signature == sig) {
            out.push(Violation::new(sig, detail, step));
        }
    };
    for (k, b) in &before {
        let (kind, id, v) = *k;
        if v < w {
            continue;
        }
        let a = after.get(k).cloned().unwrap_or_default();
        if *b != a {
            let view = if kind == 'n' { "node_at_version" } else { "edge_at_version" };
            let class = if v == w {
                "read_at_watermark"
            } else if v > m.current {
                "read_above_current"
            } else {
                "read_above_watermark"
            };
            push(
                format!("C08/{name}/{view}/{}/{class}", shape(b, &a)),
                format!(
                    "{ctx}: {name}({w}) at current_version {} (pruned {pn} node versions, {pe} relationship log entries): {} {id} read at version {v} was {b}, is now {a}",
                    m.current,
                    if kind == 'n' { "node" } else { "relationship" }
                ),
            );
        }
    }
    for (k, b) in &tbefore {
        let (ti, kind, id) = *k;
        let t = &m.txns[ti];
        let read_version = if t.si { t.start } else { m.current };
        if gc != Gc::Auto && read_version < w {
            continue;
        }
        let a = tafter.get(k).cloned().unwrap_or_default();
        if *b != a {
            let view = if kind == 'n' { "node_for_txn" } else { "edge_for_txn" };
            let iso = if t.si { "SI" } else { "RC" };
            push(
                format!("C08/{name}/{view}/{}/{iso}_active_txn", shape(b, &a)),
                format!(
                    "{ctx}: {name}({w}) at current_version {}: active {iso} transaction {} (began at version {}) read {} {id} as {b}, now {a}",
                    m.current,
                    t.id,
                    t.start,
                    if kind == 'n' { "node" } else { "relationship" }
                ),
            );
        }
    }
    GcResult { violations: out, pruned_nodes: pn, pruned_edges: pe, watermark: w }
}

impl Scenario for C08 {
    fn id(&self) -> &'static str {
        "C08"
    }
    fn runs(&self, tier: Tier) -> u64 {
        match tier {
            Tier::Quick => 8_000,
            Tier::Thorough => 1_000_000,
        }
    }
    fn rule(&self) -> &'static str {
        "history = C07's PRNG-generated write history (3..14 events, biased short, <=3 nodes, <=2 relationships) interleaved with transaction actors (begin RC/SI, record write, commit, abort; <=3 active) and maintenance events gc_versions(w) / gc_auto() applied to the main store. After every step the prefix is replayed into a fresh store once per watermark w in 0..=current+1 and once for gc_auto (one evaluation each); on the fork all reads at versions w..=current+1 and all reads of active transactions are compared before/after the collection. The collections that are part of the main history are compared the same way in place. Non-trivial = at least one collection of the run pruned something. Distinct = hash of the sequence of (op kind, resolved ranks). Sampled histories; the watermark and the insertion point are enumerated exhaustively per history."
    }
    fn real_components(&self) -> Vec<&'static str> {
        vec![
            "samyama::graph::GraphStore: gc_versions, gc_watermark, gc_auto, get_node_at_version, get_edge_at_version, get_node_for_txn, get_edge_for_txn, begin/commit/abort_transaction, txn_write_node/edge and the writers of C07",
        ]
    }
    fn assumptions(&self) -> Vec<&'static str> {
        vec![
            "a fork (replay of the trace prefix into a fresh store) is the same state as the main store; checked: the fork's read vector must equal the main store's (signature C08/harness/fork_diverged)",
            "reads compared: labels + non-null properties of nodes, endpoints + type + non-null properties of relationships; version stamps and timestamps are not compared",
            "for gc_versions(w) only transactions whose prescribed read version (SI: start version, RC: current version) is >= w are required to be unaffected; for gc_auto every active transaction is",
            "finished (committed/aborted) transactions are not 'active': gc may forget them",
        ]
    }
    fn required_probes(&self, _tier: Tier) -> Vec<&'static str> {
        vec!["gc_pruned_node_versions", "gc_pruned_edge_entries", "gc_auto_pruned_with_active_txn", "gc_auto_held_back_by_active_txn", "gc_in_main_history_then_more_writes"]
    }
    fn generate(&self, s: &mut Streams, _run_index: u64, _tier: Tier) -> Case {
        let mut case = Case::new("C08");
        let n = s.knobs.short_len(3, 14);
        let cfg = GenCfg {
            allow_delete: s.knobs.chance(1, 3),
            allow_remove: s.knobs.chance(3, 4),
            allow_labels: s.knobs.chance(1, 2),
            allow_edge_props: s.knobs.chance(3, 4),
            field_bump: s.knobs.chance(1, 3),
        };
        let txn_weight = [0u64, 2, 4][s.knobs.usize_below(3)];
        let gc_weight = [0u64, 1, 3][s.knobs.usize_below(3)];
        case.knobs.insert("allow_delete".into(), json!(cfg.allow_delete));
        case.knobs.insert("txn_weight".into(), json!(txn_weight));
        case.knobs.insert("gc_weight".into(), json!(gc_weight));
        let pre = s.knobs.below(4);
        if pre >= 1 {
            let p = if s.workload.chance(1, 2) { gen_props(&mut s.workload) } else { json!({}) };
            case.events.push(json!({"op":"create_node","labels":[s.workload.below(2)],"props":p}));
        }
        if pre >= 2 {
            case.events.push(json!({"op":"create_node","labels":[],"props":{}}));
        }
        if pre >= 3 {
            let p = if s.workload.chance(1, 2) { gen_props(&mut s.workload) } else { json!({}) };
            case.events.push(json!({"op":"create_edge","s":0,"t":1,"type":0,"props":p}));
        }
        for _ in 0..n {
            // which actor moves next is the scheduler's pick
            let pickw = s.sched.below(10 + txn_weight + gc_weight);
            let ev = if pickw < 10 {
                gen_hist_event(&mut s.workload, &cfg)
            } else if pickw < 10 + txn_weight {
                match s.workload.below(6) {
                    0 | 1 => json!({"op":"begin","iso":s.workload.below(2)}),
                    2 => json!({"op":"txn_write","t":s.workload.below(6),"kind": if s.workload.chance(1, 3) { "e" } else { "n" },"x":s.workload.below(4)}),
                    3 | 4 => json!({"op":"txn_commit","t":s.workload.below(6)}),
                    _ => json!({"op":"txn_abort","t":s.workload.below(6)}),
                }
            } else if s.fault.chance(1, 2) {
                json!({"op":"gc","w":s.fault.below(12)})
            } else {
                json!({"op":"gc_auto"})
            };
            case.events.push(ev);
        }
        case
    }
    fn shrink_event(&self, ev: &Value) -> Vec<Value> {
        match op(ev) {
            "gc" | "gc_auto" => vec![],
            _ => shrink_hist_event(ev),
        }
    }
    fn stack_mb(&self) -> usize {
        8
    }
    fn execute(&self, case: &Case) -> Outcome {
        let mut o = Outcome::new();
        o.evaluations = 0;
        let mut g = GraphStore::new();
        let mut m = Model::default();
        let lim = Limits::default();
        let mut sig_parts: Vec<String> = Vec::new();
        let mut pruned_any = false;
        let mut main_gc_done = false;
        let mut main_wmax: Option<u64> = None;
        'outer: for (step, ev) in case.events.iter().enumerate() {
            let kind = op(ev).to_string();
            // collections of the main history are compared in place
            if kind == "gc" || kind == "gc_auto" {
                let gc = if kind == "gc" { Gc::Versions(u(ev, "w") % (m.current + 2)) } else { Gc::Auto };
                let r = gc_and_compare(&mut g, &m, gc, step, "main history");
                o.evaluations += 1;
                o.steps += 1;
                sig_parts.push(format!("{kind}{}", if kind == "gc" { format!("{}/{}", r.watermark, m.current) } else { String::new() }));
                if r.pruned_nodes + r.pruned_edges > 0 {
                    pruned_any = true;
                    main_gc_done = true;
                }
                main_wmax = Some(main_wmax.map_or(r.watermark, |w: u64| w.max(r.watermark)));
                if !r.violations.is_empty() {
                    for v in r.violations {
                        o.violate(v);
                    }
                    break 'outer;
                }
                continue;
            }
            let a = apply(ev, &mut g, &mut m, &lim);
            match &a {
                Applied::Skipped => continue,
                Applied::Refused { kind, what, detail } => {
                    o.violate(Violation::new(format!("C08/harness/{kind}/{what}"), detail.clone(), step));
                    break;
                }
                _ => {}
            }
            sig_parts.push(format!("{kind}{}", a.desc()));
            o.steps += 1;
            if main_gc_done && matches!(kind.as_str(), "set_prop" | "remove_prop" | "set_eprop" | "remove_eprop" | "add_label" | "remove_label") {
                o.probe("gc_in_main_history_then_more_writes");
            }
            // ---- fork once per watermark and once for gc_auto
            let main_reads: Reads = read_vector(&g, &m, m.current + 1);
            let mut variants: Vec<Gc> = (0..=m.current + 1).map(Gc::Versions).collect();
            variants.push(Gc::Auto);
            for gc in variants {
                let (mut fg, fm) = fork(&case.events, step, &lim);
                if read_vector(&fg, &fm, fm.current + 1) != main_reads || fm.current != m.current {
                    o.violate(Violation::new("C08/harness/fork_diverged", format!("replaying events 0..={step} into a fresh store gives different reads"), step));
                    break 'outer;
                }
                let active = fm.active_txns();
                let min_start = active.iter().map(|ti| fm.txns[*ti].start).min();
                let r = gc_and_compare(&mut fg, &fm, gc, step, &format!("fork after step {step} ({kind})"));
                o.evaluations += 1;
                if r.pruned_nodes > 0 {
                    o.probe("gc_pruned_node_versions");
                    pruned_any = true;
                }
                if r.pruned_edges > 0 {
                    o.probe("gc_pruned_edge_entries");
                    pruned_any = true;
                }
                if gc == Gc::Auto {
                    if let Some(ms) = min_start {
                        if r.pruned_nodes + r.pruned_edges > 0 {
                            o.probe("gc_auto_pruned_with_active_txn");
                        }
                        if ms < fm.current {
                            o.probe("gc_auto_held_back_by_active_txn");
                        }
                    }
                }
                if !r.violations.is_empty() {
                    for v in r.violations {
                        o.violate(v);
                    }
                    break 'outer;
                }
            }
        }
        // ---- a collection must not change a read it has to preserve *later* either: replay
        // the same history without its collections into a twin store and compare every
        // read at a version >= the highest watermark used (a collection that leaves
        // damaged bookkeeping behind shows only once the history continues).
        if let (Some(wmax), true) = (main_wmax, o.violations.is_empty()) {
            let mut g2 = GraphStore::new();
            let mut m2 = Model::default();
            let mut ok = true;
            for ev in case.events.iter() {
                let k = op(ev);
                if k == "gc" || k == "gc_auto" {
                    continue;
                }
                if let Applied::Refused { .. } = apply(ev, &mut g2, &mut m2, &lim) {
                    ok = false;
                    break;
                }
            }
            if ok && m2.current == m.current {
                o.probe("main_history_compared_with_uncollected_twin");
                let a = read_vector(&g, &m, m.current + 1);
                let b = read_vector(&g2, &m2, m2.current + 1);
                for ((kind, id, v), got) in &a {
                    if *v < wmax {
                        continue;
                    }
                    if let Some(want) = b.get(&(*kind, *id, *v)) {
                        if want != got {
                            let what = if *kind == 'n' { "node_at_version" } else { "edge_at_version" };
                            o.violate(Violation::new(
                                format!("C08/collected_vs_uncollected_history/{what}/differs_at_or_above_watermark"),
                                format!("{kind}{id}@v{v} (highest watermark used {wmax}): with the collections {got}, same history without them {want}"),
                                case.events.len(),
                            ));
                            break;
                        }
                    }
                }
            }
        }
        if o.evaluations == 0 {
            o.evaluations = 1;
        }
        o.nontrivial = pruned_any;
        o.class_key = hash_str(&sig_parts.join(","));
        let rv = read_vector(&g, &m, m.current + 1);
        o.state_hash = hash_str(&format!("{:?}|{}|{:?}", rv, g.current_version, txn_reads(&g, &m)));
        tally(&o);
        o
    }
}
