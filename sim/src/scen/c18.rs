//! C18 — tenant quotas hold under every interleaving of writers.
//!
//! Sim: 2–3 REAL OS threads each call `persist_create_node` / `persist_create_edge` for
//! distinct ids against a quota of 1–2.  Every thread parks at a synthetic `start` point,
//! at every H4 point inside `persist_create_*` and (hook H7) BEFORE every acquisition of a
//! `TenantManager` lock (`lock.read` / `lock.write`); the controller (`kit::threads`)
//! releases exactly one parked thread at a time, chosen by the pre-drawn scheduler picks
//! of the case — the interleaving is the simulator's decision and replays exactly.
//! Afterwards `recover` is called 1–2 times — on the same manager, or after a restart, or
//! after a restart that first accepts further creations (the manager of a restarted
//! process knows nothing of what is stored until `recover` tells it) — and a further
//! sequential creation is attempted.

use crate::kit::core::*;
use crate::kit::model::*;
use crate::kit::pers::*;
use crate::kit::rng::Streams;
use crate::kit::threads::{interleavings, ThreadCtl};
use samyama::graph::PropertyMap;
use samyama::persistence::{PersistenceError, PersistenceManager, ResourceQuotas, TenantError};
use samyama::verif::PointHandler;
use serde_json::{json, Map, Value};
use std::collections::{BTreeMap, BTreeSet};
use std::path::Path;
use std::sync::{Arc, Mutex};

pub struct C18;

const TENANT: &str = "q";
const KINDS: [&str; 2] = ["nodes", "edges"];

#[derive(Clone, Debug)]
struct Attempt {
    who: String,
    kind: usize,
    id: u64,
    ok: bool,
    quota_error: bool,
    err: String,
}

fn open(dir: &Path, qn: usize, qe: usize) -> Result<PersistenceManager, String> {
    let pm = PersistenceManager::new(dir).map_err(|e| format!("open: {e}"))?;
    let mut q = ResourceQuotas::unlimited();
    q.max_nodes = Some(qn);
    q.max_edges = Some(qe);
    pm.tenants().create_tenant(TENANT.to_string(), "quota tenant".to_string(), Some(q)).map_err(|e| format!("create_tenant: {e}"))?;
    Ok(pm)
}

fn create(pm: &PersistenceManager, who: &str, kind: usize, id: u64) -> Attempt {
    let r = if kind == 0 {
        pm.persist_create_node(TENANT, &mk_node(id, &["Q".to_string()], PropertyMap::new()))
    } else {
        pm.persist_create_edge(TENANT, &mk_edge(id, 1, 1, "R", PropertyMap::new()))
    };
    match r {
        Ok(()) => Attempt { who: who.to_string(), kind, id, ok: true, quota_error: false, err: String::new() },
        Err(e) => {
            let quota_error = matches!(e, PersistenceError::Tenant(TenantError::QuotaExceeded { .. }));
            Attempt { who: who.to_string(), kind, id, ok: false, quota_error, err: e.to_string() }
        }
    }
}

struct Check<'a> {
    pm: &'a PersistenceManager,
    quota: [usize; 2],
    out: Vec<Violation>,
    sched: String,
}

impl<'a> Check<'a> {
    fn fail(&mut self, sig: String, detail: String, step: usize) {
        if self.out.len() < 8 {
            self.out.push(Violation::new(sig, format!("{detail}; quota nodes={} edges={}; schedule: {}", self.quota[0], self.quota[1], self.sched), step));
        }
    }
    fn stored(&mut self, kind: usize, step: usize) -> Option<BTreeMap<u64, usize>> {
        let ids: Result<Vec<u64>, String> = if kind == 0 {
            self.pm.storage().scan_nodes(TENANT).map(|v| v.iter().map(|n| n.id.as_u64()).collect()).map_err(|e| e.to_string())
        } else {
            self.pm.storage().scan_edges(TENANT).map(|v| v.iter().map(|n| n.id.as_u64()).collect()).map_err(|e| e.to_string())
        };
        match ids {
            Ok(v) => {
                let mut m = BTreeMap::new();
                for i in v {
                    *m.entry(i).or_insert(0) += 1;
                }
                Some(m)
            }
            Err(e) => {
                self.fail(format!("C18/scan_error/{}", KINDS[kind]), e, step);
                None
            }
        }
    }
    fn usage(&mut self, kind: usize, step: usize) -> Option<usize> {
        match self.pm.tenants().get_usage(TENANT) {
            Ok(u) => Some(if kind == 0 { u.node_count } else { u.edge_count }),
            Err(e) => {
                self.fail(format!("C18/usage_error/{}", KINDS[kind]), e.to_string(), step);
                None
            }
        }
    }
    /// The full oracle at a quiescent moment; `phase` names when.
    fn all(&mut self, attempts: &[Attempt], phase: &str, step: usize) {
        for kind in 0..2 {
            let k = KINDS[kind];
            let accepted: BTreeSet<u64> = attempts.iter().filter(|a| a.kind == kind && a.ok).map(|a| a.id).collect();
            let refused: BTreeSet<u64> = attempts.iter().filter(|a| a.kind == kind && !a.ok).map(|a| a.id).collect();
            if phase == "after_writers" && accepted.len() > self.quota[kind] {
                self.fail(
                    format!("C18/quota_exceeded/{k}/concurrent_writers"),
                    format!("{} {k} accepted ({:?}) with a quota of {}", accepted.len(), attempts.iter().filter(|a| a.kind == kind && a.ok).map(|a| format!("{}:{}", a.who, a.id)).collect::<Vec<_>>(), self.quota[kind]),
                    step,
                );
            }
            for a in attempts.iter().filter(|a| a.kind == kind && !a.ok && !a.quota_error) {
                self.fail(format!("C18/unexpected_error/{k}"), format!("{} creating {k} id {} failed with '{}' (not a quota refusal)", a.who, a.id, a.err), step);
            }
            let Some(stored) = self.stored(kind, step) else { continue };
            for id in &refused {
                if stored.contains_key(id) {
                    self.fail(format!("C18/refused_left_key/{k}"), format!("creation of {k} id {id} was refused but its key is in storage"), step);
                }
            }
            for id in &accepted {
                if !stored.contains_key(id) {
                    self.fail(format!("C18/accepted_not_stored/{k}"), format!("creation of {k} id {id} was accepted but storage does not hold it"), step);
                }
            }
            for (id, n) in &stored {
                if *n > 1 {
                    self.fail(format!("C18/stored_twice/{k}"), format!("{k} id {id} returned {n} times by the scan"), step);
                }
                if !accepted.contains(id) && !refused.contains(id) {
                    self.fail(format!("C18/phantom_key/{k}"), format!("{k} id {id} in storage was never created"), step);
                }
            }
            let n_stored: usize = stored.values().sum();
            if let Some(u) = self.usage(kind, step) {
                if u != n_stored {
                    self.fail(format!("C18/usage_vs_stored/{k}/{phase}"), format!("get_usage reports {u} {k}, storage holds {n_stored}"), step);
                }
            }
        }
    }
}

impl Scenario for C18 {
    fn id(&self) -> &'static str {
        "C18"
    }
    fn runs(&self, tier: Tier) -> u64 {
        match tier {
            Tier::Quick => 600,
            Tier::Thorough => 40000,
        }
    }
    fn rule(&self) -> &'static str {
        "case = quota (1..2 nodes, 1..2 edges), 0..1 sequential creations before, 2..3 writer threads each performing 1..2 persist_create_node/edge calls for distinct ids, a pre-drawn list of scheduler picks (one per decision, taken modulo the parked threads), then 1..2 recover calls on the same manager (1 run in 3 after a restart; 1 run in 3 after a restart on the same directory that first accepts 1..2 further creations, i.e. recover runs on a manager whose counters are already running) and a final sequential creation per kind. Threads are real; they park at 'start', at every H4 point and before every TenantManager lock acquisition (hook H7: lock.read / lock.write); exactly one runs at a time. Non-trivial = at least two writers were simultaneously inside the admission window (between entering the quota reservation and their usage update), or simultaneously parked before a TenantManager lock acquisition. Distinct = hash of (quotas, writer programs, executed schedule with threads renamed by first appearance, recover plan)."
    }
    fn real_components(&self) -> Vec<&'static str> {
        vec![
            "samyama::persistence::PersistenceManager::persist_create_node / persist_create_edge / recover on real OS threads",
            "samyama::persistence::TenantManager (real RwLocks)",
            "samyama::persistence::PersistentStorage over real RocksDB on tmpfs; Wal (real files, real Mutex)",
        ]
    }
    fn stub_components(&self) -> Vec<&'static str> {
        vec!["the OS scheduler is replaced by kit::threads::ThreadCtl: threads only switch at 'start', at the H4 points and before each TenantManager lock acquisition (H7)"]
    }
    fn assumptions(&self) -> Vec<&'static str> {
        vec![
            "the H4 points sit outside every lock scope (verified by reading persist_create_*: the TenantManager guards live inside reserve_quota/decrement_usage, the WAL MutexGuard is a temporary of one statement), so a released thread never blocks on a thread parked there; a 30 s watchdog turns a violation of this into a reported panic instead of a hang",
            "H7 lock points are reported BEFORE the acquisition, never while holding the lock being acquired, so a thread parked there holds at most the locks of enclosing scopes: in TenantManager that is the `tenants` READ guard (reserve_quota / check_quota take tenants.read(), then usage.write()/read()). The writers of this scenario only ever take tenants.read(), which a parked reader does not block (no thread requests tenants.write() while writers run: create_tenant / delete_tenant / update_* are only called by the controller thread between phases). A future TenantManager method that parks holding a WRITE guard, or a writer program that calls a tenants.write() method, would block the others: the watchdog reports that as a panic, it does not hang",
            "every critical section of TenantManager is one lock acquisition (or a nested pair) and is atomic between two H7 points; check-then-act split over two acquisitions — in any shape — therefore has a schedule point in the gap. Interleavings inside RocksDB / the WAL Mutex (inside put_node, inside append) are not explored: each is one call that takes and releases its own lock",
            "a restarted manager that accepts creations before recover(tenant) ran may legitimately exceed the quota (it cannot know what is stored); the oracle demands only what the statement says: after recover the counters equal what is stored, and from then on nothing is accepted at or above the quota",
            "'accepted' = the call returned Ok; 'refused' = it returned an error; the statement does not require that a creation is accepted while room remains, so under-admission is a probe, not a violation",
            "only the tenant under test holds data, so scan_nodes/scan_edges (whose prefix scan is C17's subject) return exactly its keys",
        ]
    }
    fn required_probes(&self, _tier: Tier) -> Vec<&'static str> {
        vec![
            "both_passed_quota_check",
            "writer_refused",
            "three_writers",
            "recover_twice",
            "restart_before_recover",
            "post_recover_creation_refused",
            "two_writers_parked_before_lock_acquisition",
            "writer_parked_between_two_lock_acquisitions_of_one_call",
            "creation_on_restarted_manager_before_recover",
            "recover_on_manager_with_running_counters_and_stored_data",
        ]
    }
    fn extra_evidence(&self, _tier: Tier) -> Map<String, Value> {
        let mut m = Map::new();
        // every persist_create_* call = 7 scheduler releases when accepted (start|previous point,
        // lock.read [tenants], lock.write [usage], after_quota, after_wal, after_put, after_usage)
        m.insert(
            "schedule_space".into(),
            json!({
                "2_writers_x_1_create": interleavings(&[7, 7]).to_string(),
                "3_writers_x_1_create": interleavings(&[7, 7, 7]).to_string(),
                "2_writers_x_2_creates": interleavings(&[13, 13]).to_string(),
                "3_writers_x_2_creates": interleavings(&[13, 13, 13]).to_string(),
                "note": "multinomial count of release orders when every call is accepted; refused calls have fewer points, so the real space is smaller. 'distinct_nontrivial' in coverage is the number of distinct (program, executed schedule) classes reached."
            }),
        );
        m
    }
    fn generate(&self, s: &mut Streams, _run_index: u64, _tier: Tier) -> Case {
        let mut case = Case::new("C18");
        case.knobs.insert("quota_nodes".into(), json!(1 + s.knobs.below(2)));
        case.knobs.insert("quota_edges".into(), json!(1 + s.knobs.below(2)));
        case.knobs.insert("restart_before_recover".into(), json!(s.knobs.chance(1, 3)));
        let writers = if s.knobs.chance(1, 3) { 3 } else { 2 };
        let edge_bias = s.knobs.below(4); // 0: nodes only (the property's own quantifier), else mixed
        let write_before_recover = s.knobs.chance(1, 3);
        let r = &mut s.workload;
        if r.chance(1, 4) {
            case.events.push(json!({"op":"pre","kind": if edge_bias == 0 { 0 } else { r.below(2) }}));
        }
        for _ in 0..writers {
            let n = if r.chance(1, 4) { 2 } else { 1 };
            let first = if edge_bias == 0 || r.chance(2, 3) { 0 } else { 1 };
            let kinds: Vec<u64> = (0..n).map(|i| if i == 0 { first } else if edge_bias == 0 { 0 } else { r.below(2) }).collect();
            case.events.push(json!({"op":"writer","kinds":kinds}));
        }
        let sr = &mut s.sched;
        for _ in 0..48 {
            case.events.push(json!({"op":"sched","pick":sr.below(6)}));
        }
        let r = &mut s.workload;
        let recs = 1 + r.below(2);
        if write_before_recover {
            // a restarted process that accepts creations before it recovers the tenant
            let n = 1 + s.knobs.below(2);
            for _ in 0..n {
                let kind = if edge_bias == 0 { 0 } else { s.knobs.below(2) };
                case.events.push(json!({"op":"rwrite","kind":kind}));
            }
        }
        for _ in 0..recs {
            case.events.push(json!({"op":"recover"}));
        }
        case.events.push(json!({"op":"post","kind":0}));
        if edge_bias != 0 {
            case.events.push(json!({"op":"post","kind":1}));
        }
        case
    }
    fn shrink_event(&self, ev: &Value) -> Vec<Value> {
        match op(ev) {
            "writer" => vec![json!({"op":"writer","kinds":[0]})],
            "sched" => vec![json!({"op":"sched","pick":0})],
            _ => vec![],
        }
    }
    fn execute(&self, case: &Case) -> Outcome {
        let mut o = Outcome::new();
        let rd = RunDir::new("c18", case.run_index);
        let dir = rd.sub("db");
        let qn = case.knob_u64("quota_nodes", 1).max(1) as usize;
        let qe = case.knob_u64("quota_edges", 1).max(1) as usize;
        let restart = case.knob_bool("restart_before_recover", false);
        let pm = match open(&dir, qn, qe) {
            Ok(p) => Arc::new(p),
            Err(e) => {
                o.violate(Violation::new("C18/open/error", e, 0));
                return o;
            }
        };
        let mut next_id = [1u64, 1u64];
        let mut attempts: Vec<Attempt> = Vec::new();
        let mut class_parts: Vec<String> = vec![format!("q{qn}/{qe}")];
        // ---- sequential creations before the writers
        for ev in case.events.iter().filter(|e| op(e) == "pre") {
            let kind = (u(ev, "kind") % 2) as usize;
            let id = next_id[kind];
            next_id[kind] += 1;
            attempts.push(create(&pm, "pre", kind, id));
            class_parts.push(format!("pre{kind}"));
            o.steps += 1;
        }
        // ---- writers
        let programs: Vec<Vec<(usize, u64)>> = case
            .events
            .iter()
            .filter(|e| op(e) == "writer")
            .take(4)
            .map(|e| {
                e["kinds"]
                    .as_array()
                    .map(|a| a.iter().take(3).map(|k| (k.as_u64().unwrap_or(0) % 2) as usize).collect::<Vec<_>>())
                    .unwrap_or_else(|| vec![0])
                    .into_iter()
                    .map(|kind| {
                        let id = next_id[kind];
                        next_id[kind] += 1;
                        (kind, id)
                    })
                    .collect()
            })
            .collect();
        let picks: Vec<u64> = case.events.iter().filter(|e| op(e) == "sched").map(|e| u(e, "pick")).collect();
        let mut sched_desc = String::from("(no writers)");
        let mut overlap = false;
        let mut lock_overlap = false;
        let mut split_call = false;
        if !programs.is_empty() {
            if programs.len() >= 3 {
                o.probe("three_writers");
            }
            let ctl = ThreadCtl::new(programs.len());
            ctl.install();
            // H7: the same controller also receives the lock-acquisition points
            samyama::verif::sync::set_lock_handler(Some(ctl.clone() as Arc<dyn PointHandler>));
            let results: Arc<Mutex<Vec<Attempt>>> = Arc::new(Mutex::new(Vec::new()));
            let mut handles = Vec::new();
            for (ix, prog) in programs.iter().enumerate() {
                let pm2 = pm.clone();
                let res2 = results.clone();
                let prog = prog.clone();
                handles.push(ctl.spawn(ix, move || {
                    for (kind, id) in prog {
                        let a = create(&pm2, &format!("w{ix}"), kind, id);
                        res2.lock().unwrap_or_else(|e| e.into_inner()).push(a);
                    }
                }));
            }
            let mut di = 0usize;
            let run = ctl.run_schedule(|parked| {
                // probe: two writers of the same kind both past their quota check, neither past its usage update
                for kind in ["create_node", "create_edge"] {
                    let inside = parked
                        .iter()
                        .filter(|(_, p)| p.starts_with(&format!("persist.{kind}.")) && !p.ends_with(".after_usage"))
                        .count();
                    if inside >= 2 {
                        overlap = true;
                    }
                }
                // probe: two writers both about to acquire a TenantManager lock
                if parked.iter().filter(|(_, p)| p.starts_with("lock.")).count() >= 2 {
                    lock_overlap = true;
                }
                let p = picks.get(di).cloned().unwrap_or(0) as usize;
                di += 1;
                p
            });
            let trace = match run {
                Ok(t) => t,
                Err(e) => {
                    // never hang: let everything run to its end, then report
                    ThreadCtl::uninstall();
                    samyama::verif::sync::set_lock_handler(None);
                    ctl.drain();
                    for h in handles {
                        let _ = h.join();
                    }
                    panic!("{e}");
                }
            };
            for h in handles {
                let _ = h.join();
            }
            ThreadCtl::uninstall();
            samyama::verif::sync::set_lock_handler(None);
            o.steps += trace.len() as u64;
            // probe: some writer was released from one lock point and parked at the next
            // while another writer ran in between — i.e. the scheduler used the gap between
            // two lock acquisitions of one TenantManager call
            for (i, (ix, p)) in trace.iter().enumerate() {
                if !p.starts_with("lock.") {
                    continue;
                }
                // next release of the same thread
                if let Some(j) = trace.iter().enumerate().skip(i + 1).find(|(_, (jx, _))| jx == ix).map(|(j, _)| j) {
                    if trace[j].1.starts_with("lock.") && j > i + 1 {
                        split_call = true;
                    }
                }
            }
            for ix in 0..programs.len() {
                if let Some(msg) = ctl.panic_of(ix) {
                    o.violate(Violation::new("C18/panic_in_writer", format!("writer {ix} panicked: {msg}"), 0));
                }
            }
            // canonical schedule: threads renamed by first appearance
            let mut rename: BTreeMap<usize, usize> = BTreeMap::new();
            let mut canon = Vec::new();
            for (ix, p) in &trace {
                let n = rename.len();
                let r = *rename.entry(*ix).or_insert(n);
                let short = if p.starts_with("lock.") { p.as_str() } else { p.rsplit('.').next().unwrap_or(p) };
                canon.push(format!("{r}{short}"));
            }
            let mut progs: Vec<(usize, String)> = programs.iter().enumerate().map(|(ix, p)| (*rename.get(&ix).unwrap_or(&99), p.iter().map(|(k, _)| k.to_string()).collect::<String>())).collect();
            progs.sort();
            class_parts.push(format!("{:?}", progs));
            class_parts.push(canon.join(","));
            sched_desc = trace.iter().map(|(ix, p)| format!("w{ix}<-{}", if p.starts_with("lock.") { p.as_str() } else { p.rsplit('.').next().unwrap_or(p) })).collect::<Vec<_>>().join(" ");
            let mut rs = results.lock().unwrap_or_else(|e| e.into_inner()).clone();
            rs.sort_by(|a, b| (a.who.clone(), a.id).cmp(&(b.who.clone(), b.id)));
            attempts.extend(rs);
        }
        if overlap {
            o.probe("both_passed_quota_check");
        }
        if lock_overlap {
            o.probe("two_writers_parked_before_lock_acquisition");
        }
        if split_call {
            o.probe("writer_parked_between_two_lock_acquisitions_of_one_call");
        }
        if attempts.iter().any(|a| !a.ok && a.who.starts_with('w')) {
            o.probe("writer_refused");
        }
        for kind in 0..2 {
            let acc = attempts.iter().filter(|a| a.kind == kind && a.ok).count();
            let refused = attempts.iter().filter(|a| a.kind == kind && !a.ok).count();
            if refused > 0 && acc < [qn, qe][kind] {
                o.probe("refused_while_room_remained");
            }
        }
        let mut pm_opt: Option<Arc<PersistenceManager>> = Some(pm);
        {
            let pmr = pm_opt.as_ref().unwrap();
            let mut c = Check { pm: pmr, quota: [qn, qe], out: Vec::new(), sched: sched_desc.clone() };
            c.all(&attempts, "after_writers", 0);
            o.steps += 1;
            for v in c.out {
                o.violate(v);
            }
        }
        // ---- recovery (optionally in a restarted process), repeated on the same manager
        let n_rec = case.events.iter().filter(|e| op(e) == "recover").count().min(3);
        let mut stop = !o.violations.is_empty() && o.violations.iter().any(|v| v.signature.starts_with("C18/panic") || v.signature.starts_with("C18/scan_error"));
        // state class of the after-recovery signatures: what the recovering manager had seen
        let mut rec_phase = "after_recover";
        let rwrites: Vec<usize> = case.events.iter().filter(|e| op(e) == "rwrite").take(3).map(|e| (u(e, "kind") % 2) as usize).collect();
        if n_rec > 0 && (restart || !rwrites.is_empty()) && !stop {
            o.probe("restart_before_recover");
            pm_opt = None; // drop: releases RocksDB's LOCK
            match open(&dir, qn, qe) {
                Ok(p) => pm_opt = Some(Arc::new(p)),
                Err(e) => {
                    o.violate(Violation::new("C18/reopen/error", e, 0));
                    stop = true;
                }
            }
            class_parts.push("restart".into());
            // ---- the restarted process accepts creations BEFORE it recovers the tenant:
            // its counters start at 0 and know nothing of what is stored, so whether these
            // are accepted is not judged (see assumptions); what recover makes of counters
            // that are already running is judged by the checks after each recover below
            if !stop {
                let pmr = pm_opt.as_ref().unwrap();
                for kind in &rwrites {
                    let kind = *kind;
                    let held_before: usize = {
                        let mut c = Check { pm: pmr, quota: [qn, qe], out: Vec::new(), sched: sched_desc.clone() };
                        c.stored(kind, 0).map(|m| m.values().sum()).unwrap_or(0)
                    };
                    let id = next_id[kind];
                    next_id[kind] += 1;
                    let a = create(pmr, "rw", kind, id);
                    o.probe("creation_on_restarted_manager_before_recover");
                    if a.ok && held_before > 0 {
                        o.probe("recover_on_manager_with_running_counters_and_stored_data");
                    }
                    rec_phase = "after_recover_on_restarted_manager_with_earlier_creations";
                    attempts.push(a);
                    class_parts.push(format!("rw{kind}"));
                    o.steps += 1;
                }
            }
        }
        if !stop {
            for i in 0..n_rec {
                let pmr = pm_opt.as_ref().unwrap();
                if i == 1 {
                    o.probe("recover_twice");
                }
                o.steps += 1;
                match pmr.recover(TENANT) {
                    Ok((ns, es)) => {
                        let mut c = Check { pm: pmr, quota: [qn, qe], out: Vec::new(), sched: sched_desc.clone() };
                        for (kind, n) in [(0usize, ns.len()), (1usize, es.len())] {
                            if let Some(st) = c.stored(kind, i + 1) {
                                let total: usize = st.values().sum();
                                if total != n {
                                    c.fail(format!("C18/recover_count/{}", KINDS[kind]), format!("recover returned {n}, a scan returns {total}"), i + 1);
                                }
                            }
                        }
                        c.all(&attempts, rec_phase, i + 1);
                        for v in c.out {
                            o.violate(v);
                        }
                    }
                    Err(e) => o.violate(Violation::new("C18/recover/error", e.to_string(), i + 1)),
                }
                class_parts.push("rec".into());
            }
            // ---- one more sequential creation per kind: the quota must still hold
            {
                let pmr = pm_opt.as_ref().unwrap();
                for ev in case.events.iter().filter(|e| op(e) == "post").take(2) {
                    let kind = (u(ev, "kind") % 2) as usize;
                    let id = next_id[kind];
                    next_id[kind] += 1;
                    let mut c = Check { pm: pmr, quota: [qn, qe], out: Vec::new(), sched: sched_desc.clone() };
                    let held: usize = c.stored(kind, n_rec + 1).map(|m| m.values().sum()).unwrap_or(0);
                    let a = create(pmr, "post", kind, id);
                    if !a.ok {
                        o.probe("post_recover_creation_refused");
                    } else if held >= [qn, qe][kind] {
                        c.fail(
                            format!("C18/quota_exceeded/{}/{rec_phase}", KINDS[kind]),
                            format!("after recovery storage held {held} {} (quota {}), yet a further creation (id {id}) was accepted", KINDS[kind], [qn, qe][kind]),
                            n_rec + 1,
                        );
                    }
                    for v in c.out {
                        o.violate(v);
                    }
                    attempts.push(a);
                    class_parts.push(format!("post{kind}"));
                    o.steps += 1;
                }
                let mut c = Check { pm: pmr, quota: [qn, qe], out: Vec::new(), sched: sched_desc.clone() };
                c.all(&attempts, if n_rec > 0 { rec_phase } else { "after_writers" }, n_rec + 1);
                for v in c.out {
                    o.violate(v);
                }
            }
        }
        // de-duplicate signatures (the same clause can fire in several phases)
        let mut seen = BTreeSet::new();
        o.violations.retain(|v| seen.insert(v.signature.clone()));
        o.nontrivial = overlap || lock_overlap;
        o.class_key = hash_str(&class_parts.join("|"));
        let final_usage = pm_opt.as_ref().and_then(|p| p.tenants().get_usage(TENANT).ok()).map(|u| (u.node_count, u.edge_count));
        o.state_hash = hash_str(&format!("{:?}|{:?}|{}", attempts.iter().map(|a| (a.who.clone(), a.kind, a.id, a.ok)).collect::<Vec<_>>(), final_usage, sched_desc));
        drop(pm_opt);
        o
    }
}
